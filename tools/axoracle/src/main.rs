// axoracle: dumps iced-x86's static architecture tables as JSON on stdout.
// Nothing is executed or emulated: every fact is a table lookup in the same
// iced-x86 version the emulator decodes with.
use iced_x86::*;
use std::fmt::Write as _;
use std::panic;

#[derive(Clone, Copy, Debug)]
enum Op {
    R(Register),
    M,
    I(i64),
    Br,
    Unsupported,
}

fn esc(s: &str) -> String {
    let mut o = String::from("\"");
    for c in s.chars() {
        match c {
            '"' => o.push_str("\\\""),
            '\\' => o.push_str("\\\\"),
            '\n' => o.push_str("\\n"),
            c if (c as u32) < 0x20 => {
                let _ = write!(o, "\\u{:04x}", c as u32);
            }
            c => o.push(c),
        }
    }
    o.push('"');
    o
}

fn pick(kind: OpCodeOperandKind, idx: usize, mem_form: bool, imm: i64) -> Op {
    use OpCodeOperandKind as K;
    let r8 = [Register::R8L, Register::R9L, Register::R10L, Register::R11L];
    let r16 = [Register::R8W, Register::R9W, Register::R10W, Register::R11W];
    let r32 = [Register::R8D, Register::R9D, Register::R10D, Register::R11D];
    let r64 = [Register::R8, Register::R9, Register::R10, Register::R11];
    let xmm = [Register::XMM8, Register::XMM9, Register::XMM10, Register::XMM11];
    let mm = [Register::MM1, Register::MM2, Register::MM3, Register::MM4];
    match kind {
        K::r8_or_mem => if mem_form { Op::M } else { Op::R(r8[idx]) },
        K::r16_or_mem => if mem_form { Op::M } else { Op::R(r16[idx]) },
        K::r32_or_mem => if mem_form { Op::M } else { Op::R(r32[idx]) },
        K::r64_or_mem => if mem_form { Op::M } else { Op::R(r64[idx]) },
        K::xmm_or_mem => if mem_form { Op::M } else { Op::R(xmm[idx]) },
        K::mm_or_mem => if mem_form { Op::M } else { Op::R(mm[idx]) },
        K::r8_reg | K::r8_opcode => Op::R(r8[idx]),
        K::r16_reg | K::r16_opcode | K::r16_rm | K::r16_reg_mem => Op::R(r16[idx]),
        K::r32_reg | K::r32_opcode | K::r32_rm | K::r32_reg_mem | K::r32_vvvv => Op::R(r32[idx]),
        K::r64_reg | K::r64_opcode | K::r64_rm | K::r64_reg_mem | K::r64_vvvv => Op::R(r64[idx]),
        K::xmm_reg | K::xmm_rm | K::xmm_vvvv => Op::R(xmm[idx]),
        K::mm_reg | K::mm_rm => Op::R(mm[idx]),
        K::al => Op::R(Register::AL),
        K::ax => Op::R(Register::AX),
        K::eax => Op::R(Register::EAX),
        K::rax => Op::R(Register::RAX),
        K::cl => Op::R(Register::CL),
        K::dx => Op::R(Register::DX),
        K::mem | K::mem_offs => Op::M,
        K::imm8 | K::imm8sex16 | K::imm8sex32 | K::imm8sex64 | K::imm16 | K::imm32
        | K::imm32sex64 | K::imm64 | K::imm4_m2z => Op::I(imm),
        K::imm8_const_1 => Op::I(1),
        K::br64_1 | K::br64_4 | K::br16_1 | K::br16_2 | K::br32_1 | K::br32_4 => Op::Br,
        _ => Op::Unsupported,
    }
}

fn memop(kind: OpCodeOperandKind) -> MemoryOperand {
    if kind == OpCodeOperandKind::mem_offs {
        MemoryOperand::with_displ(0x1122_3344_5566_7788, 8)
    } else {
        MemoryOperand::with_base_displ(Register::R12, 0x10)
    }
}

fn mk(code: Code, kinds: &[OpCodeOperandKind], ops: &[Op]) -> Option<Instruction> {
    let r = match ops {
        [] => Ok(Instruction::with(code)),
        [Op::R(a)] => Instruction::with1(code, *a),
        [Op::M] => Instruction::with1(code, memop(kinds[0])),
        [Op::I(i)] => Instruction::with1(code, *i as i32),
        [Op::Br] => Instruction::with_branch(code, 0x1000),
        [Op::R(a), Op::R(b)] => Instruction::with2(code, *a, *b),
        [Op::R(a), Op::M] => Instruction::with2(code, *a, memop(kinds[1])),
        [Op::M, Op::R(b)] => Instruction::with2(code, memop(kinds[0]), *b),
        [Op::R(a), Op::I(i)] => {
            if kinds[1] == OpCodeOperandKind::imm64 {
                Instruction::with2(code, *a, *i)
            } else {
                Instruction::with2(code, *a, *i as i32)
            }
        }
        [Op::M, Op::I(i)] => Instruction::with2(code, memop(kinds[0]), *i as i32),
        [Op::R(a), Op::R(b), Op::I(i)] => Instruction::with3(code, *a, *b, *i as i32),
        [Op::R(a), Op::M, Op::I(i)] => Instruction::with3(code, *a, memop(kinds[1]), *i as i32),
        [Op::M, Op::R(b), Op::I(i)] => Instruction::with3(code, memop(kinds[0]), *b, *i as i32),
        [Op::R(a), Op::R(b), Op::R(c)] => Instruction::with3(code, *a, *b, *c),
        [Op::M, Op::R(b), Op::R(c)] => Instruction::with3(code, memop(kinds[0]), *b, *c),
        [Op::R(a), Op::M, Op::R(c)] => Instruction::with3(code, *a, memop(kinds[1]), *c),
        _ => return None,
    };
    r.ok()
}

fn instance_json(ins: &Instruction) -> Option<String> {
    let ins = *ins;
    let res = panic::catch_unwind(move || {
        let mut f = InstructionInfoFactory::new();
        let info = f.info(&ins);
        let mut o = String::new();
        let _ = write!(
            o,
            "{{\"rflags_read\":{},\"rflags_written\":{},\"rflags_cleared\":{},\"rflags_set\":{},\"rflags_undefined\":{},\"rflags_modified\":{},\"sp_inc\":{},\"is_stack\":{},\"mem_size\":{},\"flow\":{},",
            ins.rflags_read(),
            ins.rflags_written(),
            ins.rflags_cleared(),
            ins.rflags_set(),
            ins.rflags_undefined(),
            ins.rflags_modified(),
            ins.stack_pointer_increment(),
            ins.is_stack_instruction(),
            esc(&format!("{:?}", ins.memory_size())),
            esc(&format!("{:?}", ins.flow_control())),
        );
        let _ = write!(o, "\"mem_size_bytes\":{},", ins.memory_size().size());
        let mut acc = Vec::new();
        for i in 0..ins.op_count() {
            acc.push(esc(&format!("{:?}", info.op_access(i))));
        }
        let _ = write!(o, "\"op_access\":[{}],", acc.join(","));
        let mut ok = Vec::new();
        for i in 0..ins.op_count() {
            ok.push(esc(&format!("{:?}", ins.op_kind(i))));
        }
        let _ = write!(o, "\"op_kinds_inst\":[{}],", ok.join(","));
        let mut regs = Vec::new();
        for r in info.used_registers() {
            regs.push(format!(
                "[{},{}]",
                esc(&format!("{:?}", r.register())),
                esc(&format!("{:?}", r.access()))
            ));
        }
        let _ = write!(o, "\"used_regs\":[{}],", regs.join(","));
        let mut mems = Vec::new();
        for m in info.used_memory() {
            mems.push(format!(
                "{{\"seg\":{},\"base\":{},\"index\":{},\"scale\":{},\"disp\":{},\"size\":{},\"access\":{}}}",
                esc(&format!("{:?}", m.segment())),
                esc(&format!("{:?}", m.base())),
                esc(&format!("{:?}", m.index())),
                m.scale(),
                m.displacement(),
                esc(&format!("{:?}", m.memory_size())),
                esc(&format!("{:?}", m.access()))
            ));
        }
        let _ = write!(o, "\"used_mem\":[{}]}}", mems.join(","));
        o
    });
    res.ok()
}

fn main() {
    panic::set_hook(Box::new(|_| {}));
    let mut out = String::new();
    out.push_str("{\"iced_version\":\"1.21.0\",");
    // rflags bit names
    out.push_str("\"rflags_bits\":{\"OF\":1,\"SF\":2,\"ZF\":4,\"AF\":8,\"CF\":16,\"PF\":32,\"DF\":64,\"IF\":128,\"AC\":256,\"UIF\":512,\"C0\":1024,\"C1\":2048,\"C2\":4096,\"C3\":8192},");
    // sanity of the hard-coded names against the crate constants
    assert_eq!(RflagsBits::OF, 1);
    assert_eq!(RflagsBits::SF, 2);
    assert_eq!(RflagsBits::ZF, 4);
    assert_eq!(RflagsBits::AF, 8);
    assert_eq!(RflagsBits::CF, 16);
    assert_eq!(RflagsBits::PF, 32);
    assert_eq!(RflagsBits::DF, 64);

    // registers
    out.push_str("\"registers\":{");
    let mut first = true;
    for r in Register::values() {
        if !first {
            out.push(',');
        }
        first = false;
        let _ = write!(
            out,
            "{}:{{\"n\":{},\"size\":{},\"full\":{},\"full32\":{},\"base\":{},\"number\":{},\"gpr8\":{},\"gpr16\":{},\"gpr32\":{},\"gpr64\":{},\"gpr\":{},\"xmm\":{},\"ip\":{},\"seg\":{},\"mm\":{},\"cr\":{},\"dr\":{},\"st\":{},\"vec\":{}}}",
            esc(&format!("{:?}", r)),
            r as usize,
            r.size(),
            esc(&format!("{:?}", r.full_register())),
            esc(&format!("{:?}", r.full_register32())),
            esc(&format!("{:?}", r.base())),
            r.number(),
            r.is_gpr8(),
            r.is_gpr16(),
            r.is_gpr32(),
            r.is_gpr64(),
            r.is_gpr(),
            r.is_xmm(),
            r.is_ip(),
            r.is_segment_register(),
            r.is_mm(),
            r.is_cr(),
            r.is_dr(),
            r.is_st(),
            r.is_vector_register(),
        );
    }
    out.push_str("},");

    // mnemonics
    out.push_str("\"mnemonics\":{");
    first = true;
    for m in Mnemonic::values() {
        if !first {
            out.push(',');
        }
        first = false;
        let _ = write!(out, "{}:{}", esc(&format!("{:?}", m)), m as usize);
    }
    out.push_str("},");

    // op kinds (instruction-level)
    out.push_str("\"opkinds\":{");
    first = true;
    for k in OpKind::values() {
        if !first {
            out.push(',');
        }
        first = false;
        let _ = write!(out, "{}:{}", esc(&format!("{:?}", k)), k as usize);
    }
    out.push_str("},");

    // codes
    out.push_str("\"codes\":{");
    first = true;
    for code in Code::values() {
        let oc = code.op_code();
        let n = oc.op_count() as usize;
        let kinds: Vec<OpCodeOperandKind> = (0..n).map(|i| oc.op_kind(i as u32)).collect();
        if !first {
            out.push(',');
        }
        first = false;
        let _ = write!(
            out,
            "{}:{{\"n\":{},\"mnemonic\":{},\"mode64\":{},\"mode32\":{},\"mode16\":{},\"cc\":{},\"flow\":{},\"opsize\":{},\"addrsize\":{},\"encoding\":{},\"instr\":{},\"opcode_str\":{},\"is_instruction\":{},\"mem_size\":{},\"mem_size_bytes\":{},\"kinds\":[{}],",
            esc(&format!("{:?}", code)),
            code as usize,
            esc(&format!("{:?}", code.mnemonic())),
            oc.mode64(),
            oc.mode32(),
            oc.mode16(),
            esc(&format!("{:?}", code.condition_code())),
            esc(&format!("{:?}", code.flow_control())),
            oc.operand_size(),
            oc.address_size(),
            esc(&format!("{:?}", oc.encoding())),
            esc(oc.instruction_string()),
            esc(oc.op_code_string()),
            oc.is_instruction(),
            esc(&format!("{:?}", oc.memory_size())),
            oc.memory_size().size(),
            kinds.iter().map(|k| esc(&format!("{:?}", k))).collect::<Vec<_>>().join(",")
        );
        // instances: reg form, mem form, and immediate-count variants
        let has_rm = kinds.iter().any(|k| {
            matches!(
                k,
                OpCodeOperandKind::r8_or_mem
                    | OpCodeOperandKind::r16_or_mem
                    | OpCodeOperandKind::r32_or_mem
                    | OpCodeOperandKind::r64_or_mem
                    | OpCodeOperandKind::xmm_or_mem
                    | OpCodeOperandKind::mm_or_mem
            )
        });
        let has_imm8 = kinds.iter().any(|k| matches!(k, OpCodeOperandKind::imm8));
        let mut variants: Vec<(String, bool, i64)> = vec![("reg".into(), false, 2)];
        if has_rm {
            variants.push(("mem".into(), true, 2));
        }
        if has_imm8 {
            variants.push(("imm0".into(), false, 0));
            variants.push(("imm1".into(), false, 1));
            variants.push(("imm32".into(), false, 32));
        }
        out.push_str("\"inst\":{");
        let mut f2 = true;
        for (label, mem_form, imm) in variants {
            let ops: Vec<Op> =
                kinds.iter().enumerate().map(|(i, k)| pick(*k, i, mem_form, imm)).collect();
            let j = if ops.iter().any(|o| matches!(o, Op::Unsupported)) {
                None
            } else {
                mk(code, &kinds, &ops).and_then(|ins| instance_json(&ins))
            };
            if !f2 {
                out.push(',');
            }
            f2 = false;
            let _ = write!(out, "{}:{}", esc(&label), j.unwrap_or_else(|| "null".to_string()));
        }
        out.push_str("}}");
    }
    out.push_str("}}");
    println!("{}", out);
}
