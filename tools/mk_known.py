#!/usr/bin/env python3
"""Authoring helper (never run by a check): writes known_findings.json from
  /tmp/pinned_findings.json   keys reported by the current checker on the pinned tree 48af701
  /tmp/current_findings.json  keys reported on /repo HEAD
A key still reported on HEAD is `known`; a key only reported on the pinned tree is `fixed` and is attributed
to the fix commit by the table below (first matching pattern)."""
import json, os, re, subprocess
HERE = os.path.dirname(os.path.dirname(os.path.abspath(__file__)))
pinned = json.load(open("/tmp/pinned_findings.json"))
cur = json.load(open("/tmp/current_findings.json"))
log = subprocess.run(["git", "-C", "/repo", "log", "--format=%h %s", "48af701..HEAD"], capture_output=True, text=True).stdout.strip().split("\n")
commits = {l.split(" ", 1)[1]: l.split(" ", 1)[0] for l in log}
def sha(prefix):
    m = [h for s, h in commits.items() if s.startswith(prefix)]
    assert len(m) == 1, (prefix, m)
    return m[0]
FIX = [  # (key regex, commit subject prefix)
    (r"C01\.cond\|Code=Cmovae", "fix: CMOVAE"),
    (r"C01\.cond\.write\|Code=Setb", "fix: SETB"),
    (r"C01\.cond\.write\|Code=Cmov", "fix: CMOVcc r32"),
    (r"C02\.class\|Code=Adc", "fix: ADC"),
    (r"C12\.pairing", "fix: clear hooks.running"),
    (r"C13\.query", "fix: brk(0)"),
    (r"C13\.reach|C10\.overlap\|api=mem_resize_section", "fix: mem_resize_section"),
    (r"C10\.overlap\|api=mem_init_area_named", "fix: mem_init_area_named"),
    (r"C10\.term|C19\.loops", "fix: 'anywhere' allocators"),
    (r"C08\.total|C19\.panic\|C08\.total", "fix: memory accessors treat"),
    (r"C18\.total|C19\.panic\|C18\.total", "fix: trace rendering"),
    (r"C07\.tables\|impl=From<SupportedRegister>", "fix: SupportedRegister::EIP"),
    (r"C06\.align", "fix: XORPS"),
    (r"C05\.lea", "fix: LEA"),
    (r"(C01\.operands|C06\.spurious|C19\.panic)\|Code=Mov_.*moffs|(C01\.operands|C19\.panic)\|Code=Mov_moffs", "fix: MOV moffs"),
    (r"(C01\.operands|C19\.panic)\|Code=Movzx", "fix: MOVZX"),
    (r"C01\.count|C02\.count|\|O abort \(assert\) for shift counts", "fix: SHR (and SHL"),
    (r"X abort \(assert_ne\) for shift counts 1", "fix: shift by 1"),
    (r"C06\.quotient\|Code=Div", "fix: DIV raises"),
    (r"C06\.quotient\|Code=Idiv|C01\.extend\|Code=Idiv_rm(8|16|32)", "fix: IDIV"),
    (r"overflow on reg64\(RSP\)|overflow on reg64\(RIP\) Sub ilen|trace recorder\|Sub overflow", "fix: stack pointer and trace"),
    (r"hook=register_(brk|pipe)", "fix: brk below"),
    (r"C16\.arith|C16\.abort", "fix: ELF loader returns"),
    (r"C16\.alloc", "fix: ELF loader refuses"),
    (r"C05\.(total|formula)|C19\.panic\|C05\.total", "fix: memory operands with an address-size"),
]
KNOWN_WHY = {
    "C04": "not repaired: the existing tests pin the shifted slot (push_rbx asserts the value at the old RSP)",
    "C17": "not repaired: the entry frame follows the emulator's own (shifted) POP convention pinned by the tests; moving the frame changes the addresses the ELF tests observe",
    "C01": "not repaired: the existing test idiv_rax_rdx_1273656987127188586 pins the zero-extended 64-bit divisor",
}
findings = []
for pid in sorted(cur):
    for k in cur[pid]["new"]:
        findings.append({"property": pid, "key": k, "status": "known", "what": KNOWN_WHY.get(pid, "")})
fixed = {}
unattributed = []
for pid in sorted(pinned):
    for k in pinned[pid]["new"]:
        if k in cur[pid]["new"]:
            continue
        c = None
        for pat, subj in FIX:
            if re.search(pat, k):
                c = sha(subj)
                break
        if c is None:
            unattributed.append((pid, k))
            continue
        fixed.setdefault((pid, c), []).append(k)
for (pid, c), keys in sorted(fixed.items()):
    subj = [s for s, h in commits.items() if h == c][0]
    findings.append({"property": pid, "status": "fixed", "commit": c, "keys": sorted(keys),
                     "record": "fixed: property=%s %s %s (%d rule instance%s, e.g. %s)" % (
                         pid, c, subj[5:], len(keys), "s" if len(keys) != 1 else "", sorted(keys)[0])})
json.dump({"_comment": "Committed, never written at run time. status=known entries suppress exactly one violation key each "
                       "(printed as KNOWN-FINDING); status=fixed entries suppress nothing.",
           "pinned_commit": "48af701", "findings": findings}, open(os.path.join(HERE, "known_findings.json"), "w"), indent=1)
print("known:", sum(1 for f in findings if f["status"] == "known"), "fixed records:", sum(1 for f in findings if f["status"] == "fixed"))
for u in unattributed:
    print("UNATTRIBUTED", u)
