// axfacts: a rustc_private driver that dumps the borrowck-phase MIR
// (tcx.mir_promoted) of every fn / assoc fn / closure of the crates named in
// AXFACTS_CRATES as one JSON file per rustc process into AXFACTS_OUT.
//
// Used as RUSTC_WORKSPACE_WRAPPER: argv[1] is the real rustc path and is
// dropped. Compilation continues normally after the dump.
#![feature(rustc_private)]
#![allow(clippy::all)]

extern crate rustc_abi;
extern crate rustc_driver;
extern crate rustc_hir;
extern crate rustc_interface;
extern crate rustc_middle;
extern crate rustc_span;

use rustc_driver::{Callbacks, Compilation};
use rustc_hir::def::DefKind;
use rustc_hir::def_id::{DefId, LOCAL_CRATE};
use rustc_interface::interface::Compiler;
use rustc_middle::mir::*;
use rustc_middle::ty::print::PrintTraitRefExt;
use rustc_middle::ty::{self, Ty, TyCtxt};
use rustc_span::{ExpnKind, Span};
use std::collections::{BTreeMap, HashMap};
use std::fmt::Write as _;

// ---------------------------------------------------------------- tiny JSON
#[derive(Clone)]
enum J {
    Null,
    Bool(bool),
    U(u128),
    I(i128),
    S(String),
    A(Vec<J>),
    O(Vec<(String, J)>),
}

fn s<T: Into<String>>(x: T) -> J {
    J::S(x.into())
}
fn arr(v: Vec<J>) -> J {
    J::A(v)
}
macro_rules! obj {
    ($($k:expr => $v:expr),* $(,)?) => { J::O(vec![$(($k.to_string(), $v)),*]) };
}

fn esc(out: &mut String, st: &str) {
    out.push('"');
    for c in st.chars() {
        match c {
            '"' => out.push_str("\\\""),
            '\\' => out.push_str("\\\\"),
            '\n' => out.push_str("\\n"),
            '\r' => out.push_str("\\r"),
            '\t' => out.push_str("\\t"),
            c if (c as u32) < 0x20 => {
                let _ = write!(out, "\\u{:04x}", c as u32);
            }
            c => out.push(c),
        }
    }
    out.push('"');
}

fn ser(out: &mut String, j: &J) {
    match j {
        J::Null => out.push_str("null"),
        J::Bool(b) => out.push_str(if *b { "true" } else { "false" }),
        J::U(u) => {
            let _ = write!(out, "{}", u);
        }
        J::I(i) => {
            let _ = write!(out, "{}", i);
        }
        J::S(st) => esc(out, st),
        J::A(v) => {
            out.push('[');
            for (i, x) in v.iter().enumerate() {
                if i > 0 {
                    out.push(',');
                }
                ser(out, x);
            }
            out.push(']');
        }
        J::O(v) => {
            out.push('{');
            for (i, (k, x)) in v.iter().enumerate() {
                if i > 0 {
                    out.push(',');
                }
                esc(out, k);
                out.push(':');
                ser(out, x);
            }
            out.push('}');
        }
    }
}

// ---------------------------------------------------------------- dumper
struct Dumper<'tcx> {
    tcx: TyCtxt<'tcx>,
    ext_enums: BTreeMap<String, J>,
}

struct SpanTab {
    idx: HashMap<(String, u32, u32, Vec<String>), usize>,
    tab: Vec<J>,
}

impl SpanTab {
    fn new() -> Self {
        SpanTab { idx: HashMap::new(), tab: Vec::new() }
    }
}

impl<'tcx> Dumper<'tcx> {
    fn path(&self, did: DefId) -> String {
        self.tcx.def_path_str(did)
    }

    fn span_info(&self, sp: Span) -> (String, u32, u32, Vec<String>) {
        let sm = self.tcx.sess.source_map();
        // innermost user-visible location: walk to the outermost call site for
        // the file/line (so a site inside fatal_error! is reported at the use),
        // keep the macro back-trace separately.
        let mut macros = Vec::new();
        for e in sp.macro_backtrace() {
            match e.kind {
                ExpnKind::Macro(_, name) => macros.push(name.to_string()),
                ExpnKind::Desugaring(d) => macros.push(format!("desugar:{:?}", d)),
                ExpnKind::AstPass(p) => macros.push(format!("astpass:{:?}", p)),
                ExpnKind::Root => {}
            }
        }
        let mut outer = sp;
        // source_callsite gives the outermost expansion call site
        outer = outer.source_callsite();
        let lo = sm.lookup_char_pos(outer.lo());
        let file = format!("{}", lo.file.name.prefer_local_unconditionally());
        (file, lo.line as u32, lo.col.0 as u32 + 1, macros)
    }

    fn span_idx(&self, st: &mut SpanTab, sp: Span) -> J {
        let k = self.span_info(sp);
        if let Some(i) = st.idx.get(&k) {
            return J::U(*i as u128);
        }
        let i = st.tab.len();
        st.tab.push(arr(vec![
            s(k.0.clone()),
            J::U(k.1 as u128),
            J::U(k.2 as u128),
            arr(k.3.iter().map(|m| s(m.clone())).collect()),
        ]));
        st.idx.insert(k, i);
        J::U(i as u128)
    }

    fn note_enum(&mut self, def: ty::AdtDef<'tcx>) {
        if !def.is_enum() {
            return;
        }
        let p = self.path(def.did());
        if self.ext_enums.contains_key(&p) {
            return;
        }
        // only fieldless-ish enums need discriminant tables, but dump all
        let mut vs = Vec::new();
        for (vi, v) in def.variants().iter_enumerated() {
            let d = def.discriminant_for_variant(self.tcx, vi).val;
            vs.push(arr(vec![s(v.name.to_string()), J::U(d), J::U(v.fields.len() as u128)]));
        }
        self.ext_enums.insert(p, arr(vs));
    }

    fn ty_json(&mut self, t: Ty<'tcx>, depth: u32) -> J {
        if depth > 4 {
            return arr(vec![s("other"), s(t.to_string())]);
        }
        match t.kind() {
            ty::Bool => s("bool"),
            ty::Char => s("char"),
            ty::Str => s("str"),
            ty::Never => s("never"),
            ty::Int(i) => arr(vec![s("i"), J::U(i.bit_width().unwrap_or(64) as u128)]),
            ty::Uint(u) => arr(vec![s("u"), J::U(u.bit_width().unwrap_or(64) as u128)]),
            ty::Float(f) => arr(vec![s("float"), J::U(f.bit_width() as u128)]),
            ty::Adt(def, args) => {
                self.note_enum(*def);
                let mut a = Vec::new();
                for ga in args.iter() {
                    if let Some(tt) = ga.as_type() {
                        a.push(self.ty_json(tt, depth + 1));
                    }
                }
                arr(vec![s("adt"), s(self.path(def.did())), arr(a)])
            }
            ty::Ref(_, inner, m) => {
                arr(vec![s("ref"), J::Bool(m.is_mut()), self.ty_json(*inner, depth + 1)])
            }
            ty::RawPtr(inner, m) => {
                arr(vec![s("ptr"), J::Bool(m.is_mut()), self.ty_json(*inner, depth + 1)])
            }
            ty::Tuple(ts) => {
                let v: Vec<J> = ts.iter().map(|x| self.ty_json(x, depth + 1)).collect();
                arr(vec![s("tuple"), arr(v)])
            }
            ty::Array(e, n) => {
                let len = n.try_to_target_usize(self.tcx);
                arr(vec![
                    s("array"),
                    self.ty_json(*e, depth + 1),
                    match len {
                        Some(l) => J::U(l as u128),
                        None => J::Null,
                    },
                ])
            }
            ty::Slice(e) => arr(vec![s("slice"), self.ty_json(*e, depth + 1)]),
            ty::Closure(did, _) => arr(vec![s("closure"), s(self.path(*did))]),
            ty::Coroutine(did, _) => arr(vec![s("coroutine"), s(self.path(*did))]),
            ty::CoroutineClosure(did, _) => arr(vec![s("coroutine_closure"), s(self.path(*did))]),
            ty::FnDef(did, _) => arr(vec![s("fndef"), s(self.path(*did))]),
            ty::FnPtr(..) => arr(vec![s("fnptr"), s(t.to_string())]),
            ty::Dynamic(..) => arr(vec![s("dyn"), s(t.to_string())]),
            ty::Param(p) => arr(vec![s("param"), s(p.name.to_string())]),
            _ => arr(vec![s("other"), s(t.to_string())]),
        }
    }

    fn place_json(&mut self, body: &Body<'tcx>, p: &Place<'tcx>) -> J {
        let tcx = self.tcx;
        let mut pty = PlaceTy::from_ty(body.local_decls[p.local].ty);
        let mut projs = Vec::new();
        for elem in p.projection.iter() {
            let pj = match elem {
                ProjectionElem::Deref => s("*"),
                ProjectionElem::Field(f, _) => {
                    let (name, owner) = match pty.ty.kind() {
                        ty::Adt(def, _) => {
                            let v = match pty.variant_index {
                                Some(vi) => def.variant(vi),
                                None => {
                                    if def.is_enum() {
                                        // should not happen without downcast
                                        def.variant(rustc_abi::VariantIdx::from_u32(0))
                                    } else {
                                        def.non_enum_variant()
                                    }
                                }
                            };
                            let nm = v
                                .fields
                                .get(f)
                                .map(|fd| fd.name.to_string())
                                .unwrap_or_else(|| "?".to_string());
                            (J::S(nm), J::S(self.path(def.did())))
                        }
                        ty::Closure(did, _) | ty::Coroutine(did, _) => {
                            (J::Null, J::S(format!("closure:{}", self.path(*did))))
                        }
                        ty::Tuple(_) => (J::Null, J::S("tuple".into())),
                        _ => (J::Null, J::Null),
                    };
                    arr(vec![s("f"), J::U(f.as_u32() as u128), name, owner])
                }
                ProjectionElem::Downcast(sym, vi) => arr(vec![
                    s("d"),
                    J::U(vi.as_u32() as u128),
                    match sym {
                        Some(x) => s(x.to_string()),
                        None => J::Null,
                    },
                ]),
                ProjectionElem::Index(l) => arr(vec![s("i"), J::U(l.as_u32() as u128)]),
                ProjectionElem::ConstantIndex { offset, min_length, from_end } => arr(vec![
                    s("ci"),
                    J::U(offset as u128),
                    J::U(min_length as u128),
                    J::Bool(from_end),
                ]),
                ProjectionElem::Subslice { from, to, from_end } => {
                    arr(vec![s("ss"), J::U(from as u128), J::U(to as u128), J::Bool(from_end)])
                }
                other => arr(vec![s("o"), s(format!("{:?}", other))]),
            };
            projs.push(pj);
            pty = pty.projection_ty(tcx, elem);
        }
        arr(vec![J::U(p.local.as_u32() as u128), arr(projs)])
    }

    fn const_json(&mut self, owner: DefId, c: &ConstOperand<'tcx>) -> J {
        let tcx = self.tcx;
        let cty = c.const_.ty();
        let mut fields: Vec<(String, J)> = Vec::new();
        fields.push(("ty".into(), self.ty_json(cty, 0)));
        if let ty::FnDef(did, args) = cty.kind() {
            fields.push(("fn".into(), s(self.path(*did))));
            let (res, cl) = self.resolve(owner, *did, args);
            if let Some(r) = res {
                fields.push(("resolved".into(), s(r)));
            }
            if !cl.is_empty() {
                fields.push(("closures".into(), arr(cl.into_iter().map(s).collect())));
            }
            return J::O(fields);
        }
        let mut name: Option<String> = None;
        let mut can_eval = true;
        if let Const::Unevaluated(u, _) = c.const_ {
            if u.promoted.is_some() {
                can_eval = false;
                fields.push(("promoted".into(), J::U(u.promoted.unwrap().as_u32() as u128)));
            } else {
                name = Some(self.path(u.def));
            }
        }
        if let Some(n) = name {
            fields.push(("name".into(), s(n)));
        }
        if can_eval {
            let is_scalar_ty = matches!(
                cty.kind(),
                ty::Bool | ty::Char | ty::Int(_) | ty::Uint(_) | ty::Adt(..)
            );
            if is_scalar_ty {
                let env = ty::TypingEnv::post_analysis(tcx, owner);
                if let Some(si) = c.const_.try_eval_scalar_int(tcx, env) {
                    fields.push(("v".into(), J::U(si.to_bits_unchecked())));
                    fields.push(("bits".into(), J::U(si.size().bits() as u128)));
                }
            }
        }
        let mut d = format!("{}", c.const_);
        if d.len() > 160 {
            d.truncate(160);
        }
        fields.push(("d".into(), s(d)));
        J::O(fields)
    }

    fn operand_json(&mut self, owner: DefId, body: &Body<'tcx>, op: &Operand<'tcx>) -> J {
        match op {
            Operand::Copy(p) => arr(vec![s("c"), self.place_json(body, p)]),
            Operand::Move(p) => arr(vec![s("m"), self.place_json(body, p)]),
            Operand::Constant(c) => arr(vec![s("k"), self.const_json(owner, c)]),
            #[allow(unreachable_patterns)]
            other => arr(vec![s("o"), s(format!("{:?}", other))]),
        }
    }

    fn resolve(
        &mut self,
        owner: DefId,
        did: DefId,
        args: ty::GenericArgsRef<'tcx>,
    ) -> (Option<String>, Vec<String>) {
        let tcx = self.tcx;
        let mut closures = Vec::new();
        for ga in args.iter() {
            if let Some(t) = ga.as_type() {
                collect_closures(tcx, t, &mut closures, 0);
            }
        }
        let env = ty::TypingEnv::post_analysis(tcx, owner);
        let res = match ty::Instance::try_resolve(tcx, env, did, args) {
            Ok(Some(inst)) => Some(self.path(inst.def_id())),
            _ => None,
        };
        (res, closures)
    }

    fn rvalue_json(&mut self, owner: DefId, body: &Body<'tcx>, rv: &Rvalue<'tcx>) -> J {
        match rv {
            Rvalue::Use(op, ..) => arr(vec![s("use"), self.operand_json(owner, body, op)]),
            Rvalue::CopyForDeref(p) => {
                arr(vec![s("use"), arr(vec![s("c"), self.place_json(body, p)])])
            }
            Rvalue::Ref(_, bk, p) => {
                let k = match bk {
                    BorrowKind::Shared => "shared",
                    BorrowKind::Mut { .. } => "mut",
                    BorrowKind::Fake(_) => "fake",
                };
                arr(vec![s("ref"), s(k), self.place_json(body, p)])
            }
            Rvalue::RawPtr(_, p) => arr(vec![s("rawptr"), self.place_json(body, p)]),
            Rvalue::BinaryOp(op, ab) => {
                let (a, b) = &**ab;
                arr(vec![
                    s("bin"),
                    s(format!("{:?}", op)),
                    self.operand_json(owner, body, a),
                    self.operand_json(owner, body, b),
                ])
            }
            Rvalue::UnaryOp(op, a) => {
                arr(vec![s("un"), s(format!("{:?}", op)), self.operand_json(owner, body, a)])
            }
            Rvalue::Cast(kind, op, t) => {
                let mut k = format!("{:?}", kind);
                if let Some(i) = k.find('(') {
                    k.truncate(i);
                }
                arr(vec![
                    s("cast"),
                    s(k),
                    self.operand_json(owner, body, op),
                    self.ty_json(*t, 0),
                ])
            }
            Rvalue::Aggregate(kind, fields) => {
                let kd = match &**kind {
                    AggregateKind::Tuple => arr(vec![s("tuple")]),
                    AggregateKind::Array(_) => arr(vec![s("array")]),
                    AggregateKind::Adt(did, vi, _, _, active) => {
                        let def = self.tcx.adt_def(*did);
                        self.note_enum(def);
                        let v = def.variant(*vi);
                        let fnames: Vec<J> =
                            v.fields.iter().map(|f| s(f.name.to_string())).collect();
                        arr(vec![
                            s("adt"),
                            s(self.path(*did)),
                            J::U(vi.as_u32() as u128),
                            s(v.name.to_string()),
                            arr(fnames),
                            match active {
                                Some(f) => J::U(f.as_u32() as u128),
                                None => J::Null,
                            },
                        ])
                    }
                    AggregateKind::Closure(did, _) => arr(vec![s("closure"), s(self.path(*did))]),
                    AggregateKind::Coroutine(did, _) => {
                        arr(vec![s("coroutine"), s(self.path(*did))])
                    }
                    AggregateKind::CoroutineClosure(did, _) => {
                        arr(vec![s("coroutine_closure"), s(self.path(*did))])
                    }
                    AggregateKind::RawPtr(..) => arr(vec![s("rawptr")]),
                };
                let ops: Vec<J> =
                    fields.iter().map(|f| self.operand_json(owner, body, f)).collect();
                arr(vec![s("agg"), kd, arr(ops)])
            }
            Rvalue::Discriminant(p) => arr(vec![s("discr"), self.place_json(body, p)]),
            Rvalue::Repeat(op, n) => arr(vec![
                s("repeat"),
                self.operand_json(owner, body, op),
                match n.try_to_target_usize(self.tcx) {
                    Some(l) => J::U(l as u128),
                    None => J::Null,
                },
            ]),
            other => arr(vec![s("other"), s(format!("{:?}", other))]),
        }
    }

    fn body_json(&mut self, owner: DefId, body: &Body<'tcx>, st: &mut SpanTab) -> J {
        let tcx = self.tcx;
        let mut locals = Vec::new();
        for ld in body.local_decls.iter() {
            locals.push(self.ty_json(ld.ty, 0));
        }
        let mut vars = Vec::new();
        for vdi in body.var_debug_info.iter() {
            if let VarDebugInfoContents::Place(p) = &vdi.value {
                vars.push(arr(vec![s(vdi.name.to_string()), self.place_json(body, p)]));
            }
        }
        let mut blocks = Vec::new();
        for (_bb, data) in body.basic_blocks.iter_enumerated() {
            let mut stmts = Vec::new();
            for stmt in data.statements.iter() {
                match &stmt.kind {
                    StatementKind::Assign(b) => {
                        let (p, rv) = &**b;
                        stmts.push(arr(vec![
                            s("a"),
                            self.place_json(body, p),
                            self.rvalue_json(owner, body, rv),
                            self.span_idx(st, stmt.source_info.span),
                        ]));
                    }
                    StatementKind::SetDiscriminant { place, variant_index } => {
                        stmts.push(arr(vec![
                            s("sd"),
                            self.place_json(body, place),
                            J::U(variant_index.as_u32() as u128),
                        ]));
                    }
                    StatementKind::StorageLive(_)
                    | StatementKind::StorageDead(_)
                    | StatementKind::FakeRead(..)
                    | StatementKind::PlaceMention(..)
                    | StatementKind::AscribeUserType(..)
                    | StatementKind::Nop
                    | StatementKind::ConstEvalCounter
                    | StatementKind::Coverage(..) => {}
                    other => {
                        stmts.push(arr(vec![s("other"), s(format!("{:?}", other))]));
                    }
                }
            }
            let term = data.terminator();
            let sp = self.span_idx(st, term.source_info.span);
            let bbj = |b: BasicBlock| J::U(b.as_u32() as u128);
            let unw = |u: &UnwindAction| match u {
                UnwindAction::Cleanup(b) => J::U(b.as_u32() as u128),
                _ => J::Null,
            };
            let tj = match &term.kind {
                TerminatorKind::Goto { target } => obj! {"k"=>s("goto"),"t"=>bbj(*target)},
                TerminatorKind::SwitchInt { discr, targets } => {
                    let mut vals = Vec::new();
                    let mut tgts = Vec::new();
                    for (v, t) in targets.iter() {
                        vals.push(J::U(v));
                        tgts.push(bbj(t));
                    }
                    tgts.push(bbj(targets.otherwise()));
                    obj! {"k"=>s("switch"),"discr"=>self.operand_json(owner, body, discr),
                    "vals"=>arr(vals),"tgts"=>arr(tgts)}
                }
                TerminatorKind::UnwindResume => obj! {"k"=>s("resume")},
                TerminatorKind::UnwindTerminate(_) => obj! {"k"=>s("terminate")},
                TerminatorKind::Return => obj! {"k"=>s("return")},
                TerminatorKind::Unreachable => obj! {"k"=>s("unreachable")},
                TerminatorKind::Drop { place, target, unwind, .. } => {
                    obj! {"k"=>s("drop"),"place"=>self.place_json(body, place),
                    "t"=>bbj(*target),"unwind"=>unw(unwind)}
                }
                TerminatorKind::Call { func, args, destination, target, unwind, .. } => {
                    let fty = func.ty(&body.local_decls, tcx);
                    let mut f: Vec<(String, J)> = Vec::new();
                    match fty.kind() {
                        ty::FnDef(did, gargs) => {
                            f.push(("def".into(), s(self.path(*did))));
                            f.push(("name".into(), s(tcx.opt_item_name(*did).map(|x| x.to_string()).unwrap_or_default())));
                            f.push(("local".into(), J::Bool(did.is_local())));
                            f.push(("krate".into(), s(tcx.crate_name(did.krate).to_string())));
                            let ga: Vec<J> = gargs.iter().map(|g| s(g.to_string())).collect();
                            f.push(("gargs".into(), arr(ga)));
                            let (res, cl) = self.resolve(owner, *did, gargs);
                            match res {
                                Some(r) => f.push(("resolved".into(), s(r))),
                                None => f.push(("resolved".into(), J::Null)),
                            }
                            f.push(("closures".into(), arr(cl.into_iter().map(s).collect())));
                            // self type of the resolved impl, when it is a trait impl
                        }
                        _ => {
                            f.push(("indirect".into(), self.operand_json(owner, body, func)));
                            f.push(("fty".into(), s(fty.to_string())));
                        }
                    }
                    let a: Vec<J> =
                        args.iter().map(|x| self.operand_json(owner, body, &x.node)).collect();
                    obj! {"k"=>s("call"),"f"=>J::O(f),"args"=>arr(a),
                    "dest"=>self.place_json(body, destination),
                    "t"=>match target { Some(t)=>bbj(*t), None=>J::Null },
                    "unwind"=>unw(unwind)}
                }
                TerminatorKind::Assert { cond, expected, msg, target, unwind } => {
                    let m = match &**msg {
                        AssertKind::Overflow(op, a, b) => obj! {"kind"=>s("Overflow"),
                        "op"=>s(format!("{:?}", op)),
                        "a"=>self.operand_json(owner, body, a),
                        "b"=>self.operand_json(owner, body, b)},
                        AssertKind::OverflowNeg(a) => obj! {"kind"=>s("OverflowNeg"),
                        "a"=>self.operand_json(owner, body, a)},
                        AssertKind::DivisionByZero(a) => obj! {"kind"=>s("DivisionByZero"),
                        "a"=>self.operand_json(owner, body, a)},
                        AssertKind::RemainderByZero(a) => obj! {"kind"=>s("RemainderByZero"),
                        "a"=>self.operand_json(owner, body, a)},
                        AssertKind::BoundsCheck { len, index } => obj! {"kind"=>s("BoundsCheck"),
                        "len"=>self.operand_json(owner, body, len),
                        "index"=>self.operand_json(owner, body, index)},
                        other => {
                            let mut k = format!("{:?}", other);
                            if let Some(i) = k.find('(') {
                                k.truncate(i);
                            }
                            obj! {"kind"=>s(k)}
                        }
                    };
                    obj! {"k"=>s("assert"),"cond"=>self.operand_json(owner, body, cond),
                    "expected"=>J::Bool(*expected),"msg"=>m,"t"=>bbj(*target),"unwind"=>unw(unwind)}
                }
                TerminatorKind::Yield { value, resume, drop, .. } => {
                    obj! {"k"=>s("yield"),"value"=>self.operand_json(owner, body, value),
                    "t"=>bbj(*resume),
                    "drop"=>match drop { Some(d)=>bbj(*d), None=>J::Null }}
                }
                TerminatorKind::CoroutineDrop => obj! {"k"=>s("coroutine_drop")},
                TerminatorKind::FalseEdge { real_target, imaginary_target } => {
                    obj! {"k"=>s("falseedge"),"t"=>bbj(*real_target),"imag"=>bbj(*imaginary_target)}
                }
                TerminatorKind::FalseUnwind { real_target, .. } => {
                    obj! {"k"=>s("falseunwind"),"t"=>bbj(*real_target)}
                }
                other => obj! {"k"=>s("other"),"d"=>s(format!("{:?}", other))},
            };
            let mut tj = tj;
            if let J::O(ref mut v) = tj {
                v.push(("sp".into(), sp));
            }
            blocks.push(obj! {"s"=>arr(stmts),"term"=>tj,"cleanup"=>J::Bool(data.is_cleanup)});
        }
        obj! {
            "argc"=>J::U(body.arg_count as u128),
            "locals"=>arr(locals),
            "vars"=>arr(vars),
            "blocks"=>arr(blocks),
            "phase"=>s(format!("{:?}", body.phase)),
            "coroutine"=>J::Bool(body.coroutine.is_some()),
        }
    }

    fn dump(&mut self) -> J {
        let tcx = self.tcx;
        let mut bodies: Vec<(String, J)> = Vec::new();
        let mut keys: Vec<_> = tcx.mir_keys(()).iter().copied().collect();
        // constants and statics first: building a function's MIR may const-evaluate a constant it mentions
        // (e.g. when promoting `!LOCAL_CONST`), which steals that constant's promoted MIR
        keys.sort_by_key(|k| {
            !matches!(
                tcx.def_kind(k.to_def_id()),
                DefKind::Const { .. } | DefKind::AssocConst { .. } | DefKind::Static { .. }
            )
        });
        let mut stolen: Vec<J> = Vec::new();
        for ldid in keys {
            let did = ldid.to_def_id();
            let kind = tcx.def_kind(did);
            if !matches!(
                kind,
                DefKind::Fn | DefKind::AssocFn | DefKind::Closure | DefKind::Const { .. } | DefKind::AssocConst { .. } | DefKind::Static { .. }
            ) {
                continue;
            }
            let path = self.path(did);
            let name = tcx.opt_item_name(did).map(|x| x.to_string()).unwrap_or_default();
            let mut st = SpanTab::new();
            let (bsteal, psteal) = tcx.mir_promoted(ldid);
            if bsteal.is_stolen() || psteal.is_stolen() {
                // already consumed by const evaluation: only acceptable for constants (their value then stays opaque)
                stolen.push(obj! {"path"=>s(path.clone()),"kind"=>s(format!("{:?}", kind))});
                continue;
            }
            let body = bsteal.borrow();
            let promoted = psteal.borrow();
            let bj = self.body_json(did, &body, &mut st);
            let mut pj = Vec::new();
            for pb in promoted.iter() {
                pj.push(self.body_json(did, pb, &mut st));
            }
            let item_span = tcx.def_span(did);
            let isp = self.span_info(item_span);
            // glue: derive / attribute macro expansion of the item itself
            let mut attr_glue = false;
            for e in item_span.macro_backtrace() {
                if let ExpnKind::Macro(mk, _) = e.kind {
                    use rustc_span::MacroKind;
                    if matches!(mk, MacroKind::Derive | MacroKind::Attr) {
                        attr_glue = true;
                    }
                }
            }
            let glue = attr_glue || path.contains("__wasm_bindgen_generated");
            let vis = if matches!(kind, DefKind::Fn | DefKind::AssocFn) {
                let v = tcx.visibility(did);
                if v.is_public() { "pub".to_string() } else { format!("{:?}", v) }
            } else {
                "closure".to_string()
            };
            let parent = tcx.opt_parent(did);
            let mut impl_self = J::Null;
            let mut impl_trait = J::Null;
            if let Some(p) = parent {
                if let DefKind::Impl { of_trait } = tcx.def_kind(p) {
                    let sty = tcx.type_of(p).instantiate_identity().skip_norm_wip();
                    impl_self = s(sty.to_string());
                    if of_trait {
                        let tr = tcx.impl_trait_ref(p).instantiate_identity().skip_norm_wip();
                        impl_trait = s(tr.print_only_trait_path().to_string());
                    }
                }
            }
            let mut o = vec![
                ("name".to_string(), s(name)),
                (
                    "kind".to_string(),
                    s(match kind {
                        DefKind::Const { .. } | DefKind::AssocConst { .. } => "Const".to_string(),
                        DefKind::Static { .. } => "Static".to_string(),
                        k => format!("{:?}", k),
                    }),
                ),
                ("vis".to_string(), s(vis)),
                ("glue".to_string(), J::Bool(glue)),
                (
                    "parent".to_string(),
                    match parent {
                        Some(p) => s(self.path(p)),
                        None => J::Null,
                    },
                ),
                ("impl_self".to_string(), impl_self),
                ("impl_trait".to_string(), impl_trait),
                (
                    "span".to_string(),
                    arr(vec![s(isp.0), J::U(isp.1 as u128), J::U(isp.2 as u128)]),
                ),
                ("spans".to_string(), J::Null), // filled below
                ("promoted".to_string(), arr(pj)),
                ("generics".to_string(), {
                    // names of the generic parameters in substitution order (parents first): lets the analyses bind a
                    // `const N: usize` parameter to the argument of the call it is inlined at
                    let mut names: Vec<J> = Vec::new();
                    let mut stack = vec![did];
                    let mut cur = did;
                    while let Some(p) = tcx.generics_of(cur).parent {
                        stack.push(p);
                        cur = p;
                    }
                    for d in stack.iter().rev() {
                        for gp in tcx.generics_of(*d).own_params.iter() {
                            names.push(s(gp.name.to_string()));
                        }
                    }
                    arr(names)
                }),
            ];
            if let J::O(fields) = bj {
                o.extend(fields);
            }
            for kv in o.iter_mut() {
                if kv.0 == "spans" {
                    kv.1 = arr(std::mem::take(&mut st.tab));
                }
            }
            bodies.push((path, J::O(o)));
        }
        // ADTs of the local crate
        let mut adts: Vec<(String, J)> = Vec::new();
        let defs: Vec<_> = tcx.hir_crate_items(()).definitions().collect();
        for ldid in defs {
            let did = ldid.to_def_id();
            let kind = tcx.def_kind(did);
            if !matches!(kind, DefKind::Struct | DefKind::Enum | DefKind::Union) {
                continue;
            }
            let def = tcx.adt_def(did);
            let mut vs = Vec::new();
            for (vi, v) in def.variants().iter_enumerated() {
                let d = if def.is_enum() {
                    J::U(def.discriminant_for_variant(tcx, vi).val)
                } else {
                    J::Null
                };
                let mut fs = Vec::new();
                for f in v.fields.iter() {
                    let fty = tcx.type_of(f.did).instantiate_identity().skip_norm_wip();
                    let vis = if f.vis.is_public() { "pub".to_string() } else { format!("{:?}", f.vis) };
                    fs.push(obj! {"name"=>s(f.name.to_string()),"vis"=>s(vis),"ty"=>self.ty_json(fty, 0),
                    "tys"=>s(fty.to_string())});
                }
                vs.push(obj! {"name"=>s(v.name.to_string()),"discr"=>d,"fields"=>arr(fs)});
            }
            let v = tcx.visibility(did);
            let vis = if v.is_public() { "pub".to_string() } else { format!("{:?}", v) };
            adts.push((
                self.path(did),
                obj! {"kind"=>s(format!("{:?}", kind)),"vis"=>s(vis),"variants"=>arr(vs)},
            ));
        }
        let enums: Vec<(String, J)> =
            std::mem::take(&mut self.ext_enums).into_iter().collect();
        obj! {
            "crate"=>s(tcx.crate_name(LOCAL_CRATE).to_string()),
            "rustc"=>s(option_env!("CFG_VERSION").unwrap_or("nightly")),
            "bodies"=>J::O(bodies),
            "stolen"=>arr(stolen),
            "adts"=>J::O(adts),
            "enums"=>J::O(enums),
        }
    }
}

fn collect_closures<'tcx>(tcx: TyCtxt<'tcx>, t: Ty<'tcx>, out: &mut Vec<String>, depth: u32) {
    if depth > 3 {
        return;
    }
    match t.kind() {
        ty::Closure(did, _) | ty::Coroutine(did, _) | ty::CoroutineClosure(did, _) => {
            out.push(tcx.def_path_str(*did))
        }
        ty::Ref(_, inner, _) => collect_closures(tcx, *inner, out, depth + 1),
        ty::Tuple(ts) => {
            for x in ts.iter() {
                collect_closures(tcx, x, out, depth + 1);
            }
        }
        ty::Adt(_, args) => {
            for ga in args.iter() {
                if let Some(tt) = ga.as_type() {
                    collect_closures(tcx, tt, out, depth + 1);
                }
            }
        }
        _ => {}
    }
}

struct Cb {
    crates: Vec<String>,
    out_dir: String,
}

impl Callbacks for Cb {
    fn after_expansion<'tcx>(&mut self, _c: &Compiler, tcx: TyCtxt<'tcx>) -> Compilation {
        let name = tcx.crate_name(LOCAL_CRATE).to_string();
        if !self.crates.iter().any(|c| c == &name) {
            return Compilation::Continue;
        }
        let mut d = Dumper { tcx, ext_enums: BTreeMap::new() };
        let j = d.dump();
        let mut out = String::with_capacity(32 << 20);
        ser(&mut out, &j);
        let is_test = tcx.sess.opts.test;
        let file = format!(
            "{}/{}{}-{}.json",
            self.out_dir,
            name,
            if is_test { "-test" } else { "" },
            std::process::id()
        );
        let tmp = format!("{}.tmp", file);
        std::fs::write(&tmp, out).expect("axfacts: cannot write fact file");
        std::fs::rename(&tmp, &file).expect("axfacts: cannot rename fact file");
        Compilation::Continue
    }
}

fn main() {
    let mut args: Vec<String> = std::env::args().collect();
    // RUSTC_WORKSPACE_WRAPPER: argv[1] is the path of the real rustc
    if args.len() > 1 && (args[1].ends_with("rustc") || args[1].contains("/rustc")) {
        args.remove(1);
    }
    let crates: Vec<String> = std::env::var("AXFACTS_CRATES")
        .unwrap_or_else(|_| "ax_x86".to_string())
        .split(',')
        .map(|x| x.to_string())
        .collect();
    let out_dir = std::env::var("AXFACTS_OUT").unwrap_or_else(|_| ".".to_string());
    let mut cb = Cb { crates, out_dir };
    rustc_driver::run_compiler(&args, &mut cb);
}
