#!/usr/bin/env python3
"""Authoring helper: every selftest/benign/*.diff (behaviour-preserving refactorings written by independent sub-agents,
each confirmed by them to keep the 2300 tests green) applied to a scratch copy of /repo's sources; all 20 quick checks
must stay silent. usage: try_benign.py [--lanes N] [--props Cxx,Cyy] [name-prefix | %substring ...]; results -> selftest/benign/last_run.json"""
import concurrent.futures, glob, json, os, re, shutil, subprocess, sys, tempfile
VERIF, REPO = "/verif", "/repo"
PROPS = ["C%02d" % i for i in range(1, 21)]


def one(patch, lane):
    name = os.path.basename(patch)[:-5]
    scratch = tempfile.mkdtemp(prefix="axben-", dir=lane)
    tree = os.path.join(scratch, "tree")
    try:
        os.makedirs(tree)
        for n in ("Cargo.toml", "Cargo.lock"):
            shutil.copy(os.path.join(REPO, n), tree)
        shutil.copytree(os.path.join(REPO, "src"), os.path.join(tree, "src"))
        r = subprocess.run(["git", "apply", patch], cwd=tree, capture_output=True, text=True)
        if r.returncode != 0:
            return name, {"error": "patch does not apply: " + r.stderr[-200:]}
        env = dict(os.environ, AX_REPO=tree, AX_CACHE=os.path.join(lane, "cache"), AX_EVIDENCE_DIR=os.path.join(scratch, "ev"))
        alarms = {}
        for p in PROPS:
            r = subprocess.run([sys.executable, "-m", "axcheck_py", p], cwd=VERIF, env=env, capture_output=True, text=True)
            out = r.stdout + r.stderr
            if r.returncode == 2:
                alarms[p] = ["BROKEN: " + out[-300:]]
                if "does not build" in out:
                    break
            elif r.returncode != 0:
                alarms[p] = [l.strip()[:260] for l in out.splitlines() if "rule=" in l][:4]
        return name, alarms
    finally:
        shutil.rmtree(scratch, ignore_errors=True)


def main():
    args = [a for a in sys.argv[1:] if not a.startswith("--")]
    if "--props" in sys.argv:
        global PROPS
        pv = sys.argv[sys.argv.index("--props") + 1]
        PROPS = pv.split(",")
        args = [a for a in args if a != pv]
    lanes = 4
    if "--lanes" in sys.argv:
        lanes = int(sys.argv[sys.argv.index("--lanes") + 1])
        args = [a for a in args if a != str(lanes)]
    patches = sorted(glob.glob(os.path.join(VERIF, "selftest", "benign", "*.diff")))
    if args:
        patches = [p for p in patches if any(os.path.basename(p).startswith(a) or (a.startswith("%") and a[1:] in os.path.basename(p))
                                             for a in args)]
    base = tempfile.mkdtemp(prefix="axbenign-")
    res = {}
    try:
        ld = [os.path.join(base, "lane%d" % i) for i in range(lanes)]
        for l in ld:
            os.makedirs(l)
        chunks = [patches[i::lanes] for i in range(lanes)]

        def work(i):
            out = []
            for p in chunks[i]:
                out.append(one(p, ld[i]))
                print("%-14s %s" % (out[-1][0], "silent" if not out[-1][1] else "ALARM " + json.dumps(out[-1][1])[:600]), flush=True)
            return out
        with concurrent.futures.ThreadPoolExecutor(lanes) as ex:
            for rr in ex.map(work, range(lanes)):
                res.update(dict(rr))
    finally:
        shutil.rmtree(base, ignore_errors=True)
    lp = os.path.join(VERIF, "selftest", "benign", "last_run.json")
    old = json.load(open(lp)) if os.path.exists(lp) else {}
    old.update({k: ("silent" if not v else v) for k, v in res.items()})
    json.dump(old, open(lp, "w"), indent=1, sort_keys=True)
    print("summary: %d silent, %d with alarms" % (sum(1 for v in res.values() if not v), sum(1 for v in res.values() if v)))


if __name__ == "__main__":
    main()
