#!/usr/bin/env python3
"""Authoring helper (never run by a check): which rules report which seeded change.
For every /verif/seeded/<id>/patch.diff: scratch copy of /repo's sources (outside /repo and /verif), git apply, all 20
quick checks with AX_REPO pointing at the copy, record the rules that fire -> seeded/MATRIX.json and meta.json.detected_by.
usage: seed_matrix.py [--lanes N] [id-prefix ...]"""
import concurrent.futures, glob, json, os, re, shutil, subprocess, sys, tempfile

VERIF = "/verif"
REPO = "/repo"
PROPS = ["C%02d" % i for i in range(1, 21)]


def one(seed_dir, lane):
    sid = os.path.basename(seed_dir)
    scratch = tempfile.mkdtemp(prefix="axseed-%s-" % sid[:3], dir=lane)
    tree = os.path.join(scratch, "tree")
    try:
        os.makedirs(tree)
        for n in ("Cargo.toml", "Cargo.lock"):
            shutil.copy(os.path.join(REPO, n), tree)
        shutil.copytree(os.path.join(REPO, "src"), os.path.join(tree, "src"))
        r = subprocess.run(["git", "apply", os.path.join(seed_dir, "patch.diff")], cwd=tree, capture_output=True, text=True)
        if r.returncode != 0:
            return sid, {"error": "patch does not apply: " + r.stderr[-200:]}
        env = dict(os.environ, AX_REPO=tree, AX_CACHE=os.path.join(lane, "cache"), AX_EVIDENCE_DIR=os.path.join(scratch, "ev"))
        fired = {}
        for p in PROPS:
            r = subprocess.run([sys.executable, "-m", "axcheck_py", p], cwd=VERIF, env=env, capture_output=True, text=True)
            out = r.stdout + r.stderr
            if r.returncode == 2:
                fired[p] = ["BROKEN: " + out[-200:]]
            elif r.returncode != 0:
                fired[p] = sorted(set(re.findall(r"rule=(\S+)", out)))
        return sid, fired
    finally:
        shutil.rmtree(scratch, ignore_errors=True)


def main():
    args = [a for a in sys.argv[1:] if not a.startswith("--")]
    lanes = 3
    if "--lanes" in sys.argv:
        lanes = int(sys.argv[sys.argv.index("--lanes") + 1])
        args = [a for a in args if a != str(lanes)]
    seeds = sorted(d for d in glob.glob(os.path.join(VERIF, "seeded", "S*")) if os.path.isdir(d))
    if args:
        seeds = [s for s in seeds if any(os.path.basename(s).startswith(a) for a in args)]
    base = tempfile.mkdtemp(prefix="axseedmatrix-")
    res = {}
    try:
        lane_dirs = [os.path.join(base, "lane%d" % i) for i in range(lanes)]
        for l in lane_dirs:
            os.makedirs(l)
        chunks = [seeds[i::lanes] for i in range(lanes)]

        def work(i):
            out = []
            for s in chunks[i]:
                out.append(one(s, lane_dirs[i]))
                print(out[-1][0], json.dumps(out[-1][1]), flush=True)
            return out
        with concurrent.futures.ThreadPoolExecutor(lanes) as ex:
            for rr in ex.map(work, range(lanes)):
                for sid, fired in rr:
                    res[sid] = fired
    finally:
        shutil.rmtree(base, ignore_errors=True)
    mpath = os.path.join(VERIF, "seeded", "MATRIX.json")
    old = json.load(open(mpath)) if os.path.exists(mpath) else {}
    old.update(res)
    json.dump(old, open(mpath, "w"), indent=1, sort_keys=True)
    for sid, fired in res.items():
        mp = os.path.join(VERIF, "seeded", sid, "meta.json")
        meta = json.load(open(mp))
        rules = sorted({r for rs in fired.values() if isinstance(rs, list) for r in rs if not r.startswith(("BROKEN", "coverage-floor"))})
        meta["detected_by"] = rules
        meta["checks_run"] = "tools/seed_matrix.py: scratch copy of /repo's sources with patch.diff applied, all 20 quick checks (AX_REPO=<copy>)"
        json.dump(meta, open(mp, "w"), indent=1)


if __name__ == "__main__":
    main()
