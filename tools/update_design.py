#!/usr/bin/env python3
"""Authoring helper: splice tools/design_0a.src.md (with the seed table generated from seeded/) into DESIGN.md section 0a
and refresh the 'As built' paragraphs of section 5 (tools/design_asbuilt.py)."""
import re, subprocess, sys
d = open("/verif/DESIGN.md").read()
src = open("/verif/tools/design_0a.src.md").read()
table = subprocess.run([sys.executable, "/verif/tools/mk_seedtable.py"], capture_output=True, text=True).stdout.strip()
src = src.replace("SEEDTABLE", table)
a = d.index("## 0a. Implementation status")
b = d.index("## 0. Reading guide")
d = d[:a] + src.rstrip("\n") + "\n\n---------------------------------------------------------------------------\n\n" + d[b:]
open("/verif/DESIGN.md", "w").write(d)
exec(open("/verif/tools/design_asbuilt.py").read())
