#!/usr/bin/env python3
"""Authoring helper (never run by a check): apply a patch to a scratch copy of /repo's sources and run quick checks.
usage: try_patch.py <patch.diff> [Cxx ...]   (default: all 20). Never touches /repo."""
import os, re, shutil, subprocess, sys, tempfile
VERIF, REPO = "/verif", "/repo"
patch = os.path.abspath(sys.argv[1])
props = sys.argv[2:] or ["C%02d" % i for i in range(1, 21)]
base = tempfile.mkdtemp(prefix="axtry-")
try:
    tree = os.path.join(base, "tree")
    os.makedirs(tree)
    for n in ("Cargo.toml", "Cargo.lock"):
        shutil.copy(os.path.join(REPO, n), tree)
    shutil.copytree(os.path.join(REPO, "src"), os.path.join(tree, "src"))
    r = subprocess.run(["git", "apply", "--include=src/*", patch], cwd=tree, capture_output=True, text=True)
    if r.returncode != 0:
        print("patch does not apply:", r.stderr[-300:]); sys.exit(2)
    env = dict(os.environ, AX_REPO=tree, AX_CACHE=os.path.join(base, "cache"), AX_EVIDENCE_DIR=os.path.join(base, "ev"))
    quiet = True
    for p in props:
        r = subprocess.run([sys.executable, "-m", "axcheck_py", p], cwd=VERIF, env=env, capture_output=True, text=True)
        out = r.stdout + r.stderr
        if r.returncode != 0:
            quiet = False
            print("%s rc=%d" % (p, r.returncode))
            for l in out.splitlines():
                if re.search(r"rule=|BROKEN|Error|does not build", l):
                    print("   ", l.strip()[:300])
    if quiet:
        print("all silent:", " ".join(props))
finally:
    shutil.rmtree(base, ignore_errors=True)
