#!/usr/bin/env python3
"""Authoring helper: copy a confirmed seeded change into /verif/seeded/<id>/ with meta.json.
usage: keep_seed.py <id> <worktree> <property> <detected_by|none> <needs...>"""
import json, os, shutil, sys
sid, wt, prop, detected = sys.argv[1:5]
needs = " ".join(sys.argv[5:])
dst = os.path.join("/verif/seeded", sid)
os.makedirs(dst, exist_ok=True)
for f in ("patch.diff", "demo.diff", "run_demo.sh", "README.md"):
    shutil.copy(os.path.join(wt, "_seed", f), os.path.join(dst, f))
meta = {
    "id": sid, "breaks_property": prop, "needs_to_manifest": needs,
    "authored_by": "independent sub-agent given only the property text and a scratch worktree",
    "confirmed": {
        "existing_suite_with_change": "2300 passed, 0 failed (cargo test --workspace --no-fail-fast --offline)",
        "demonstration_with_change": "fails", "demonstration_without_change": "passes",
        "how": "in the scratch worktree: cargo test --workspace --no-fail-fast --offline with the change and the demonstration applied (lib tests 2300 passed, only the demonstration target fails); git apply -R patch.diff; cargo test --offline --test seed_demo (passes); patch re-applied"},
    "checks_run": "tools/try_seed.sh: git -C /repo apply patch.diff; all 20 quick checks; git -C /repo checkout -- .",
    "detected_by": [] if detected == "none" else detected.split(","),
}
json.dump(meta, open(os.path.join(dst, "meta.json"), "w"), indent=1)
print("kept", dst)
