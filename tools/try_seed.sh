#!/bin/bash
# Authoring helper: apply a patch to /repo, run all 20 quick checks, undo. usage: try_seed.sh <patch.diff>
P=$1
cd /repo && git apply --check $P || { echo "patch does not apply"; exit 2; }
git -C /repo apply $P
cd /verif
for i in $(seq -w 1 20); do
  out=$(AX_EVIDENCE_DIR=/tmp/seed-evidence ./axcheck C$i 2>&1); rc=$?
  if [ $rc -ne 0 ]; then echo "C$i rc=$rc"; echo "$out" | grep -E "rule=|BROKEN|Error" | cut -c1-260 | head -6; fi
done
git -C /repo checkout -- . ; git -C /repo status --short | head -3
rm -rf /tmp/seed-evidence
