#!/usr/bin/env python3
"""Authoring helper: run every property against AX_REPO and dump the violation keys (never used by a check)."""
import json, os, subprocess, sys
out = {}
for i in range(1, 21):
    pid = "C%02d" % i
    r = subprocess.run([sys.executable, "-m", "axcheck_py", pid], capture_output=True, text=True,
                       cwd=os.path.dirname(os.path.dirname(os.path.abspath(__file__))))
    ev = json.load(open(os.path.join(os.path.dirname(os.path.dirname(os.path.abspath(__file__))), "evidence", pid + ".json")))
    out[pid] = {"rc": r.returncode, "new": ev["coverage"]["new_violations"], "known": ev["coverage"]["known_findings_matched"]}
    print(pid, r.returncode, len(out[pid]["new"]), len(out[pid]["known"]), file=sys.stderr)
json.dump(out, open(sys.argv[1], "w"), indent=1)
