#!/usr/bin/env python3
"""Authoring helper: markdown table of the seeded changes from seeded/*/meta.json + seeded/MATRIX.json"""
import glob, json, os
rows = ["| id | property | what it needs to manifest | reported by |", "|---|---|---|---|"]
mx = json.load(open("/verif/seeded/MATRIX.json")) if os.path.exists("/verif/seeded/MATRIX.json") else {}
for f in sorted(glob.glob("/verif/seeded/*/meta.json")):
    m = json.load(open(f))
    fired = mx.get(m["id"], {})
    rules = sorted({r for rs in fired.values() if isinstance(rs, list) for r in rs if not r.startswith(("BROKEN", "coverage-floor"))}) or m["detected_by"]
    rows.append("| %s | %s | %s | %s |" % (m["id"].split("-")[0], m["breaks_property"], m["needs_to_manifest"].replace("|", "/")[:170],
                                         ", ".join(rules) if rules else "**not detected** (declined, see below)"))
print("\n".join(rows))
