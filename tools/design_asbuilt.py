import re
ASBUILT = {
"C01": """*As built (rounds 1–2).* Rules `forms, tables, operands, access, width, writes, cond, cond.write, imm, count,
extend, ring`. **ring**: for the 278 forms whose architectural result is a ring expression of the operands (ADD, SUB,
ADC, SBB, INC, DEC, NEG, NOT, AND, OR, XOR, MOV-likes, LEA-free), the written value is evaluated in the congruence
abstraction modulo 2^4 for all 256 residue pairs (x carry-in) and compared with the architectural result: Z/2^64 → Z/2^4
is a ring homomorphism, so this decides the low four result bits for *all* operand values. **access**: a success path
without a write to a read-write operand 0 is accepted only when the value handed to the flag setter is the operand's own
entry value at its width and the destination is not a 32-bit register (the write is what zero-extends); for counted
shifts the question is decided per count by the 256-count sweep. **dispatch** (round 2): every handler analysis (C01, C02,
C03, C04, C06, C18, C19, C20) starts at the mnemonic's dispatcher with `i.code()` as the constant, so code around the
handler call is part of the instruction; the top-level dispatcher is interpreted per mnemonic and must make exactly one
call, to the bound dispatcher, return its result and touch nothing itself.""",
"C02": """*As built (rounds 1–2).* Rules `class, count, reads, setter, setter.zsp, result`. **setter.zsp**: each of the four
flag setters is interpreted for all 256 low result bytes x {upper bits clear, only the sign bit, one middle bit} and every
requested-flag class; ZF/SF/PF must equal the architectural functions of the result (3 328 evaluations, exhaustive for
what these three flags can distinguish). **result**: the value handed to the setter is the value the handler writes, at
the operand's width; for CMP/TEST it is congruent to d−s / d&s modulo 2^4 for all residue pairs. **mulflags** (round 2):
MUL/IMUL set CF = OF = 1 exactly when the product does not fit — the handler's own tests on the 2N-bit product term are
evaluated for the products whose bits N−1..2N−1 are all zero, all one, and every single-bit deviation from either
(1 248 product classes over 17 forms); `overflowing_mul` forms are judged on its overflow flag, width and signedness.
The numeric value of CF/OF/AF of additions and subtractions stays declined (seeded change S01 shows the cost). **reads** (round 5) computes the rflags dependence per result bit through constant shifts, masks, casts and comparisons, so any spelling of a condition (`(f >> 7 ^ f >> 11) & 1`) depends on exactly the flags it tests. **carry** (round 7, after revisiting the one seeded change that had been declined, S01): for the 88 additive forms the handler's own CF/OF computation is interpreted with the operands fixed at the boundary points (0, 1, largest positive, most negative, -1, for both operands and both incoming carries; immediates at the values the form can encode) and compared with the architectural definition. This is constant propagation through the abstract interpreter, exhaustive for the classes the architecture distinguishes (operand signs x carry into the top bit x carry-in) but not for an implementation that deviates strictly inside a class; S01 (`OF = o1 || o2` for a two-step signed addition) is reported at d = MIN, s = -1, cf = 1. Making this exact required keeping signed operation terms structurally distinct from their unsigned twins over the same operands (signedness had been a per-term tag, so `(d as i64).overflowing_add(s as i64)` turned `d.overflowing_add(s)` signed as well).""",
"C08": """*As built (round 2).* **le** is decided by bit provenance over byte tuples: the reader's value has byte i of the N/8
bytes read at the caller's address in bits 8i..8i+7 and zeroes above; the writer hands the byte store N/8 bytes, byte i
being bits 8i..8i+7 of the value — whatever conversions spell it (`to/from_{le,be}_bytes`, shifts and casts, padded
arrays). **bounds**: the ordering oracle also answers comparisons whose difference is a difference of two endpoint
roles (`len > area_end - address`). **invariant**: construction sites by MIR provenance; the resize function on the
final values of every success path per size class (sequence model shared with C10.resize).""",
"C09": """*As built (round 3).* `elf_flags_to_prot` is evaluated for the eight R/W/X combinations alone and together with every
other p_flags bit (29 single bits and all of them): OS/processor-specific flag bits are legal and must not reach the
permission mask (seeded change S34). The three accessors are found by role (byte accessors by public name, the fetch
accessor as the `(&self, u64) -> Result<Vec<u8>>` callee of the decoder front end).""",
"C10": """*As built (round 2).* **resize**, new **atomic** and **invariant** are decided on final values: `mem_resize_section` is
interpreted over the byte-sequence model once per class new < old, new = old, new > old; on every success path exactly
one area changes, its contents normalise to old[..min] ++ zeros(new - min), its length is the requested size and
equals the new data length, its start is untouched; on every error path nothing has changed (seeded change S22 resized
in place *before* the collision scan had finished). Works for rebuild-and-copy as well as `Vec::resize`/`truncate` in
place. **term** falls back to the path form of the loop variant when the MIR idiom is not recognised; a structurally
recognised variant counts only when its update lies on every cycle through the loop header. **overlap** (round 5) is
decided twice: over one generic area per ordering (sound and complete, 52 runs), and over exact one- and two-area lists
(the colliding area alone, before and behind an unrelated or the resized area; 45 + 36 runs) walked in order by every
iterator instance with the loops unrolled exactly, starting at every public function that reaches an area-adding
function: no path adds an area / succeeds while a colliding area sits anywhere in the list (seeded change S50 stopped
the resize scan at the resized area). **search** (round 5): see C17.search; judged for the four allocator / stack APIs. The twin lists of **overlap** (a non-empty and an empty area sharing the requested start) found the defect repaired by f0880e3.""",
"C12": """*As built (round 2).* **iterate**: the runner is interpreted per class of what the hook returned {Handled, Unhandled,
Err} x {execution finished meanwhile or not}: Err ends the chain with the error, Handled or finished ends it with Ok,
Unhandled goes on to the next hook. **guard** interprets private `&self` helpers inline (an extracted guard is the
same guard). Round 5: the vector a registration pushes to is found by interpreting the public registration API with its private helpers inline; the running-guard is judged at the crate-visible entry points that reach a function mutating the hook table; awaiting a local `async fn` runs its body, so a runner or a hook phase moved into an async helper is the same code. **lookup** (round 8): while a code of mnemonic M is handled, every query of the hook table (the role function or the map itself) has the constant key M (seeded change S80).""",
"C20": """*As built.* **sources** accepts rand calls in closures of the two seeding functions and in the pipe() hook (found by
the syscall number it selects); **reads** is conservative by design: any register read in `step` itself other than RIP
is reported (seeded change S20 printed `used_registers()` into the error text); the same holds for the cone that builds
error texts and traces (byte accessors, fetch, decoder front end, the error-hint builder, `trace`, `call_stack`,
`resolve_symbol`): a call-graph who-may-call rule with the register argument resolved to a constant (seeded change S36). Round 5: the observable cone follows formatting arguments (outside `debug_log!`) to the crate's own `Display` / `Debug` / `LowerHex` impls of the types named in the argument, so hash-map iteration inside a `fmt` that an error text prints is reported (seeded change S57). Round 8: thread-locals, atomics and locks on statics reached from non-glue code are process-level mutable state shared by all machines (seeded change S83); the immutable lazy_static tables are not matched.""",
"C03": """*As built.* `target` additionally requires every register, address and memory term the target is computed from to be
an *entry-state* version (read before the handler's first write): CALL r/m64 that resolves its operand after the push
is reported (seeded change S02). **rcx** (round 5) is decided per representative value of RCX (zero; only the low / only the high half zero; single low, middle and top bits; all ones): the tests a path made on any view of RCX are evaluated, the consistent paths must take the branch exactly when the architectural counter (RCX or ECX) is zero.""",
"C04": """*As built.* `value` requires the pushed value to be an entry-state read: a PUSH that reads its operand after RSP was
changed is reported (PUSH RSP stores the old RSP; seeded change S11). `empty` compares affine forms (any spelling of
`slot == stack_top`) and, round 4, requires the normal-finish signal to be raised only on paths where that comparison
holds (seeded change S39: a RET that finds the shadow call stack empty ends the run).""",
"C05": """*As built.* `formula` runs `mem_addr` once per address class (78: 64-bit, 64-bit with extended registers, 67h
32-bit, 32-bit extended; base/index presence; scale; segment) with representative constant registers and iced's register
predicates answered from E1, and compares the affine normal form (with the 32-bit truncation placed before the segment
base); `lea` compares the LEA handlers' value with `mem_addr` on the segment-less operand.""",
"C06": """*As built (round 2).* **quotient** is decided per class: quotient fits / too large (IDIV: fits / above / below the
signed range), each with its boundary points and halves, and for DIV r/m16/32/64 the high half of the dividend below /
equal to / above the divisor. Every comparison over the quotient term (interval reasoning through casts and constant
shifts) or over (hi, d) — also when `hi` is spelled `dividend >> N`, recognised by bit provenance — is answered by the
class. A fitting class must have a success path, a non-fitting class none. 140 class runs for the 8 forms x 2 shapes.""",
"C07": """*As built (round 2).* `tables` checks the tables that exist; the high-byte table is optional because `bits` decides
the aliasing of each of the 68 views x 8 accessors by bit provenance whatever the handler uses to tell AH..DH apart
(HashSet lookup, `matches!`, a range over iced's encoding order: `RangeInclusive::contains` and derived comparisons on
field-less enum constants are summarised by discriminant). **bits** (round 5) judges the final value of the parent's slot on every success path, including paths that store nothing, modulo the bit equalities the path has established by comparing values: an elided write is accepted exactly when the path shows the register already holds the architectural result (seeded change S54 and its corrected form).""",
"C11": """*As built.* Added `end`: `code_end_addr` = `code_start_addr + code.len()` in the constructor (affine), independent of
the initial RIP (seeded change S05). Round 8: **once** also requires that an Ok return after RIP was advanced has dispatched the instruction (a stop from a before hook does not end the step early; seeded change S79). `end` reads the constructor's result as a struct expression or as stores.""",
"C13": """*As built (round 2).* The hook closure is interpreted for the 8 classes {first use, heap exists} x {p = 0,
0 < p < base, p = base, p > base}; a comparison oracle answers every comparison among 0, p, `brk_start` and the
allocator's result (including the overflow flag of `checked_sub`). query: class p = 0 returns base + current length and
does not resize; move: classes p = base and p > base perform exactly one `resize(base, p − base)`, return p, store
`brk_length` only after success and leave it alone on failure. 0 < p < base is not specified by the property and only
counted. Floor: all 8 classes have a Handled path.""",
"C14": """*As built (round 2).* The three closures are interpreted over the map/sequence model of `seqmodel.py`; read is run
per class count < len, count = len, count > len. **split**: delivered = B[..m], contents[fd] := B[m..], RAX = m with m the
class's minimum; write: contents[key] := B ++ G (G when missing), RAX = RDX. **keys**: read touches only contents[RDI];
write only contents[write_ends[RDI]]; pipe() writes read_ends[R] = W, write_ends[W] = R, contents[R] = empty with R, W
distinct fresh draws and hands [R, W] to the guest at RDI, RDI+8. Calls outside the model make the instance undecided
and trip the floor (6 Handled paths decided). **atomic** (round 3): with failing guest memory accesses switched on,
every path on which one fails returns that error and leaves every map entry at its entry value (seeded change S32). Round 5: a path that has established count = 0 (or an empty buffer) transfers nothing (no guest write or an empty one, RAX = 0, buffer unchanged); a Handled path that never looked RDI up in the buffers is a passthrough violation (seeded change S55).""",
"C15": """*As built (round 2).* **load** compares the *image* of the area as a sequence expression: zero-filled base of a
length derived from `p_memsz` only, plus overlays at offset 0 that normalise to `segment_data(segment)` (library fact:
its length is `p_filesz`), or the file bytes alone when the path ties the rounded `p_memsz` to `p_filesz`; events are
split per program header visited. **round** (new): the zero area's length L(p_memsz) satisfies p_memsz ≤ L ≤ next page
boundary for all 4 096 residues and representative page counts admitted by the path's own guards (seeded change S16).
**others** (round 3): a program header decided not to be PT_LOAD changes neither permissions nor bytes of an area it did
not create itself (seeded change S33, PT_GNU_RELRO at a PT_LOAD's address). **symbols** (round 5) also orders the
stores: a name that is not read from the string table (the synthetic `_start`) is never stored after the file's symbols
unless the slot was tested first, so it cannot replace the file's own symbol at the entry address (seeded change S51). **load** (round 7) also judges headers that are passed over before their `p_type` is decided: nothing mapped and the path goes on → the tests that let it go may only concern `p_vaddr` (seeded change S72).""",
"C16": """*As built (round 2).* **arith** additionally carries relational slice/copy obligations (`bound <= length` must be
tied on the path; seeded change S17: `data[..content.len()]` on a `vec![0; memsz]`), and **alloc** treats `vec![e; n]` like
the zero-fill primitive. **alloc** (round 5) decides per allocation whether the size is bounded from above on the path:
constants below 2^40 and quantities not read from the file are bounded; a file-controlled term is bounded when a
dominating comparison puts it (or a sum containing it) below something bounded; `min` / `&` need one bounded side,
`+ * | max` both; `!x` and an unguarded header field are not (seeded change S52 rounded the size up to `p_align`; the
overflow guards of `checked_add` compare against constants near 2^64 and therefore do not count).""",
"C17": """*As built (round 2).* Added **retry**: the error of creating the stack area at a candidate address is never the
function's result (the search goes on) unless the very same (start, size) range was probed by a range predicate before
(seeded change S18: probe with `length`, allocate `length + 8n`). **search** (round 5): the placement of the argument strings and of the stack area returns its error only after at least one probe of the address space, or on conditions over its own parameters (C10.search; seeded change S56). The layout rules (`order`, `slot`, `space`) apply to frames assembled by pushing to a vector; for a frame assembled otherwise they report *undecided* in the evidence instead of a violation.""",
"C18": """*As built (round 2).* **total** additionally triages every overflow / bounds check on the paths of `trace()` and
`call_stack()`: a check on machine state (a vector length, a level, an address) is reported unless the path establishes
it by a dominating comparison or, for `len(X) - k`, by k elements already taken from an iterator over X. **pair** (round 4)
also interprets the handlers with failing guest memory accesses: a transfer that faults before RIP is written leaves no
trace entry and no call-stack change (seeded change S45). Round 8: the trace recorder reads RIP for the source address, so on every taken path the trace event precedes the first RIP write (seeded change S82).""",
"C19": """*As built (round 2).* Added **slices**: the 20 slice/index/copy sites of the cone are either inside the three
bounds-analysed accessors (decided for all endpoint orderings by C08.bounds + C08.invariant) or carry a relational
obligation discharged on every path of their function (pipe read: min(); trace: loop guard; mem_read_8: constant below
the known length of the byte vector; resize: min() and the enumerate() index, the latter by a MIR slice because the path
analysis widens it). Seeded change S19 (an unchecked `area.data[off..off+8]` fast path) is reported here as well as by
the layering rules. **loops** (round 5): a counting loop's increment must lie on every cycle through the loop header
(seeded change S53: a `continue` in the trace renderer skipped `i += 1`).""",
}
s = open('/verif/DESIGN.md').read()
for pid, text in ASBUILT.items():
    m = re.search(r"^### %s .*$" % pid, s, re.M)
    assert m, pid
    nxt = re.search(r"^##+ ", s[m.end():], re.M)
    end = m.end() + nxt.start()
    seg = s[m.end():end]
    seg = re.sub(r"\n\*As built.*?(?=\n\n|\Z)", "", seg, flags=re.S)
    s = s[:m.end()] + seg.rstrip("\n") + "\n\n" + text + "\n\n" + s[end:]
open('/verif/DESIGN.md', 'w').write(s)
print("ok")
