#!/bin/bash
# Authoring helper: confirm a seeded change in its scratch worktree (never used by a check).
# usage: confirm_seed.sh <worktree>   -> prints suite result with change, demo with change, demo without change
W=$1
cd $W || exit 2
export CARGO_NET_OFFLINE=true
echo "== suite with change"; cargo test --workspace --no-fail-fast --offline 2>&1 | grep -E "^test result" | head -3
echo "== demo with change"; bash _seed/run_demo.sh 2>&1 | grep -E "^test result|panicked|FAILED" | head -5
git stash push -q -- $(git diff --name-only | grep -v "^tests/seed_demo.rs" | grep -v seed_demo) 2>/dev/null
# keep demo: re-apply demo.diff if the stash removed a `mod` line
git apply _seed/demo.diff 2>/dev/null
echo "== demo without change"; bash _seed/run_demo.sh 2>&1 | grep -E "^test result|panicked|FAILED" | head -5
git checkout -q -- . 2>/dev/null; git stash pop -q 2>/dev/null
git apply _seed/demo.diff 2>/dev/null
echo "== restored: $(git status --short | wc -l) changed files"
