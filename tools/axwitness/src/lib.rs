//! E3: compile-fail witnesses with compiling twins (type-level part of C09.who / C10.who / C11.writers / C12.guard).
//! Each witness names the crate as an external user would and must fail with exactly the stated error code; its
//! twin differs only in the offending line and must compile, so a witness cannot pass because of a wrong path.
//! Run with `cargo +nightly test --doc --offline` (the stable toolchain ignores the error codes).

/// C09.who / C10.who: guest memory areas cannot be named, constructed or held by external code.
/// ```compile_fail,E0603
/// let ax = ax_x86::axecutor::Axecutor::new(&[0x90], 0x1000, 0x1000).unwrap();
/// let _a: Option<ax_x86::state::memory::MemoryArea> = None;
/// ```
/// twin:
/// ```no_run
/// let ax = ax_x86::axecutor::Axecutor::new(&[0x90], 0x1000, 0x1000).unwrap();
/// let _a: Option<u32> = Some(ax_x86::state::memory::PROT_READ);
/// ```
pub struct AreaTypeIsPrivate;

/// C09.who / C10.who: the machine state (and with it the area list) is not reachable from outside.
/// ```compile_fail,E0616
/// let ax = ax_x86::axecutor::Axecutor::new(&[0x90], 0x1000, 0x1000).unwrap();
/// let _n = ax.state.memory.len();
/// ```
/// twin:
/// ```no_run
/// let ax = ax_x86::axecutor::Axecutor::new(&[0x90], 0x1000, 0x1000).unwrap();
/// let _n = ax.mem_read_bytes(0x1000, 1).unwrap().len();
/// ```
pub struct StateIsPrivate;

/// C11.writers: external code cannot clear `finished` (only `stop()` can set it).
/// ```compile_fail,E0616
/// let mut ax = ax_x86::axecutor::Axecutor::new(&[0x90], 0x1000, 0x1000).unwrap();
/// ax.state.finished = false;
/// ```
/// twin:
/// ```no_run
/// let mut ax = ax_x86::axecutor::Axecutor::new(&[0x90], 0x1000, 0x1000).unwrap();
/// ax.stop();
/// ```
pub struct FinishedIsPrivate;

/// C11.end / C04.empty: the end-of-code address and the RET sentinel cannot be moved from outside.
/// ```compile_fail,E0616
/// let mut ax = ax_x86::axecutor::Axecutor::new(&[0x90], 0x1000, 0x1000).unwrap();
/// ax.code_end_addr = 0;
/// ```
/// ```compile_fail,E0616
/// let mut ax = ax_x86::axecutor::Axecutor::new(&[0x90], 0x1000, 0x1000).unwrap();
/// ax.stack_top = 0;
/// ```
/// twin:
/// ```no_run
/// let mut ax = ax_x86::axecutor::Axecutor::new(&[0x90], 0x1000, 0x1000).unwrap();
/// ax.set_max_instructions(0);
/// ```
pub struct LoopControlIsPrivate;

/// C12.guard: the hook table and the re-entrancy flag are not reachable from outside.
/// ```compile_fail,E0616
/// let mut ax = ax_x86::axecutor::Axecutor::new(&[0x90], 0x1000, 0x1000).unwrap();
/// ax.hooks.running = false;
/// ```
/// twin:
/// ```no_run
/// let mut ax = ax_x86::axecutor::Axecutor::new(&[0x90], 0x1000, 0x1000).unwrap();
/// ax.handle_syscalls(vec![]).unwrap();
/// ```
pub struct HooksArePrivate;

/// C09.who: the unchecked fetch path and the private error decorator are not callable from outside.
/// ```compile_fail,E0624
/// let ax = ax_x86::axecutor::Axecutor::new(&[0x90], 0x1000, 0x1000).unwrap();
/// let _ = ax.mem_read_executable_bytes(0x1000);
/// ```
/// twin:
/// ```no_run
/// let ax = ax_x86::axecutor::Axecutor::new(&[0x90], 0x1000, 0x1000).unwrap();
/// let _ = ax.mem_read_bytes(0x1000, 1);
/// ```
pub struct FetchIsCrateInternal;
