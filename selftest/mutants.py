"""E4 mutant corpus: (id, property, file, old, new, expected rule prefix, note).

Every mutant is a single textual replacement (first occurrence unless `nth` is given) in /repo's source that still
compiles. Each was authored to break exactly the named rule; `selftest/run.py` applies it to a scratch copy outside
/repo and /verif, re-extracts facts and requires (1) the property's check exits 1, (2) a VIOLATION names the expected
rule. The corpus complements the independently seeded changes under /verif/seeded."""

M = []


def m(id, prop, file, old, new, rule, note="", nth=1):
    M.append(dict(id=id, prop=prop, file=file, old=old, new=new, rule=rule, note=note, nth=nth))


def b(id, props, edits, note=""):
    """a behaviour-preserving variant: every listed property's check must stay silent (exit 0).
    edits: list of (file, old, new[, all]) applied in order"""
    M.append(dict(id=id, prop=props, edits=edits, rule="SILENT", note=note, file=edits[0][0], old=edits[0][1], new=edits[0][2], nth=1))


# ---------------------------------------------------------------- C01
m("c01-forms-stub", "C01", "src/instructions/movsxd.rs", "Movsxd_r64_rm32 => self.instr_movsxd_r64_rm32(i),",
  "Movsxd_r64_rm32 => crate::helpers::macros::opcode_unimplemented!(\"instr_movsxd_r64_rm32 for Movsxd\"),", "C01.forms", "arm replaced by the unimplemented stub")
m("c01-helper-swap", "C01", "src/instructions/add.rs", "calculate_r_rm![u32f; self; i;", "calculate_rm_r![u32f; self; i;", "C01.operands",
  "r_rm/rm_r swapped on Add_r32_rm32: memory source aborts")
m("c01-width", "C01", "src/instructions/cdqe.rs", "self.reg_read_32(EAX)? as i32 as i64 as u64", "self.reg_read_32(EAX)? as u64", "C01.extend",
  "CDQE zero-extends")
m("c01-cmov-cond", "C01", "src/instructions/cmovne.rs", "if self.state.rflags & FLAG_ZF == 0 {", "if self.state.rflags & FLAG_ZF != 0 {", "C01.cond",
  "CMOVNE r16 inverted")
m("c01-div-reg", "C01", "src/instructions/div.rs", "self.reg_read_16(DX)? as u32) << 16", "self.reg_read_16(BX)? as u32) << 16", "C01.access",
  "DIV r/m16 reads BX for DX")
m("c01-tryfrom", "C01", "src/auto/generated.rs", "Cqo => SupportedMnemonic::Cqo,", "Cqo => SupportedMnemonic::Cwd,", "C01.tables", "TryFrom maps to the wrong variant")
m("c01-imm", "C01", "src/helpers/operand.rs", "data: i.immediate8to16() as u64,", "data: i.immediate8() as u64,", "C01.imm", "imm8->16 not sign-extended")
m("c01-ring-swap", "C01", "src/instructions/sub.rs", "(d as i8).wrapping_sub(s as i8)", "(s as i8).wrapping_sub(d as i8)", "C01.ring", "SUB computes s - d (first form)")
m("c01-ring-inc", "C01", "src/instructions/inc.rs", "wrapping_add(1)", "wrapping_add(2)", "C01.ring", "INC adds 2 (first form)")
m("c01-ring-xor", "C01", "src/instructions/xor.rs", "d^s", "d|s", "C01.ring", "XOR computes OR (first form)")
# ---------------------------------------------------------------- C02
m("c02-clear-mask", "C02", "src/instructions/sub.rs", "(set: FLAG_SF | FLAG_ZF | FLAG_PF; clear: FLAG_CF | FLAG_OF )]",
  "(set: FLAG_SF | FLAG_ZF | FLAG_PF; clear: FLAG_OF )]", "C02.class", "SUB drops CF from a clear mask: stale CF")
m("c02-mov-shortform", "C02", "src/instructions/mov.rs", "}; (set: FLAGS_UNAFFECTED; clear: 0)]", "}; (set: 0; clear: 0)]", "C02.class",
  "a MOV form uses the non-neutral (0;0) masks")
m("c02-setter", "C02", "src/state/flags.rs", "let mut new_flags = a.state.rflags & !flags_to_set & !flags_to_clear;",
  "let mut new_flags = a.state.rflags & !flags_to_set;", "C02.class", "setter no longer clears")
m("c02-cld", "C02", "src/instructions/cld.rs", "!FLAG_DF", "!FLAG_IF", "C02.class", "CLD clears a different bit")
m("c02-shr-mask", "C02", "src/instructions/shr.rs", "let s = s & 0x1f;", "let s = s & 0x3f;", "C02.count", "SHR r/m32 imm8 masks with 0x3f", nth=3)
m("c06-shr-mask8", "C06", "src/instructions/shr.rs", "let s = s & 0x1f;", "let s = s & 0x3f;", "C06.spurious", "SHR r/m8 imm8 masks with 0x3f: count 32 overflows the flag mask shift")
m("c02-zf", "C02", "src/state/flags.rs", "if result == 0 {", "if result == 1 {", "C02.setter.zsp", "ZF from result == 1")
m("c02-pf", "C02", "src/state/flags.rs", "for i in 0..8 {", "for i in 0..7 {", "C02.setter.zsp", "parity over 7 bits")
m("c02-cmp-result", "C02", "src/instructions/cmp.rs", "(d as i8).wrapping_sub(s as i8)", "(s as i8).wrapping_sub(d as i8)", "C02.result", "CMP flags from s - d (first form)")
# ---------------------------------------------------------------- C03
m("c03-cond", "C03", "src/instructions/ja.rs", "&& self.state.rflags & FLAG_ZF == 0", "|| self.state.rflags & FLAG_ZF == 0", "C03.cond", "JA: && -> ||")
m("c03-target", "C03", "src/instructions/jmp.rs", "let offset = i.near_branch64() as i64 as u64;\n                self.trace_jump(i, offset)?;",
  "let offset = i.memory_displacement64();\n                self.trace_jump(i, offset)?;", "C03.target", "JMP rel8 target from the wrong accessor")
m("c03-jrcxz", "C03", "src/instructions/jrcxz.rs", "self.reg_read_64(SupportedRegister::RCX)? == 0", "self.reg_read_32(SupportedRegister::ECX)? == 0",
  "C03.rcx", "JRCXZ tests ECX")
m("c03-advance", "C03", "src/state/execute.rs", "let rip = instr.next_ip();", "let rip = instr.ip();", "C03.advance", "step writes ip instead of next_ip")
# ---------------------------------------------------------------- C04
m("c04-size", "C04", "src/instructions/push.rs", "rsp.wrapping_sub(2))?;", "rsp.wrapping_sub(8))?;", "C04.rsp", "PUSH r16 moves RSP by 8")
m("c04-call-value", "C04", "src/instructions/call.rs", "let rip = $self.reg_read_64(RIP)?;", "let rip = $self.reg_read_64(RSP)?;", "C04.value", "CALL pushes RSP")
# ---------------------------------------------------------------- C05
m("c05-scale", "C05", "src/helpers/operand.rs", ".wrapping_mul(scale as u64),", ".wrapping_add(scale as u64),", "C05.formula", "index + scale")
m("c05-checked", "C05", "src/helpers/operand.rs", "addr = addr.wrapping_add(displacement);", "addr += displacement;", "C05", "overflow-checked add")
m("c05-disp", "C05", "src/helpers/operand.rs", "let displacement = i.memory_displacement64();", "let displacement = i.memory_displacement32() as u64;",
  "C05.plumb", "32-bit displacement")
m("c05-seg", "C05", "src/helpers/operand.rs", "SupportedSegmentRegister::GS => {\n                    debug_log!(\n                        \"Adding GS segment offset {:#x} to memory address: {:#x}\",\n                        self.state.gs,\n                        addr\n                    );\n                    addr = addr.wrapping_add(self.state.gs);",
  "SupportedSegmentRegister::GS => {\n                    debug_log!(\n                        \"Adding GS segment offset {:#x} to memory address: {:#x}\",\n                        self.state.gs,\n                        addr\n                    );\n                    addr = addr.wrapping_add(self.state.fs);",
  "C05.formula", "GS adds fs")
m("c05-lea-trunc", "C05", "src/instructions/lea.rs", "self.reg_write_32(dest, src_addr as u32 as u64)?;", "self.reg_write_32(dest, (src_addr >> 32) as u32 as u64)?;",
  "C05.lea", "LEA r32 writes the high half")
# ---------------------------------------------------------------- C06
m("c06-divzero", "C06", "src/instructions/div.rs", "if src_val == 0 {\n            return Err(AxError::from(format!(\n                \"Divide by zero in Div_rm32",
  "if src_val == 1 {\n            return Err(AxError::from(format!(\n                \"Divide by zero in Div_rm32", "C06.divzero", "zero test replaced")
m("c06-mem-drop", "C06", "src/instructions/push.rs", "self.mem_write_64(rsp, value)?;", "let _ = self.mem_write_64(rsp, value);", "C06.mem", "store error dropped")
m("c06-align", "C06", "src/instructions/xorps.rs", "if addr & 0xf != 0 {", "if addr & 0x7 != 0 {", "C06.align", "alignment mask 0x7")
m("c06-q-offbyone", "C06", "src/instructions/div.rs", "quotient > u16::MAX as u32", "quotient >= u16::MAX as u32", "C06.quotient", "DIV r/m16 refuses the largest fitting quotient")
m("c06-q-strict", "C06", "src/instructions/idiv.rs", "quotient > i32::MAX as i64", "quotient > (i32::MAX / 2) as i64", "C06.quotient", "IDIV r/m32 refuses the upper half of the fitting quotients")
m("c06-q-lax", "C06", "src/instructions/idiv.rs", "quotient < i32::MIN as i64 ||", "quotient < i64::MIN + 1 ||", "C06.quotient", "IDIV r/m32 accepts quotients below the range")
# ---------------------------------------------------------------- C07
m("c07-mask", "C07", "src/state/registers.rs", "(reg_value & 0xFFFF_FFFF_FFFF_00FF) | (value << 8)", "(reg_value & 0xFFFF_FFFF_FFFF_0FFF) | (value << 8)", "C07.bits", "AH mask typo")
m("c07-table", "C07", "src/state/registers.rs", "(SIL, RSI),", "(SIL, RDI),", "C07.tables", "SIL -> RDI")
m("c07-order", "C07", "src/state/registers.rs", "let result_value = (reg_value & 0xFFFF_FFFF_FFFF_0000) | value;", "let result_value = (reg_value & 0xFFFF_FFFF_FFFF_0000) | (value & 0xFF);",
  "C07.bits", "16-bit write keeps only 8 bits")
# ---------------------------------------------------------------- C08
m("c08-bound", "C08", "src/state/memory.rs", ".map_or(true, |end| end > area.start + area.length)\n        {\n            return Err(self.collect_mem_error_hints(address, length, \"Read\".to_string()));",
  ".map_or(true, |end| end > area.start + area.length + 1)\n        {\n            return Err(self.collect_mem_error_hints(address, length, \"Read\".to_string()));", "C08", "read may run one past the end")
m("c08-be", "C08", "src/state/memory.rs", "self.mem_write_bytes(address, &(data as u32).to_le_bytes())", "self.mem_write_bytes(address, &(data as u32).to_be_bytes())", "C08.le", "big endian")
m("c08-len", "C08", "src/state/memory.rs", "let bytes = self.mem_read_bytes(address, 8)?;", "let bytes = self.mem_read_bytes(address, 4)?;", "C08.le", "64-bit reader reads 4 bytes (would panic)")
m("c08-unchecked", "C08", "src/state/memory.rs", "        if address\n            .checked_add(length)\n            .map_or(true, |end| end > area.start + area.length)",
  "        if Some(address + length)\n            .map_or(true, |end| end > area.start + area.length)", "C08.total", "unchecked address + length is back")
# ---------------------------------------------------------------- C09
m("c09-gate", "C09", "src/state/memory.rs", "if area.access & PROT_WRITE == 0 {", "if area.access & PROT_READ == 0 {", "C09.gate", "write path tests READ")
m("c09-elf", "C09", "src/elf/elf.rs", "if flags & PF_W != 0 {\n        proc_flags |= PROT_WRITE;", "if flags & PF_W != 0 {\n        proc_flags |= PROT_EXEC;", "C09.init", "PF_W -> EXEC")
m("c09-new", "C09", "src/axecutor.rs", "ax.mem_prot(code_start_addr, PROT_READ | PROT_EXEC)?;", "ax.mem_prot(code_start_addr, PROT_READ | 2 | PROT_EXEC)?;", "C09.init", "code stays writable")
m("c09-prot", "C09", "src/state/memory.rs", "prot <= 7,", "prot <= 15,", "C09.prot", "mem_prot accepts undefined bits")
# ---------------------------------------------------------------- C10
m("c10-overlap", "C10", "src/state/memory.rs", "if start.max(area.start) < end.min(area.start + area.length) {", "if start.max(area.start) < end.min(area.start) {", "C10.overlap", "creation scan never fires")
m("c10-progress", "C10", "src/state/memory.rs", "start += length.max(1);", "start += length;", "C10.term", "zero-length loop again")
m("c10-resize-copy", "C10", "src/state/memory.rs", "new_data[..copy_len].copy_from_slice(&old_data[..copy_len]);", "new_data[..copy_len].copy_from_slice(&old_data[old_data.len() - copy_len..]);", "C10.resize", "keeps the suffix")
# ---------------------------------------------------------------- C11
m("c11-limit", "C11", "src/state/execute.rs", "if self.state.executed_instructions_count >= limit {", "if self.state.executed_instructions_count > limit {", "C11.limit", "off by one")
m("c11-count-before", "C11", "src/state/execute.rs", "        self.state.executed_instructions_count += 1;\n\n        // If we reached",
  "        // If we reached", "C11.once", "count never incremented")
m("c11-finish", "C11", "src/state/execute.rs", "if self.reg_read_64(Register::RIP.into())? == self.code_end_addr {", "if rip == self.code_end_addr {", "C11.finish", "pre-instruction RIP compared")
# ---------------------------------------------------------------- C12
m("c12-pairing", "C12", "src/state/hooks.rs", "            if ax.state.finished || res == HookResult::Handled {\n                ax.hooks.running = false;\n                return Ok(());",
  "            if ax.state.finished || res == HookResult::Handled {\n                return Ok(());", "C12.pairing", "running stays set on short-circuit")
m("c12-chain", "C12", "src/state/hooks.rs", "self.run_functions(false, ax, mnemonic).await?;", "self.run_functions(true, ax, mnemonic).await?;", "C12.chain", "after runs before-hooks")
m("c12-guard", "C12", "src/state/hooks.rs", "        if self.hooks.running {\n            return Err(AxError::from(\n                \"Cannot add hooks while another hook is running\",\n            ));\n        }\n\n        debug_log!(\n            \"Previous entry: {:?}\",\n            self.hooks.mnemonic_hooks.entry(mnemonic)\n        );\n        self.hooks\n            .mnemonic_hooks\n            .entry(mnemonic)\n            .or_insert_with(Hook::new)\n            .native_after",
  "        debug_log!(\n            \"Previous entry: {:?}\",\n            self.hooks.mnemonic_hooks.entry(mnemonic)\n        );\n        self.hooks\n            .mnemonic_hooks\n            .entry(mnemonic)\n            .or_insert_with(Hook::new)\n            .native_after", "C12.guard", "after-registration unguarded")
# ---------------------------------------------------------------- C13 / C14
m("c13-return", "C13", "src/helpers/syscalls.rs", "ax.reg_write_64(RAX, ax.state.syscalls.brk_start + new_length)?;", "ax.reg_write_64(RAX, new_length)?;", "C13.move", "returns the length")
m("c14-split", "C14", "src/helpers/syscalls.rs", ".insert(fd, available_content[max_bytes as usize..].to_vec());", ".insert(fd, available_content[count as usize..].to_vec());", "C14.split", "keeps from count")
m("c14-key", "C14", "src/helpers/syscalls.rs", "ax.state.syscalls.pipe_contents.insert(read_end, Vec::new());", "ax.state.syscalls.pipe_contents.insert(write_end, Vec::new());", "C14.keys", "buffer keyed by write end")
# ---------------------------------------------------------------- C15 / C16
m("c15-paddr", "C15", "src/elf/elf.rs", "axecutor.mem_write_bytes(\n                            segment.p_vaddr,", "axecutor.mem_write_bytes(\n                            segment.p_paddr,", "C15.load", "bytes written at p_paddr")
m("c15-sym", "C15", "src/elf/elf.rs", "if symbol.is_undefined() {", "if !symbol.is_undefined() {", "C15.symbols", "imports only undefined symbols")
m("c16-cap", "C16", "src/elf/elf.rs", "if segment.p_memsz > MAX_SEGMENT_MEMORY_SIZE {", "if segment.p_filesz > MAX_SEGMENT_MEMORY_SIZE {", "C16.alloc", "cap tests the wrong field")
# ---------------------------------------------------------------- C17 / C18
m("c17-order", "C17", "src/state/memory.rs", "        // argv[argc] = NULL\n        stack_layout.push(0);", "        // argv[argc] = NULL", "C17.order", "argv terminator dropped")
m("c18-variant", "C18", "src/instructions/ret.rs", "self.trace_return(i, rip)?;", "self.trace_jump(i, rip)?;", "C18.pair", "RET traced as jump")
m("c18-level", "C18", "src/helpers/trace.rs", "TraceVariant::Return => lvl = lvl.saturating_sub(1),", "TraceVariant::Return => lvl = lvl.saturating_sub(2),", "C18.level", "return lowers by two")
m("c18-indent", "C18", "src/helpers/trace.rs", "\"  \".repeat(entry.level.max(0) as usize),", "\"  \".repeat(entry.level as usize),", "C18.total", "guard removed")
# ---------------------------------------------------------------- C19 / C20
m("c19-unwrap", "C19", "src/instructions/pop.rs", "let value = self.mem_read_64(rsp)?;", "let value = self.mem_read_64(rsp).unwrap();", "C19.panic", "unwrap on a guest-controlled access")
m("c20-mapiter", "C20", "src/helpers/trace.rs", "let target_symbol = match self.symbol_table.get(&entry.target) {", "let _n = self.symbol_table.iter().next();\n            let target_symbol = match self.symbol_table.get(&entry.target) {",
  "C20.sources", "hash-map iteration inside trace()")
m("c20-rand", "C20", "src/instructions/cpuid.rs", "fn instr_cpuid(&mut self, i: Instruction) -> Result<(), AxError> {", "fn instr_cpuid(&mut self, i: Instruction) -> Result<(), AxError> {\n        let _r: u8 = rand::random();",
  "C20.sources", "rand in a handler")

# ---------------------------------------------------------------- added with the semantic reworks
m("c19-slice-min", "C19", "src/state/memory.rs", "let copy_len = std::cmp::min(old_data.len(), new_data.len());", "let copy_len = old_data.len();", "C19.slices", "resize copies the old length unconditionally (panics when shrinking)")
m("c19-slice-loop", "C19", "src/helpers/trace.rs", "while i < self.state.trace.len() {", "while i <= self.state.trace.len() {", "C19.slices", "trace loop runs one past the end")
m("c15-round-mask", "C15", "src/elf/elf.rs", "size.checked_add(0xfff).map(|s| s & !0xfff)", "size.checked_add(0xfff).map(|s| s & !0x7ff)", "C15.round", "rounding mask leaves bit 11")
m("c14-write-key", "C14", "src/helpers/syscalls.rs", ".entry(write_end)", ".entry(fd)", "C14.keys", "write stores under the write end instead of the read end")
m("c14-read-count", "C14", "src/helpers/syscalls.rs", "ax.reg_write_64(RAX, max_bytes)?;", "ax.reg_write_64(RAX, count)?;", "C14.split", "read returns the requested instead of the delivered count")

# ---------------------------------------------------------------- behaviour-preserving variants (must stay silent)
b("b-c13-return-from-state", "C13", [("src/helpers/syscalls.rs", "ax.reg_write_64(RAX, ax.state.syscalls.brk_start + new_length)?;",
   "ax.reg_write_64(RAX, ax.state.syscalls.brk_start + ax.state.syscalls.brk_length)?;")], "brk(p) returns base + the just-stored length")
b("b-c13-merged-refusal", "C13,C19", [("src/helpers/syscalls.rs", "if brk == 0 {", "if brk < ax.state.syscalls.brk_start {")],
  "query and below-base refusal merged into one early return (brk(0) is below any base)")
b("b-c14-drain-in-place", "C14,C19", [("src/helpers/syscalls.rs",
   "ax.state\n                .syscalls\n                .pipe_contents\n                .insert(fd, available_content[max_bytes as usize..].to_vec());",
   "if let Some(content) = ax.state.syscalls.pipe_contents.get_mut(&fd) {\n                content.drain(..max_bytes as usize);\n            }")],
  "pipe read shrinks the buffer in place")
b("b-c14-or-default", "C14", [("src/helpers/syscalls.rs",
   ".entry(write_end)\n                .and_modify(|content| content.extend_from_slice(&bytes))\n                .or_insert(bytes);",
   ".entry(write_end)\n                .or_default()\n                .extend_from_slice(&bytes);")], "pipe write via or_default().extend_from_slice")
b("b-c06-div64-early-test", "C06,C19,C01", [("src/instructions/div.rs",
   "if quotient > u64::MAX as u128 {\n            return Err(AxError::from(format!(\n                \"Divide error in Div_rm64: quotient {quotient:#x} does not fit into 64 bits\"\n            )));\n        }",
   "if (dst_val >> 64) >= src_val {\n            return Err(AxError::from(format!(\n                \"Divide error in Div_rm64: quotient {quotient:#x} does not fit into 64 bits\"\n            )));\n        }")],
  "DIV r/m64 range test on the high half of the dividend")
b("b-c07-high-byte-range", "C07,C01,C19", [("src/state/registers.rs", "let is_high = HIGHER_BYTE_REGISTERS.contains(&reg);",
   "let is_high = (Register::AH..=Register::BH).contains(&r);", True)], "high-byte test as a range over iced's encoding order (AH, CH, DH, BH)")
b("b-c15-page-const", "C15,C16", [("src/elf/elf.rs", "size.checked_add(0xfff).map(|s| s & !0xfff)",
   "{\n        const PAGE: u64 = 0x1000;\n        size.checked_add(PAGE - 1).map(|s| s & !(PAGE - 1))\n    }")], "page size as a named constant")
b("b-c15-div-rounding", "C15,C16", [("src/elf/elf.rs", "size.checked_add(0xfff).map(|s| s & !0xfff)",
   "size.checked_add(0xfff).map(|s| s / 0x1000 * 0x1000)")], "rounding by division")
b("b-c16-single-allocation", "C15,C16", [("src/elf/elf.rs",
   "axecutor.mem_init_zero_named(\n                            segment.p_vaddr,\n                            memsz,\n                            format!(\"elf_load_zeroed_header_{:#x}\", segment.p_vaddr),\n                        )?;\n",
   ""), ("src/elf/elf.rs",
   "axecutor.mem_write_bytes(\n                            segment.p_vaddr,\n                            &content[..segment.p_filesz as usize],\n                        )?;",
   "let mut data = vec![0u8; memsz as usize];\n                        if content.len() > data.len() {\n                            return Err(AxError::from(\"ELF: segment file size exceeds its memory size\"));\n                        }\n                        data[..content.len()].copy_from_slice(content);\n                        axecutor.mem_init_area_named(\n                            segment.p_vaddr,\n                            data,\n                            Some(format!(\"elf_load_zeroed_header_{:#x}\", segment.p_vaddr)),\n                        )?;")],
  "loader builds the zero-padded image in one vector, with the length guard")
b("b-c10-overlap-spelling", "C10,C13,C08", [("src/state/memory.rs", "if start.max(area.start) < end.min(area.start + area.length) {",
   "if !(end <= area.start || area.start + area.length <= start) && start < end && area.start < area.start + area.length {")],
  "overlap test spelled as the negated disjointness of two non-empty ranges")
b("b-c05-operand-order", "C05,C01", [("src/helpers/operand.rs",
   "addr = addr.wrapping_add(displacement);", "addr = displacement.wrapping_add(addr);")], "address sum commuted")
b("b-c01-shift-elide-16", "C01,C02,C06", [("src/helpers/macros.rs",
   "self.set_flags_u16(flags_to_set | flags, flags_to_clear, result);\n                if (flags_to_set & NO_WRITEBACK) == 0 {\n                    self.reg_write_16(r, result as u64)?;",
   "self.set_flags_u16(flags_to_set | flags, flags_to_clear, result);\n                if (flags_to_set & NO_WRITEBACK) == 0 && flags != crate::state::flags::FLAGS_UNAFFECTED {\n                    self.reg_write_16(r, result as u64)?;", True)],
  "16-bit helpers skip the register write-back when the operation left the flags (and the value) untouched")
b("b-c04-push-precompute", "C04,C19", [("src/instructions/push.rs", "let value = self.reg_read_64(reg)?;", "let value = self.reg_read_64(reg)?; let _unused = value;")],
  "no-op edit in PUSH r64")
b("b-msg-only", "C16,C19,C20", [("src/elf/elf.rs", "ELF: Content is larger than specified in segment header", "ELF: segment content larger than its header says")],
  "error text reworded")
b("b-rename-brk", "C13,C19,C20", [("src/helpers/syscalls.rs", "register_brk", "install_brk_hook", True)], "private registering function renamed")
b("b-rename-pipe", "C14,C19,C20", [("src/helpers/syscalls.rs", "register_pipe", "install_pipe_hooks", True)], "private registering function renamed")
b("b-rename-stack-impl", "C17,C10", [("src/state/memory.rs", "init_stack_program_start_impl", "build_entry_frame", True)], "private frame builder renamed")
m("c12-chain-finished", "C12", "src/state/hooks.rs", "if ax.state.finished || res == HookResult::Handled {", "if res == HookResult::Handled {", "C12.iterate", "the hook chain goes on after a hook stopped execution")
m("c12-chain-unhandled", "C12", "src/state/hooks.rs", "if ax.state.finished || res == HookResult::Handled {", "if ax.state.finished || res == HookResult::Unhandled {", "C12.iterate", "Unhandled ends the chain, Handled continues")
b("b-rename-hook-internals", "C11,C12,C03,C19,C20", [("src/state/hooks.rs", "run_functions", "run_chain", True), ("src/state/hooks.rs", "fn mnemonic_hooks", "fn hooks_for_mnemonic"), ("src/state/execute.rs", "self.mnemonic_hooks(", "self.hooks_for_mnemonic(", True),
   ("src/instructions/int1.rs", "self.mnemonic_hooks(", "self.hooks_for_mnemonic(", True), ("src/instructions/int3.rs", "self.mnemonic_hooks(", "self.hooks_for_mnemonic(", True),
   ("src/instructions/int.rs", "self.mnemonic_hooks(", "self.hooks_for_mnemonic(", True), ("src/instructions/syscall.rs", "self.mnemonic_hooks(", "self.hooks_for_mnemonic(", True)], "private hook helpers renamed")
b("b-rename-empty", "C11,C15,C16,C20,C09", [("src/axecutor.rs", "fn empty()", "fn blank()"), ("src/axecutor.rs", "Axecutor::empty()", "Axecutor::blank()", True), ("src/elf/elf.rs", "Axecutor::empty()", "Axecutor::blank()", True)], "private constructor helper renamed")

# ---------------------------------------------------------------- round 5: area list entries, loop variants
m("c10-unchecked-adder", "C10", "src/state/memory.rs",
  "    /// Set the access permissions of the memory area with the given start address.",
  "    /// Map `data` at `start` (fast path for callers that computed a free address themselves).\n    pub fn mem_map_fixed(&mut self, start: u64, data: Vec<u8>) -> Result<(), AxError> {\n        let len = data.len() as u64;\n        self.state.memory.push(MemoryArea { start, length: len, data, name: None, access: PROT_READ | PROT_WRITE });\n        Ok(())\n    }\n\n    /// Set the access permissions of the memory area with the given start address.",
  "C10.overlap", "a new public function adds an area without looking at the list")
m("c10-sorted-assumption", "C10", "src/state/memory.rs",
  "        for area in &self.state.memory {\n            // two half-open ranges share an address iff max(starts) < min(ends)\n            if start.max(area.start) < end.min(area.start + area.length) {",
  "        for area in &self.state.memory {\n            if area.start >= end {\n                // everything from here on lies above the new area\n                break;\n            }\n            // two half-open ranges share an address iff max(starts) < min(ends)\n            if start.max(area.start) < end.min(area.start + area.length) {",
  "C10.overlap", "the creation scan stops at the first area above the request although the list is not sorted")
b("b-c10-push-helper", "C10,C09,C08,C13,C19", [("src/state/memory.rs",
  "        self.state.memory.push(MemoryArea {\n            start,\n            length: len,\n            data,\n            name,\n            access: PROT_READ | PROT_WRITE,\n        });\n\n        debug_log!(\n            \"Initialized memory area{}",
  "        self.add_area(MemoryArea {\n            start,\n            length: len,\n            data,\n            name,\n            access: PROT_READ | PROT_WRITE,\n        });\n\n        debug_log!(\n            \"Initialized memory area{}"),
  ("src/state/memory.rs", "    /// Set the access permissions of the memory area with the given start address.",
   "    fn add_area(&mut self, area: MemoryArea) {\n        self.state.memory.push(area);\n    }\n\n    /// Set the access permissions of the memory area with the given start address.")],
  "the push moved into a private helper: the public creator is still the only way to it")
m("c19-continue-skips-increment", "C19", "src/helpers/trace.rs", "Err(_) => \"<decoding error>\".to_string(),", "Err(_) => continue,", "C19.loops",
  "a continue skips the hand-written loop increment")

b("b-c07-elided-identical-write", "C07,C01,C19,C20", [("src/state/registers.rs",
  "        // Intentionally cut off the upper 32bit, setting them to zero\n        let result_value = value as u32 as u64;\n",
  "        // Intentionally cut off the upper 32bit, setting them to zero\n        let result_value = value as u32 as u64;\n        if self.state.registers.get(qword_register) == Some(&result_value) {\n            // the whole 64-bit register already holds the zero-extended value\n            return Ok(());\n        }\n")],
  "a 32-bit write is skipped when the full register already equals the zero-extended value (the corrected form of seeded change S54)")
m("c07-elided-low-half-write", "C07", "src/state/registers.rs",
  "        // Intentionally cut off the upper 32bit, setting them to zero\n        let result_value = value as u32 as u64;\n",
  "        // Intentionally cut off the upper 32bit, setting them to zero\n        let result_value = value as u32 as u64;\n        if self.state.registers.get(qword_register).map(|v| *v as u32 as u64) == Some(result_value) {\n            return Ok(());\n        }\n",
  "C07.bits", "a 32-bit write is skipped when only the low half matches: the upper half survives")

b("b-c14-zero-count-after-lookup", "C14,C13,C12,C19,C20", [("src/helpers/syscalls.rs",
  "                // Maybe another hook will handle this fd\n                None => return Ok(HookResult::Unhandled),\n            };\n\n            debug_log!(\n                \"Running native read syscall for pipe with fd {}, buf {:#x}, count {}\",",
  "                // Maybe another hook will handle this fd\n                None => return Ok(HookResult::Unhandled),\n            };\n\n            if count == 0 {\n                // nothing is delivered and nothing leaves the pipe; the buffer is not looked at\n                ax.reg_write_64(RAX, 0)?;\n                return Ok(HookResult::Handled);\n            }\n\n            debug_log!(\n                \"Running native read syscall for pipe with fd {}, buf {:#x}, count {}\",")],
  "a zero-length read on a pipe end returns 0 early, after the descriptor was found (the corrected form of seeded change S55)")

m("c01-adc-imm8-zero-extended", "C01", "src/instructions/adc.rs", "calculate_rm_imm![u16f; self; i; |d:u16, s:u16| {\n            let result = (d as u32).wrapping_add(s as u32).wrapping_add(u32::from(flags & FLAG_CF != 0));",
  "calculate_rm_imm![u16f; u8; self; i; |d:u16, s:u8| {\n            let result = (d as u32).wrapping_add(s as u32).wrapping_add(u32::from(flags & FLAG_CF != 0));", "C01.ring",
  "the defect repaired by 00651a2 re-introduced: the imm8 of ADC r/m16 is zero-extended", nth=2)

m("c01-cdqe-switch-wrong-arm", "C01", "src/instructions/cdqe.rs", "let rax_value = self.reg_read_32(EAX)? as i32 as i64 as u64;",
  "let eax = self.reg_read_32(EAX)?;\n        let rax_value = (match eax >> 30 {\n            0 => 0,\n            _ => 0xFFFF_FFFF_0000_0000u64,\n        }) | eax;", "C01.extend",
  "CDQE written as a switch on the shifted value (the form of benign C07-2-q3) but testing bits 30 and 31 instead of the sign bit alone")

m("c01-cqo-is-negative-inverted", "C01", "src/instructions/cqo.rs", "let rdx = if rax & 0x8000_0000_0000_0000 == 0 {",
  "let rdx = if (rax as i64).is_negative() {", "C01.extend",
  "CQO through i64::is_negative (the form of benign C01-3-q1) with the two fills swapped")

m("c04-pop-r16-padded-load-wrong-width", "C04", "src/instructions/pop.rs", "let value = self.mem_read_16(rsp)?;",
  "let bytes = self.mem_read_bytes(rsp, 4)?;\n        let mut qword = [0u8; 8];\n        qword[..bytes.len()].copy_from_slice(&bytes);\n        let value = u64::from_le_bytes(qword) & 0xFFFF;", "C04.slot",
  "POP r16 through a constant-length byte load (the form of benign C09-3-q3) that fetches 4 bytes instead of 2: faults near the end of an area where the architectural load does not")
