#!/usr/bin/env python3
"""E4: run the mutant corpus (selftest/mutants.py) against scratch copies of /repo.

usage: python3 selftest/run.py [--only id,id] [--lanes N] [--props C01,C02]
For each mutant: copy /repo's sources to a scratch dir outside /repo and /verif, apply the replacement, extract
facts (AX_REPO=<scratch>, own cache lane), run the property's check with evidence redirected to the scratch dir,
require exit 1 and a VIOLATION naming the expected rule. A mutant that does not compile is reported as `nocompile`
(an authoring problem of the mutant, not of the checker). Scratch dirs and lane caches are removed on exit.
Never runs the emulator or its tests.
"""
import argparse
import concurrent.futures
import json
import os
import re
import shutil
import subprocess
import sys
import tempfile

HERE = os.path.dirname(os.path.abspath(__file__))
VERIF = os.path.dirname(HERE)
sys.path.insert(0, HERE)
from mutants import M  # noqa
import glob as _glob
for _p in sorted(_glob.glob(os.path.join(HERE, "benign", "*.diff"))):
    _n = os.path.basename(_p)[:-5]
    M.append(dict(id="bd-" + _n, prop=_n.split("-")[0], patch=_p, rule="SILENT", note="independently written refactoring", file="", old="", new="", nth=1))

REPO = os.environ.get("AX_REPO", "/repo")


def copy_tree(dst):
    os.makedirs(dst)
    for n in ("Cargo.toml", "Cargo.lock"):
        shutil.copy(os.path.join(REPO, n), os.path.join(dst, n))
    shutil.copytree(os.path.join(REPO, "src"), os.path.join(dst, "src"))


def run_mutant(mu, lane_dir):
    scratch = tempfile.mkdtemp(prefix="axmut-%s-" % mu["id"], dir=lane_dir)
    tree = os.path.join(scratch, "tree")
    try:
        copy_tree(tree)
        if mu.get("patch"):
            r = subprocess.run(["git", "apply", mu["patch"]], cwd=tree, capture_output=True, text=True)
            if r.returncode != 0:
                return mu["id"], "stale", "patch does not apply: " + r.stderr[-200:]
        elif mu.get("edits"):
            for ed in mu["edits"]:
                p = os.path.join(tree, ed[0])
                s = open(p).read()
                if ed[1] not in s:
                    return mu["id"], "stale", "pattern not found in %s: %s" % (ed[0], ed[1][:40])
                s = s.replace(ed[1], ed[2]) if (len(ed) > 3 and ed[3]) else s.replace(ed[1], ed[2], 1)
                open(p, "w").write(s)
        else:
            p = os.path.join(tree, mu["file"])
            s = open(p).read()
            if mu["old"] not in s:
                return mu["id"], "stale", "pattern not found in %s" % mu["file"]
            idx = -1
            for _ in range(mu["nth"]):
                idx = s.index(mu["old"], idx + 1)
            s = s[:idx] + mu["new"] + s[idx + len(mu["old"]):]
            open(p, "w").write(s)
        env = dict(os.environ)
        env["AX_REPO"] = tree
        env["AX_CACHE"] = os.path.join(lane_dir, "cache")
        env["AX_EVIDENCE_DIR"] = os.path.join(scratch, "evidence")
        if mu["rule"] == "SILENT":
            alarms = []
            for prop in mu["prop"].split(","):
                r = subprocess.run([sys.executable, "-m", "axcheck_py", prop], cwd=VERIF, env=env, capture_output=True, text=True)
                out = r.stdout + r.stderr
                if r.returncode == 2:
                    if "does not build" in out or "extraction failed" in out:
                        return mu["id"], "nocompile", out[-300:]
                    return mu["id"], "broken", out[-600:]
                if r.returncode != 0:
                    alarms += ["%s:%s" % (prop, x) for x in re.findall(r"rule=(\S+ instance=\S+)", out)][:3]
            return (mu["id"], "FALSE-ALARM", alarms) if alarms else (mu["id"], "silent-ok", "")
        r = subprocess.run([sys.executable, "-m", "axcheck_py", mu["prop"]], cwd=VERIF, env=env, capture_output=True, text=True)
        out = r.stdout + r.stderr
        if r.returncode == 2:
            if "does not build" in out or "extraction failed" in out:
                return mu["id"], "nocompile", out[-300:]
            return mu["id"], "broken", out[-600:]
        rules = re.findall(r"rule=(\S+)", out)
        if r.returncode == 1 and any(x.startswith(mu["rule"]) for x in rules):
            return mu["id"], "caught", sorted(set(rules))
        if r.returncode == 1:
            return mu["id"], "caught-other", sorted(set(rules))
        return mu["id"], "MISSED", out[-300:]
    finally:
        shutil.rmtree(scratch, ignore_errors=True)


def main():
    ap = argparse.ArgumentParser()
    ap.add_argument("--only", default="")
    ap.add_argument("--props", default="")
    ap.add_argument("--lanes", type=int, default=4)
    ap.add_argument("--benign", action="store_true", help="only the behaviour-preserving variants")
    ap.add_argument("--no-diffs", action="store_true", help="skip the diff-based variants under selftest/benign")
    a = ap.parse_args()
    sel = [mu for mu in M if (not a.only or mu["id"] in a.only.split(",")) and
           (not a.props or set(mu["prop"].split(",")) & set(a.props.split(",")))]
    if a.benign:
        sel = [mu for mu in sel if mu["rule"] == "SILENT"]
    if a.no_diffs:
        sel = [mu for mu in sel if not mu.get("patch")]
    base = tempfile.mkdtemp(prefix="axselftest-")
    results = {}
    try:
        lanes = [os.path.join(base, "lane%d" % i) for i in range(a.lanes)]
        for l in lanes:
            os.makedirs(l)
        # lane-affine scheduling: a lane runs one mutant at a time (cargo locks the target dir)
        chunks = [sel[i::a.lanes] for i in range(a.lanes)]

        def work(i):
            out = []
            for mu in chunks[i]:
                out.append(run_mutant(mu, lanes[i]))
                print("%-22s %-4s %-12s %s" % (out[-1][0], [x for x in sel if x["id"] == out[-1][0]][0]["prop"], out[-1][1],
                                             out[-1][2] if out[-1][1] not in ("caught", "silent-ok") else ""), flush=True)
            return out
        with concurrent.futures.ThreadPoolExecutor(a.lanes) as ex:
            for res in ex.map(work, range(a.lanes)):
                for r in res:
                    results[r[0]] = r
    finally:
        shutil.rmtree(base, ignore_errors=True)
    summary = {}
    for r in results.values():
        summary[r[1]] = summary.get(r[1], 0) + 1
    print("summary:", json.dumps(summary))
    with open(os.path.join(HERE, "last_run.json"), "w") as fh:
        json.dump({k: [v[1], v[2] if isinstance(v[2], list) else str(v[2])[:200]] for k, v in sorted(results.items())}, fh, indent=1)
    return 0 if not any(r[1] in ("MISSED", "broken", "FALSE-ALARM") for r in results.values()) else 1


if __name__ == "__main__":
    sys.exit(main())
