#!/usr/bin/env python3
"""Authoring helper: writes MANIFEST.json from the table below (never run by a check)."""
import json
import os

HERE = os.path.dirname(os.path.abspath(__file__))

TRUST = ("rustc nightly's MIR construction/type check for the host target, dev profile; Instance::try_resolve; "
         "iced-x86 1.21.0 static tables (the version /repo decodes with); the std summaries listed in DESIGN.md "
         "appendix A; wasm32-only items are not analysed (listed in coverage.unanalysed_cfg_items)")

CHECKS = {
    "C03": dict(
        category="other",
        text=("Static decision of the control-transfer clauses: every implemented, decoder-producible Jcc handler is "
              "abstractly interpreted under all 64 CF/PF/AF/ZF/SF/OF classes and must store RIP exactly under the "
              "architectural condition (iced condition_code + SDM truth table); JRCXZ/JECXZ guards, the provenance of the "
              "value stored to RIP (near_branch64 / operand register / memory slot), emptiness of the not-taken path, "
              "`RIP := next_ip` dominating dispatch in step, and the frozen set of branch forms. Exhaustive over the finite "
              "flag domain; guest values stay symbolic, so the verdict holds for all displacements/targets."),
        design_ref="§5 C03",
        technique="abstract interpretation of MIR per flag class (64 classes x handler) + dominator check on step; oracle: iced-x86 tables",
    ),
}

NOT_YET = "rules for this property are designed (DESIGN.md §5) but not implemented yet in this round"

NOT_APPLICABLE = {
}

ALL = ["C%02d" % i for i in range(1, 21)]


def main():
    checks = []
    for pid in ALL:
        c = CHECKS.get(pid)
        if not c:
            continue
        checks.append({
            "property_id": pid,
            "quick_cmd": "./axcheck %s --tier quick" % pid,
            "thorough_cmd": "./axcheck %s --tier thorough" % pid,
            "evidence_file": "/verif/evidence/%s.json" % pid,
            "replay_cmd_template": "./axcheck %s --replay {path}" % pid,
            "engine": "axcheck",
            "level_claimed": {"category": c["category"], "text": c["text"], "design_ref": c["design_ref"]},
            "level_note": c.get("note", TRUST),
            "technique": c["technique"],
        })
    na = []
    for pid in ALL:
        if pid in CHECKS:
            continue
        na.append({"property_id": pid, "reason": NOT_APPLICABLE.get(pid, NOT_YET)})
    m = {
        "version": 1,
        "setup_cmd": "./setup.sh",
        "hooks": {
            "guard": "ax_verif",
            "enable": "none needed: the rustc_private MIR driver (tools/axfacts) sees private items; checks run "
                      "`cargo +nightly check --offline --lib --bins` on /repo with RUSTC_WORKSPACE_WRAPPER=axfacts",
            "baseline_off_cmd": "cd /repo && cargo test --workspace --no-fail-fast --offline",
            "source_commits": [],
            "add_only": True,
        },
        "engines": [
            {"name": "axfacts", "path": "tools/axfacts", "serves_properties": sorted(CHECKS),
             "kind_free_text": "rustc_private driver dumping borrowck-phase MIR, resolved callees, types, spans and macro back-traces as JSON"},
            {"name": "axoracle", "path": "tools/axoracle", "serves_properties": sorted(CHECKS),
             "kind_free_text": "dumps iced-x86 1.21.0 static tables (operand kinds, rflags sets, condition codes, implicit registers, stack increments); executes nothing"},
            {"name": "axcheck", "path": "axcheck_py", "serves_properties": sorted(CHECKS),
             "kind_free_text": "Python static analyses over the facts: call graph, dominators, path-partitioned abstract interpretation with symbolic terms, bit provenance, order-type enumeration, panic-site inventory"},
        ],
        "checks": checks,
        "not_applicable": na,
        "notes": "Family: static analysis. Every check re-extracts facts from /repo's current working tree (content-hashed cache under /verif/.cache). "
                 "Known genuine defects are listed in known_findings.json and printed as KNOWN-FINDING lines.",
    }
    with open(os.path.join(HERE, "MANIFEST.json"), "w") as fh:
        json.dump(m, fh, indent=1)
    print("MANIFEST.json: %d checks, %d not_applicable" % (len(checks), len(na)))


if __name__ == "__main__":
    main()
