#!/usr/bin/env python3
"""Authoring helper: writes MANIFEST.json from the table below (never run by a check)."""
import json
import os

HERE = os.path.dirname(os.path.abspath(__file__))

TRUST = ("rustc nightly's MIR construction/type check for the host target, dev profile; Instance::try_resolve; "
         "iced-x86 1.21.0 static tables (the version /repo decodes with); the std summaries listed in DESIGN.md "
         "appendix A; wasm32-only items are not analysed (listed in coverage.unanalysed_cfg_items)")

AI = "path-partitioned abstract interpretation of borrowck-phase MIR (symbolic terms, per-class constant propagation, bit provenance)"

CHECKS = {
    "C01": dict(category="other", design_ref="§5 C01",
        text=("Structural necessary conditions of correct results, decided for every implemented, decoder-producible form x operand "
              "shape: the frozen form set and the three sibling mnemonic tables; a success path for every shape the decoder can produce; "
              "operand/implicit-register write sets, accessor widths and fixed registers against iced-x86's tables; CMOVcc/SETcc under all "
              "64 flag classes; immediate table of the operand builder; shifted amount for all 256 counts; zero/sign extension by bit "
              "provenance; the low four result bits of 278 ring-operation forms for all operand values (congruence abstraction, 256 "
              "residue pairs each). Not decided: carries and the upper result bits inside the result closures."),
        technique=AI + "; congruence abstraction mod 2^4; oracle: iced-x86 static tables; exhaustive finite classes (64 flag classes, 256 shift counts)"),
    "C02": dict(category="other", design_ref="§5 C02",
        text=("Per implemented form and flag: definitely written / constant / untouched exactly as iced-x86's rflags tables say, joined "
              "over all success paths; the flag setters' transfer functions are derived from their own MIR for every mask pair in use; "
              "rflags bits a handler depends on are within rflags_read; all 256 shift counts are evaluated for flag neutrality of a "
              "masked-zero count; ZF/SF/PF of every setter for all 256 result bytes x upper-bit classes; the value handed to the setter is "
              "the value written (CMP/TEST: congruent to d-s / d&s); MUL/IMUL CF=OF per class of the 2N-bit product (all-equal top bits "
              "and every single-bit deviation). CF/OF of the additive instructions (ADD ADC SUB SBB CMP NEG INC DEC, 88 forms) are evaluated with the "
              "operands fixed at the points where carries and signed overflows begin and end (0, 1, max, min, -1; both carry-ins) "
              "and compared with the architectural definition: exhaustive for the classes the architecture distinguishes, not for an "
              "implementation that goes wrong strictly inside a class. Not decided: AF, and CF/OF strictly inside a class."),
        technique=AI + " composed with flag-setter summaries; per-class evaluation of the handlers' product tests; oracle: iced-x86 rflags tables"),
    "C03": dict(category="other", design_ref="§5 C03",
        text=("Every implemented, decoder-producible Jcc handler is interpreted under all 64 CF/PF/AF/ZF/SF/OF classes and must store "
              "RIP exactly under the architectural condition; JRCXZ/JECXZ per representative value of RCX (zero, half-zero, single bits); provenance of the value stored to RIP; emptiness of "
              "the not-taken path; `RIP := next_ip` dominating dispatch in step; the frozen set of branch forms. Exhaustive over the "
              "finite flag domain; guest values stay symbolic."),
        technique="abstract interpretation of MIR per flag class (64 x handler) + dominators on the step coroutine; oracle: iced-x86 condition codes"),
    "C04": dict(category="other", design_ref="§5 C04",
        text=("For every PUSH/POP/CALL/RET form and shape: each stack access is at the architectural offset from the entry RSP and of "
              "the architectural size (iced used_memory), RSP moves by stack_pointer_increment, CALL stores the return address, no other "
              "store happens, RET's sentinel compares the slot it reads and the normal-finish signal is raised only where that comparison "
              "holds. Offsets are decided symbolically in an affine normal form, so "
              "the verdict holds for all RSP values. The pinned one-slot shift is reported as 13 known findings."),
        technique=AI + " + affine normal form of addresses; oracle: iced-x86 stack tables"),
    "C05": dict(category="other", design_ref="§5 C05",
        text=("mem_addr's result term equals base + index*scale + displacement (+fs|gs) for 78 (address-size class, presence, segment) "
              "classes, wrapping at 2^64 / 2^32; every 64-bit and 32-bit GPR in base and index position yields an address; the operand "
              "builder copies iced's fields one for one (incl. RIP/EIP -> no base); LEA writes the truncated address and ignores segment bases."),
        technique=AI + " with term normalisation of wrapping sums; per-register-class enumeration"),
    "C06": dict(category="other", design_ref="§5 C06",
        text=("Per fault class: zero-divisor test before every Div/Rem; DIV/IDIV interpreted per class of the quotient (fits / too large / "
              "below, boundary points and halves; high half vs divisor for DIV): a fitting class has a success path, a non-fitting one "
              "none; every failing guest memory access makes the handler return that error (all handlers x shapes); alignment-checking "
              "16-byte operands interpreted for all 16 residues of the address; no abort for any decoder-producible shape, any value-dependent assertion in a "
              "result closure, or any of the 256 shift counts. Not decided: whether a given dividend/address faults."),
        technique=AI + " with fault-forking accessor summaries and a comparison oracle per quotient / residue class; exhaustive shift-count sweep"),
    "C07": dict(category="proof", design_ref="§5 C07",
        text=("For each of the 8 GPR accessors and each of the 68 register views (+RIP) the stored / returned word is computed as a bit "
              "provenance vector over (old parent value, argument) and must equal the architectural vector (on paths that store nothing: the entry value, modulo the bit equalities the "
              "path established); the range guard precedes the store; out-of-range values and wrong-width registers (all 86 variants x 8 accessors) end in a by-design rejection "
              "without any store; the lazy_static register tables and both From impls are evaluated from MIR and compared with iced's "
              "register table. Every obligation is discharged by exhaustive enumeration of a finite domain; HashMap semantics are trusted."),
        technique="bit-provenance abstract interpretation (A6) of the accessors' MIR over all registers; table evaluation of lazy_static initialisers"),
    "C08": dict(category="other", design_ref="§5 C08",
        text=("Order-type enumeration (all weak orderings of address, address+len, area.start, area.end) shows the raw accessors touch "
              "area bytes only inside the area and serve every in-range request; no error exit after the first store; typed accessors "
              "agree with the byte store by bit provenance over byte tuples (byte i = bits 8i..8i+7, count N/8, caller's address); no unguarded overflow-checked arithmetic on API parameters or "
              "area fields (with the area-end invariant proven at both lifecycle functions); length == data.len() at every construction "
              "and on the final values of every successful resize."),
        technique="order-type enumeration (A7) + abstract interpretation of MIR + overflow-site triage (A9)"),
    "C09": dict(category="proof", design_ref="§5 C09",
        text=("3 raw accessors x 8 permission masks: area bytes are touched iff the mask has READ/WRITE/EXEC (exhaustive); a denied "
              "access returns Err and touches nothing; only the gated accessors, lifecycle functions, mem_prot and the renderer project "
              "MemoryArea.data/.access (who-may-touch over all MIR bodies, field privacy); constructor and ELF loader apply R|X / "
              "elf_flags_to_prot(p_flags) on every path (the constructor by the final mask of the pushed code area, the loader by the "
              "interpreted paths shared with C15); elf_flags_to_prot is the R/W/X permutation for all 8 inputs x every other p_flags "
              "bit; mem_prot stores only the matching area's mask after the <=7 guard; a resize keeps the area's mask."),
        technique="abstract interpretation per permission mask (A4) + who-may-touch over resolved MIR places (A1) + must-pass-through on the loader CFG"),
    "C10": dict(category="other", design_ref="§5 C10",
        text=("Order-type enumeration over (new.start, new.end, old.start, old.end): creation passes only disjoint requests, resize "
              "passes exactly the disjoint ones and never rejects the area itself; the same over exact one- and two-area lists walked in "
              "order from every public function that reaches an area-adding function (a colliding area is found wherever it sits; the "
              "empty twin of an area is never grown over it); a search for a free range gives up only after a probe; only lifecycle functions mutate the area list; the "
              "retry loops have a strictly progressing variant; per size class (new <, =, > old) a successful resize changes exactly one "
              "area to old[..min] ++ zeros with length = requested size, a refused resize changes nothing; 'anywhere' allocators "
              "return the start they created."),
        technique="order-type enumeration (A7) over MIR interpretation, single generic area and exact short lists; byte-sequence normal forms for the resize; loop-variant argument on paths (A12); who-may-write (A1)"),
    "C11": dict(category="other", design_ref="§5 C11",
        text=("The step coroutine is interpreted with decode/dispatch/hooks as primitives (all paths): finished/limit guards precede any "
              "effect, proceed <=> count < limit (3 orderings), exactly one count increment after dispatch on continuing paths, "
              "RIP := next_ip once before hooks and dispatch, finished set exactly under RIP == code_end_addr (post-instruction) or the "
              "normal-finish signal, Ok(!finished) returned; writers of `finished` and of the finish signal are confined; execute is "
              "`while step().await? {}`. Not decided: equality of whole runs."),
        technique="abstract interpretation of the borrowck-phase coroutine MIR of step/execute; who-may-write over all bodies"),
    "C12": dict(category="other", design_ref="§5 C12",
        text=("On every path of step with hooks: before-runner completes before dispatch, after-runner after it, each started once, "
              "looked up with the decoded mnemonic; hook errors fail the step; the registration API's vector is the one the runner "
              "iterates for that phase; per class of the hook result {Handled, Unhandled, Err} x {finished or not} the chain ends or goes "
              "on as specified; the runner leaves hooks.running false on every exit; registration is refused while running. "
              "wasm32-only JS hooks are not analysed."),
        technique="abstract interpretation of the step and hook-runner coroutine MIR; typestate on hooks.running"),
    "C13": dict(category="other", design_ref="§5 C13",
        text=("The brk hook closure (found by the syscall number it selects) is interpreted for the 8 classes {first use, heap exists} x "
              "{p=0, 0<p<base, p=base, p>base} with a comparison oracle: acts only for RAX == 12; p=0 returns base+length without "
              "resizing; p>=base resizes (base, p-base) exactly once, returns p (affine equality), updates the length only after a "
              "successful resize; first use allocates through the non-overlapping allocator; the resize primitive accepts growth of the heap area (A7). "
              "Not decided: heap contents over histories."),
        technique=AI + " of the hook closure per order class (comparison oracle) + affine normal form; shares C10's order enumeration"),
    "C14": dict(category="other", design_ref="§5 C14",
        text=("The per-call transfer functions of the three pipe closures, decided over an abstract model of the descriptor maps and of "
              "byte vectors (segment normal forms): read (per class count <, =, > available) delivers B[..m], leaves B[m..] under the "
              "same key and returns m; write leaves B ++ guest bytes (or the guest bytes) under write_ends[fd] and returns count; "
              "pipe() creates inverse end entries, an empty buffer and hands [R, W] to the guest; a failing guest memory access leaves "
              "every map entry as it was; a zero-length transfer changes nothing; other syscalls / descriptors are left "
              "Unhandled with nothing touched. FIFO order over interleavings follows by induction, which is not mechanised."),
        technique=AI + " of the hook closures over abstract maps and byte-sequence normal forms, with a comparison oracle per count class"),
    "C15": dict(category="other", design_ref="§5 C15",
        text=("from_binary is interpreted with the elf crate and the memory API as primitives: RIP := e_entry; PT_LOAD areas at p_vaddr "
              "hold, as a byte-sequence expression, segment_data(segment) over a zero base sized from p_memsz only (or the file bytes "
              "alone when the rounded p_memsz is tied to p_filesz); the rounded size lies in [p_memsz, next page] for all 4096 residues; "
              "mem_prot(p_vaddr, permutation of p_flags) evaluated per class of p_flags; headers that are not PT_LOAD change nothing they "
              "did not create; symbols keyed by st_value, named by strtab.get(st_name), undefined skipped. "
              "Byte equality of the image for all files is declined."),
        technique=AI + " of the loader with header fields as symbolic leaves"),
    "C16": dict(category="other", design_ref="§5 C16",
        text=("Crash/allocation surface of the loader over all its paths: no class-X abort; no unguarded overflow-checked arithmetic on "
              "a header field; every slice / copy bound is tied to the length it indexes on the path; every header-derived allocation "
              "size is dominated by a bounding comparison; only iterator loops. "
              "Assumes the elf crate's parsers return errors rather than panic."),
        technique=AI + " with header-field taint + overflow-site triage (A9) + loop classification (A12)"),
    "C17": dict(category="other", design_ref="§5 C17",
        text=("Layout order argc, argv*, 0, envp*, 0; NUL-terminated copies through the allocator; alignment test before the RSP "
              "store; slot convention and space below RSP by affine comparison (two known findings inherited from C04); an occupied "
              "candidate address never aborts the initialisation; the searches for the string areas and the stack area give up only "
              "after a probe. The layout rules apply to frames built by pushing to a vector (undecided otherwise). "
              "Success for every list length is declined."),
        technique=AI + " with precise loop unrolling before widening + affine normal form"),
    "C18": dict(category="other", design_ref="§5 C18",
        text=("Every control-flow handler records exactly one trace entry of the matching variant with the value it stores to RIP "
              "(CALL pushes, RET pops the call stack; untaken and faulting transfers record nothing); add_trace's level/run-length bookkeeping for all 12 "
              "(new, last) variant classes; renderers contain no signed->usize cast feeding an allocation without a guard and no "
              "unguarded overflow check on the nesting level or on a vector length in trace()/call_stack() (path triage). Text equality "
              "with a golden rendering is declined."),
        technique=AI + " per variant class; MIR dataflow for signed-cast allocation sinks over the renderer cone"),
    "C19": dict(category="other", design_ref="§5 C19",
        text=("Inventory form: all diverging sites in the cone of step (769 bodies) are classified by macro back-trace (by-design "
              "rejection / debug assertion / overflow check / crash); path analyses of every handler x shape, the 256 shift counts, "
              "the address computation for every base/index register, the memory accessors, the decoder front end, the trace "
              "recorder, the renderers and the built-in syscall hooks must report no evidently failing site outside the known "
              "findings; every slice/index/copy site of the cone is inside a bounds-analysed accessor or has its bound tied to the "
              "indexed length on every path; debug assertions agree with dispatch; no free loop without a variant. Host stack/allocation failure is declined."),
        technique="panic-site inventory over the call-graph cone (A1/A9) + the path analyses of C01/C05/C06/C08/C18 re-run for crashes"),
    "C20": dict(category="other", design_ref="§5 C20",
        text=("No nondeterminism source other than the documented ones can reach state, traces or error texts: callers of rand are "
              "exactly the two seeding functions (feeding only registers/xmm_registers, called only by the constructor) and the pipe() "
              "hook; RandomState map iteration only in the debug renderers, outside the observable cone (which follows formatting arguments to "
              "the crate's own fmt impls); no time/env/pid/address source and no thread-local / static mutable state; "
              "every handler reads only its operands and architecturally implicit registers, step and the cone that builds error texts "
              "and traces read only RIP. "
              "Equality of two whole runs is declined."),
        technique="nondeterminism-source taint over the resolved call graph (A11) + register-read sets from abstract interpretation vs iced-x86 implicit registers"),
}

NOT_YET = "rules for this property are designed (DESIGN.md §5) but not implemented yet in this round"

NOT_APPLICABLE = {
}

ALL = ["C%02d" % i for i in range(1, 21)]


def main():
    checks = []
    for pid in ALL:
        c = CHECKS.get(pid)
        if not c:
            continue
        checks.append({
            "property_id": pid,
            "quick_cmd": "./axcheck %s --tier quick" % pid,
            "thorough_cmd": "./axcheck %s --tier thorough" % pid,
            "evidence_file": "/verif/evidence/%s.json" % pid,
            "replay_cmd_template": "./axcheck %s --replay {path}" % pid,
            "engine": "axcheck",
            "level_claimed": {"category": c["category"], "text": c["text"], "design_ref": c["design_ref"]},
            "level_note": c.get("note", TRUST),
            "technique": c["technique"],
        })
    na = []
    for pid in ALL:
        if pid in CHECKS:
            continue
        na.append({"property_id": pid, "reason": NOT_APPLICABLE.get(pid, NOT_YET)})
    m = {
        "version": 1,
        "setup_cmd": "./setup.sh",
        "hooks": {
            "guard": "ax_verif",
            "enable": "none needed: the rustc_private MIR driver (tools/axfacts) sees private items; checks run "
                      "`cargo +nightly check --offline --lib --bins` on /repo with RUSTC_WORKSPACE_WRAPPER=axfacts",
            "baseline_off_cmd": "cd /repo && cargo test --workspace --no-fail-fast --offline",
            "source_commits": [],
            "add_only": True,
        },
        "engines": [
            {"name": "axfacts", "path": "tools/axfacts", "serves_properties": sorted(CHECKS),
             "kind_free_text": "rustc_private driver dumping borrowck-phase MIR, resolved callees, types, spans and macro back-traces as JSON"},
            {"name": "axoracle", "path": "tools/axoracle", "serves_properties": sorted(CHECKS),
             "kind_free_text": "dumps iced-x86 1.21.0 static tables (operand kinds, rflags sets, condition codes, implicit registers, stack increments); executes nothing"},
            {"name": "axcheck", "path": "axcheck_py", "serves_properties": sorted(CHECKS),
             "kind_free_text": "Python static analyses over the facts: call graph, dominators, path-partitioned abstract interpretation with symbolic terms, bit provenance, order-type enumeration, panic-site inventory"},
        ],
        "checks": checks,
        "not_applicable": na,
        "notes": "Family: static analysis. Every check re-extracts facts from /repo's current working tree (content-hashed cache under /verif/.cache). "
                 "Known genuine defects are listed in known_findings.json and printed as KNOWN-FINDING lines.",
    }
    with open(os.path.join(HERE, "MANIFEST.json"), "w") as fh:
        json.dump(m, fh, indent=1)
    print("MANIFEST.json: %d checks, %d not_applicable" % (len(checks), len(na)))


if __name__ == "__main__":
    main()
