"""A7: order-type enumeration for the comparison-only guards of the memory API.

The guards of the area lookups / overlap scans touch their operands only through
< <= == >= >. For the four endpoint roles involved every weak ordering consistent
with the axioms is enumerated; under an ordering every comparison is a constant,
so the interpreter (A4) decides which exit is taken. Arithmetic overflow of the
`+` inside an endpoint is not modelled here (that is C08.total / A9).
"""
from . import absint as A
from . import hutil as U

AREA_ROOT = ("H", "area")
AREA = ("init", "area", 0)


def area_ref(mut=False):
    return ("ref", (AREA_ROOT, ()), mut)


def weak_orderings(items):
    """all ordered set partitions of items: list of dict item -> rank"""
    items = list(items)
    if not items:
        return [{}]
    out = []
    first, rest = items[0], items[1:]
    for o in weak_orderings(rest):
        nranks = (max(o.values()) + 1) if o else 0
        # join an existing class
        for r in range(nranks):
            d = dict(o)
            d[first] = r
            out.append(d)
        # new class at position p (shifting)
        for p in range(nranks + 1):
            d = {k: (v + 1 if v >= p else v) for k, v in o.items()}
            d[first] = p
            out.append(d)
    return out


def fmt_order(o):
    by = {}
    for k, v in o.items():
        by.setdefault(v, []).append(k)
    return " < ".join("=".join(sorted(by[r])) for r in sorted(by))


def strip_all(t):
    while t[0] in ("w", "cast"):
        t = t[1]
    return t


def is_area_field(t, name):
    t = strip_all(t)
    if name == "length" and t[0] == "len" and len(t) == 2 and isinstance(t[1], tuple):
        # data.len() of the area: its length (the invariant length == data.len() is C08.invariant's obligation)
        d_ = strip_all(t[1])
        while d_[0] in ("deref", "w") and isinstance(d_[1], tuple):
            d_ = d_[1]
        if d_[0] == "field" and d_[2] == "data":
            return is_area_field(("field", d_[1], "length"), "length")
    if t[0] != "field" or t[2] != name:
        return False
    b = t[1]
    while b[0] in ("deref", "vfield", "w"):
        b = b[1]
    return b == AREA or (b[0] == "ret" and "next" in b[1]) or b[0] in ("elem",)


class EndpointRoles:
    """maps terms to endpoint roles; `point` / `extent` are the leaves of the request."""

    def __init__(self, point, extent_terms):
        self.point = point          # leaf of the requested start
        self.extents = extent_terms  # stripped terms acceptable as the requested length

    def role(self, t):
        t = strip_all(t)
        if t == self.point:
            return "ns"
        if is_area_field(t, "start"):
            return "os"
        if t[0] == "bin" and t[1] == "Add":
            a, b = strip_all(t[2]), strip_all(t[3])
            if a == self.point and self.is_extent(b):
                return "ne"
            if is_area_field(a, "start") and is_area_field(b, "length"):
                return "oe"
        return None

    def is_extent(self, b):
        return any(b == e for e in self.extents)

    ROLE_VECS = {"ns": {"P": 1}, "ne": {"P": 1, "E": 1}, "os": {"S": 1}, "oe": {"S": 1, "L": 1}}

    def difference_roles(self, a, b):
        """(x, y) with a - b == role x - role y as affine forms over the four leaves (request start P, request length
        E, area start S, area length L), e.g.  len  vs  area_end - address  is  ne  vs  oe. Wrap-around of the
        subtractions is not modelled here (overflow checks are C08.total's)."""
        d = U.affine_norm(("bin", "Sub", a, b, 64))
        off = d[1] if d[1] < (1 << 63) else d[1] - (1 << 64)
        if off not in (0, 1, -1):
            return None
        vec = {}
        for leaf, c in d[0].items():
            l = strip_all(leaf)
            if l == self.point:
                k = "P"
            elif self.is_extent(l):
                k = "E"
            elif is_area_field(l, "start"):
                k = "S"
            elif is_area_field(l, "length"):
                k = "L"
            else:
                return None
            vec[k] = vec.get(k, 0) + c
        vec = {k: v for k, v in vec.items() if v}
        for x, vx in self.ROLE_VECS.items():
            for y, vy in self.ROLE_VECS.items():
                if x == y:
                    continue
                diff = dict(vx)
                for k, v in vy.items():
                    diff[k] = diff.get(k, 0) - v
                diff = {k: v for k, v in diff.items() if v}
                if diff == vec:
                    return (x, y) if off == 0 else (x, y, off)
        return None


def make_cmp_oracle(roles, unroled):
    def oracle(path, op, a, b):
        o = path.tags.get("order")
        if o is None:
            return None
        ra, rb = roles.role(a), roles.role(b)
        if ra is None or rb is None:
            dr = roles.difference_roles(a, b) if hasattr(roles, "difference_roles") else None
            if dr is not None and len(dr) == 3 and all(r in o for r in dr[:2]):
                # a - b = (X - Y) + c with c = +-1 over the integers: decided where the sign of X - Y settles it
                x_, y_, c_ = o[dr[0]], o[dr[1]], dr[2]
                sgn = (x_ > y_) - (x_ < y_)
                if c_ == -1:
                    tab = {"Lt": 1 if sgn <= 0 else None, "Le": 1 if sgn <= 0 else None, "Gt": 0 if sgn <= 0 else None,
                           "Ge": int(sgn > 0), "Eq": 0 if sgn <= 0 else None, "Ne": 1 if sgn <= 0 else None}
                    tab["Lt"] = int(sgn <= 0)
                else:
                    tab = {"Lt": 0 if sgn >= 0 else None, "Le": int(sgn < 0), "Gt": int(sgn >= 0), "Ge": 1 if sgn >= 0 else None,
                           "Eq": 0 if sgn >= 0 else None, "Ne": 1 if sgn >= 0 else None}
                return tab[op]
            if dr is not None and len(dr) == 2 and all(r in o for r in dr):
                ra, rb = dr
            else:
                if ra is not None or rb is not None:
                    unroled.append((op, A.show(a), A.show(b)))
                return None
        x, y = o[ra], o[rb]
        return int({"Eq": x == y, "Ne": x != y, "Lt": x < y, "Le": x <= y, "Gt": x > y, "Ge": x >= y}[op])
    return oracle


class MemPrims:
    """Summaries for the iterator idioms of the memory API."""

    def __init__(self, facts, extra=None):
        self.F = facts
        self.extra = extra

    def intercept(self, I, path, frame, t, name, args):
        if self.extra is not None:
            r = self.extra(I, path, frame, t, name, args)
            if r is not None:
                return r
        short = name.rsplit("::", 1)[1] if "::" in name else name
        if short in ("push", "insert", "extend", "append", "extend_from_slice") and name.startswith("std::vec::Vec") and \
                "MemoryArea" in " ".join(t["f"].get("gargs", [])):
            path.events.append(("area_push", short))
        seq = path.tags.get("area_seq")
        if seq is not None:
            r = self.list_mode(I, path, frame, t, name, short, args, seq)
            if r is not None:
                return r
        if short == "find" and "Iterator" in (t["f"].get("def") or name) and len(args) == 2 and \
                "MemoryArea" in " ".join(t["f"].get("gargs", [])):
            return self.find(I, path, frame, t, args)
        if short in ("position", "rposition") and "Iterator" in (t["f"].get("def") or name) and len(args) == 2 and \
                "MemoryArea" in " ".join(t["f"].get("gargs", [])):
            # like find, but the index of the matching area is returned: Some(idx) with the predicate assumed, or None
            outs = self.find(I, path, frame, t, args, by_ref=False)
            if outs is None:
                return None
            res = []
            for o_ in outs:
                if o_[0] == "panic":
                    res.append(o_)
                elif o_[0] == A.NONE:
                    res.append(o_)
                else:
                    res.append((A.SOME(A.W(("enum_idx",), 64)), o_[1]))
            return res
        if short in ("get", "get_mut", "first", "last", "first_mut", "last_mut", "get_unchecked", "get_unchecked_mut") and args and \
                ("slice" in name or "[T]" in name or "Vec" in name) and "MemoryArea" in " ".join(t["f"].get("gargs", [])) and \
                "Range" not in " ".join(t["f"].get("gargs", [])):
            # an area taken from the list by position (a cached index, the first / last one): some area of the list, or none
            mut_ = short.endswith("mut")
            if "unchecked" in short:
                return [(area_ref(mut_), path)]
            if path.tags.get("area_seq") is not None:
                path.tags["list_unsupported"] = short
            if short in ("first", "last", "first_mut", "last_mut") and any(e[0] in ("area_push", "recreate") for e in path.events):
                return [(A.SOME(area_ref(mut_)), path)]  # an area was added on this path: the list is not empty
            p2 = path.copy()
            return [(A.SOME(area_ref(mut_)), path), (A.NONE, p2)]
        if short in ("index", "index_mut") and "ops::Index" in name and len(args) == 2 and \
                "MemoryArea" in (t["f"].get("gargs") or [""])[0] and "Range" not in " ".join(t["f"].get("gargs", [])[1:]):
            # memory[i] with an index obtained from a scan of the same list: the scanned area
            return [(area_ref(short == "index_mut"), path)]
        if short == "next" and "Iterator" in (t["f"].get("def") or name) and args and \
                "std::ops::Range<" in " ".join(t["f"].get("gargs", [])):
            rg = I._deref_all(path, args[0])
            while rg[0] == "iter":
                rg = rg[1]
            if rg[0] == "refto":
                rg = I.read_loc(path, rg[1]) if len(rg) > 1 and isinstance(rg[1], tuple) else rg
            if rg[0] == "agg" and len(rg[3]) == 2 and not (A.is_int(rg[3][0]) and A.is_int(rg[3][1])):
                # `for i in lo..hi` with a symbolic bound: one generic index, or the end
                if path.tags.get("area_seq") is not None:
                    path.tags["list_unsupported"] = "index loop"
                p2 = path.copy()
                path.events.append(("iter_next", "some", ("range", rg[3][1])))
                p2.events.append(("iter_next", "none", ("range", rg[3][1])))
                return [(A.SOME(A.W(("enum_idx",), 64)), path), (A.NONE, p2)]
        if short == "next" and "Iterator" in (t["f"].get("def") or name) and args and I._deref_all(path, args[0])[0] == "citer":
            return None  # known elements: iterated exactly by the interpreter
        if short == "next" and "Iterator" in (t["f"].get("def") or name):
            # slice / vec iterators over the area list: Some(the symbolic area) | None
            g = " ".join(t["f"].get("gargs", []))
            if "MemoryArea" in g:
                p2 = path.copy()
                path.events.append(("iter_next", "some"))
                p2.events.append(("iter_next", "none"))
                mut = "IterMut" in g
                val = area_ref(mut)
                if "Enumerate" in g:
                    val = ("agg", "tuple", None, (A.W(("enum_idx",), 64), val))
                return [(A.SOME(val), path), (A.NONE, p2)]
        if short in ("deref", "deref_mut", "as_slice", "as_mut_slice") and args and ("Vec" in name or "slice" in name):
            return [(args[0], path)]  # a view of the same storage: no effect of its own
        if short in ("iter", "iter_mut", "into_iter", "enumerate", "rev") and args:
            v_ = I._deref_all(path, args[0])
            while v_[0] == "deref" and isinstance(v_[1], tuple):
                v_ = v_[1]
            if (v_[0] == "agg" and v_[1] == "array") or v_[0] == "citer":
                return None  # a literal array / known elements: the interpreter iterates it exactly
            return [(("iter", self_norm(I, path, args[0])), path)]
        if short == "next" and "Iterator" in (t["f"].get("def") or name) and args:
            # any other slice / vector iterator: Some(element) | None; a Some means the iterated vector is not empty
            it = I._deref_all(path, args[0])
            base = it
            while base[0] == "iter":
                base = base[1]
            if it[0] == "iter":
                g = " ".join(t["f"].get("gargs", []))
                p2 = path.copy()
                k = sum(1 for e in path.events if e[0] == "iter_next")
                path.events.append(("iter_next", "some", base))
                p2.events.append(("iter_next", "none", base))
                elem = ("elem", base, k)
                val = ("agg", "tuple", None, (A.W(("enum_idx",), 64), elem)) if "Enumerate" in g else elem
                return [(A.SOME(val), path), (A.NONE, p2)]
        return None

    # ------------------------------------------------------------------ list mode
    # path.tags["area_seq"] = [ordering, ...]: the area list is exactly that sequence of areas, element k standing in
    # ordering seq[k] to the request. Every iterator instance walks the sequence in order (reversed under rev()), the
    # loops are unrolled exactly, and the comparison oracle answers for the element last handed out. Forms of walking
    # the list that this mode does not follow mark the path ("list_unsupported") and fall back to the generic model.
    LIST_PLAIN = ("iter", "iter_mut", "into_iter", "enumerate", "rev", "next", "find", "position", "rposition",
                  "index", "index_mut", "deref", "deref_mut", "as_slice", "as_mut_slice", "push", "as_ref", "borrow",
                  "unwrap", "expect", "is_some", "is_none", "ok_or", "ok_or_else", "clone", "fmt", "into", "from",
                  "branch", "from_residual", "as_deref", "as_mut", "map", "unwrap_or_else", "to_owned")

    @staticmethod
    def inst_of(it):
        """(innermost instance id, reversed?) of an iterator value built by list mode"""
        rev = False
        inst = None
        while isinstance(it, tuple) and it and it[0] == "iter":
            if len(it) > 2:
                if it[2] == "rev":
                    rev = not rev
                elif isinstance(it[2], tuple) and it[2][0] == "inst":
                    inst = it[2]
            it = it[1]
        return inst, rev

    def list_mode(self, I, path, frame, t, name, short, args, seq):
        g = " ".join(t["f"].get("gargs", []))
        if "MemoryArea" not in g:
            return None
        isiter = "Iterator" in (t["f"].get("def") or name)
        if short in ("iter", "iter_mut", "into_iter") and args:
            a0 = args[0]
            if a0[0] == "iter":
                return [(a0, path)]
            v_ = I._deref_all(path, a0)
            while v_[0] == "deref" and isinstance(v_[1], tuple):
                v_ = v_[1]
            if v_[0] == "agg" and v_[1] == "array":
                return None  # a literal slice of areas (e.g. `&[]`), not the machine's list: its elements are known
            n = path.tags.get("iter_n", 0)
            path.tags["iter_n"] = n + 1
            return [(("iter", self_norm(I, path, a0), ("inst", n)), path)]
        if short in ("enumerate", "rev") and args and args[0][0] == "iter":
            return [(("iter", args[0], short), path)]
        if short == "next" and isiter and args:
            it = I._deref_all(path, args[0])
            if it[0] == "citer":
                return None
            inst, rev = self.inst_of(it)
            if inst is None:
                path.tags["list_unsupported"] = "next on %s" % (A.show(it)[:60],)
                return None
            pos = path.tags.get(("ipos", inst), 0)
            I.mark_concrete_loop(path, frame, t)
            if pos >= len(seq):
                path.events.append(("iter_next", "none"))
                return [(A.NONE, path)]
            k = len(seq) - 1 - pos if rev else pos
            path.tags[("ipos", inst)] = pos + 1
            path.tags["order"] = seq[k]
            path.events.append(("iter_next", "some", k))
            val = area_ref("IterMut" in g)
            if "IterMut" in g:
                path.events.append(("area_handout", k, True))
            if "Enumerate" in g:
                val = ("agg", "tuple", None, (A.INT(k, 64), val))
            return [(A.SOME(val), path)]
        if short in ("find", "position", "rposition") and isiter and len(args) == 2:
            return self.find_list(I, path, frame, t, args, seq, short)
        if short in ("index", "index_mut") and "ops::Index" in name:
            if len(args) == 2 and "Range" not in " ".join(t["f"].get("gargs", [])[1:]):
                ix = I._deref_all(path, args[1])
                while ix[0] in ("w", "cast") and isinstance(ix[1], tuple):
                    ix = ix[1]
                if A.is_int(ix) and ix[1] < len(seq):
                    # memory[k] with the index a scan of this list produced: that element, in its own ordering
                    path.tags["order"] = seq[ix[1]]
                    path.events.append(("area_handout", ix[1], short == "index_mut"))
                    return [(area_ref(short == "index_mut"), path)]
            return None
        if short not in self.LIST_PLAIN:
            path.tags["list_unsupported"] = short
        return None

    def find_list(self, I, path, frame, t, args, seq, want):
        it = I._deref_all(path, args[0])
        inst, rev = self.inst_of(it)
        clos = args[1]
        cb = self.F.bodies.get(clos[1][8:]) if clos[0] == "agg" and clos[1].startswith("closure:") else None
        if inst is None or cb is None:
            path.tags["list_unsupported"] = want
            return None
        if want == "rposition":
            rev = not rev
        mut = "IterMut" in " ".join(t["f"].get("gargs", []))
        outs = []
        pending = [(path, path.tags.get(("ipos", inst), 0))]
        while pending:
            p, pos = pending.pop()
            if pos >= len(seq):
                p.tags[("ipos", inst)] = pos
                p.events.append(("find", "none"))
                outs.append((A.NONE, p))
                continue
            k = len(seq) - 1 - pos if rev else pos
            p.tags["order"] = seq[k]
            p.events.append(("iter_next", "some", k))
            envl = ("L", ("find-env", frame.fid, t["sp"], pos), 0)
            p.store[envl] = clos
            itl = ("L", ("find-item", frame.fid, t["sp"], pos), 0)
            elem = area_ref(mut)
            if "Enumerate" in " ".join(t["f"].get("gargs", [])):
                elem = ("agg", "tuple", None, (A.INT(k, 64), elem))
            p.store[itl] = elem
            item = ("ref", (itl, ()), False) if want == "find" else elem
            for o in I.call_body(cb, [("ref", (envl, ()), True), item], p, frame, frame.depth + 1):
                if o.kind != "return":
                    outs.append(("panic", o.cls, o.msg or "find predicate", o.path))
                    continue
                v = I.decide(o.path, o.value)
                if v is None:
                    p0 = o.path.copy()
                    I.assume_cond(p0, o.value, 0)
                    pending.append((p0, pos + 1))
                    I.assume_cond(o.path, o.value, 1)
                    v = 1
                if v == 0:
                    pending.append((o.path, pos + 1))
                    continue
                o.path.tags[("ipos", inst)] = pos + 1
                o.path.events.append(("find", "some"))
                if want == "find" and mut:
                    o.path.events.append(("area_handout", k, True))
                outs.append((A.SOME(elem if want == "find" else A.INT(k, 64)), o.path))
        return outs

    def find(self, I, path, frame, t, args, by_ref=True):
        """Iterator::find(pred): None, or Some(area) with pred(area) assumed true. find hands the predicate a reference
        to the item (&&MemoryArea), position the item itself."""
        outs = []
        p_none = path.copy()
        p_none.events.append(("find", "none"))
        outs.append((A.NONE, p_none))
        clos = args[1]
        if clos[0] != "agg" or not clos[1].startswith("closure:"):
            return None
        cdef = clos[1][8:]
        cb = self.F.bodies.get(cdef)
        if cb is None:
            return None
        mut = "IterMut" in " ".join(t["f"].get("gargs", []))
        envl = ("L", ("find-env", frame.fid, t["sp"]), 0)
        path.store[envl] = clos
        itl = ("L", ("find-item", frame.fid, t["sp"]), 0)
        elem = area_ref(mut)
        if "Enumerate" in " ".join(t["f"].get("gargs", [])):
            elem = ("agg", "tuple", None, (A.W(("enum_idx",), 64), elem))
        path.store[itl] = elem
        res = I.call_body(cb, [("ref", (envl, ()), True), ("ref", (itl, ()), False) if by_ref else elem], path, frame,
                          frame.depth + 1)
        for o in res:
            if o.kind != "return":
                outs.append(("panic", o.cls, o.msg or "find predicate", o.path))
                continue
            v = I.decide(o.path, o.value)
            if v == 0:
                continue  # predicate false for this ordering: the element is not returned
            if v is None:
                # undecided predicate: assume true on this branch
                I.assume_cond(o.path, o.value, 1)
            o.path.events.append(("find", "some"))
            outs.append((A.SOME(elem), o.path))
        return outs


def self_norm(I, path, a):
    if a[0] == "ref":
        return ("refto", a[1])
    return a


def overlap(o):
    """new [ns,ne) and old [os,oe) share an address: max(starts) < min(ends)"""
    return max(o["ns"], o["os"]) < min(o["ne"], o["oe"])
