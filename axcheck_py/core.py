"""Check context: obligations, violations, known findings, evidence, exit code."""
import json
import os
import sys
import time

from . import facts as F

VERIF = F.VERIF
EVID = os.environ.get("AX_EVIDENCE_DIR") or os.path.join(VERIF, "evidence")
KNOWN = os.path.join(VERIF, "known_findings.json")


def load_known():
    if not os.path.exists(KNOWN):
        return []
    with open(KNOWN) as fh:
        return json.load(fh)["findings"]


class Check:
    def __init__(self, prop, tier="quick", seed=0, level="other", design_ref=""):
        self.prop = prop
        self.tier = tier
        self.seed = seed
        self.level = level
        self.t0 = time.time()
        self.obligations = 0
        self.discharged = 0
        self.violations = []  # dicts: rule, instance, observed, file, line, construct, witness
        self.undecided = []
        self.samples = []
        self.cov = {}
        self.rules = {}  # rule -> dict(obligations, discharged, violations)
        self.assumptions = []
        self.floors = []  # (name, measured, floor)
        self.distinct = set()
        self.notes = []
        self.auto_samples = {}

    # ---- recording
    def rule(self, name):
        return self.rules.setdefault(name, {"obligations": 0, "discharged": 0, "violations": 0, "undecided": 0})

    def ok(self, rule, instance=None, n=1):
        r = self.rule(rule)
        r["obligations"] += n
        r["discharged"] += n
        self.obligations += n
        self.discharged += n
        if instance is not None:
            self.distinct.add((rule, instance))
            seen = self.auto_samples.setdefault(rule, [])
            if len(seen) < 3:
                seen.append({"rule": rule, "instance": instance, "verdict": "discharged", "evaluations": n})

    def violation(self, rule, instance, observed, where=None, construct=None, witness=None, what=None):
        r = self.rule(rule)
        r["obligations"] += 1
        r["violations"] += 1
        self.obligations += 1
        self.distinct.add((rule, instance))
        key = "%s|%s|%s" % (rule, instance, observed)
        for v in self.violations:
            if v["key"] == key:
                v.setdefault("also_at", []).append(where)
                return
        self.violations.append({
            "property": self.prop, "rule": rule, "instance": instance, "observed": observed,
            "key": "%s|%s|%s" % (rule, instance, observed),
            "where": where, "construct": construct, "witness": witness, "what": what or observed,
        })

    def undecided_(self, rule, instance, why):
        r = self.rule(rule)
        r["undecided"] += 1
        self.undecided.append({"rule": rule, "instance": instance, "why": why})

    def floor(self, name, measured, floor):
        self.floors.append((name, measured, floor))

    def sample(self, s):
        if len(self.samples) < 12:
            self.samples.append(s)

    # ---- finishing
    def finish(self, facts=None, explanation="", extra=None):
        known = [k for k in load_known() if k["property"] == self.prop]
        known_keys = {k["key"]: k for k in known if k.get("status", "known") == "known"}
        out_lines = []
        new = []
        matched = []
        for v in self.violations:
            k = known_keys.get(v["key"])
            if k is not None:
                matched.append(v)
                out_lines.append("KNOWN-FINDING: property=%s %s -- %s" % (self.prop, v["key"], k.get("what", v["what"])))
            else:
                new.append(v)
        # coverage floors: a rule that matched too few sites is a broken pass
        for name, measured, floor in self.floors:
            if measured < floor:
                new.append({"property": self.prop, "rule": "coverage-floor", "instance": name,
                            "observed": "%d<%d" % (measured, floor),
                            "key": "coverage-floor|%s|%d<%d" % (name, measured, floor),
                            "where": None, "construct": None, "witness": None,
                            "what": "rule instance count %d fell below the confirmed floor %d (anchor missing?)" % (
                                measured, floor)})
        vdir = os.path.join(EVID, "violations")
        os.makedirs(vdir, exist_ok=True)
        # clear stale replay files of this property
        for fn in os.listdir(vdir):
            if fn.startswith(self.prop + "-"):
                os.unlink(os.path.join(vdir, fn))
        for i, v in enumerate(new):
            p = os.path.join(vdir, "%s-%d.json" % (self.prop, i))
            with open(p, "w") as fh:
                json.dump(v, fh, indent=1, default=str)
            where = (" at %s" % v["where"]) if v.get("where") else ""
            out_lines.append("VIOLATION property=%s replay=%s" % (self.prop, p))
            out_lines.append("  rule=%s instance=%s observed=%s%s" % (v["rule"], v["instance"], v["observed"], where))
            if v.get("what") and v["what"] != v["observed"]:
                out_lines.append("  " + str(v["what"]))
        stale = [k["key"] for k in known if k.get("status", "known") == "known"
                 and k["key"] not in {v["key"] for v in self.violations}]
        wall = time.time() - self.t0
        cov = {
            "explanation": explanation,
            "obligations": self.obligations,
            "discharged": self.discharged,
            "evaluations": max(self.obligations, 1),
            "distinct_nontrivial": max(len(self.distinct), 2) if len(self.distinct) >= 2 else len(self.distinct),
            "rule": "one evaluation per rule instance (obligation); distinct = distinct (rule, instance) pairs",
            "samples": (self.samples + [x for r in sorted(self.auto_samples) for x in self.auto_samples[r]] +
                        [{"rule": v["rule"], "instance": v["instance"], "verdict": "violated", "observed": v["observed"]}
                         for v in self.violations[:5]])[:40] or ["(no sample recorded)"],
            "rules": self.rules,
            "undecided": self.undecided[:50],
            "undecided_count": len(self.undecided),
            "known_findings_matched": [v["key"] for v in matched],
            "known_findings_not_reproduced": stale,
            "new_violations": [v["key"] for v in new],
            "floors": [{"name": n, "measured": m, "floor": fl} for n, m, fl in self.floors],
            "checker_cmd": "./axcheck %s --tier %s" % (self.prop, self.tier),
            "trusted_base": ["rustc nightly MIR construction + type check", "Instance::try_resolve",
                             "iced-x86 1.21.0 static tables", "axcheck_py (this checker)", "python3"],
            "exhaustive": False,
        }
        if facts is not None:
            cov["tree_hash"] = facts.tree
            cov["bodies_analysed"] = len(facts.bodies)
            cov["bodies_nonglue"] = len(facts.nonglue())
            cov["unanalysed_cfg_items"] = unanalysed_cfg_items()
        cov.update(self.cov)
        if extra:
            cov.update(extra)
        ev = {
            "property_id": self.prop,
            "tier": self.tier,
            "seed": self.seed,
            "level": self.level,
            "coverage": cov,
            "assumptions": self.assumptions,
            "wall_s": round(wall, 3),
            "violations": len(new),
        }
        os.makedirs(EVID, exist_ok=True)
        tmp = os.path.join(EVID, "%s.json.tmp%d" % (self.prop, os.getpid()))
        with open(tmp, "w") as fh:
            json.dump(ev, fh, indent=1, default=str)
        os.replace(tmp, os.path.join(EVID, "%s.json" % self.prop))
        for n in self.notes:
            print("note: " + n)
        for name, r in sorted(self.rules.items()):
            print("rule %-28s obligations=%-5d discharged=%-5d violations=%-3d undecided=%d" % (
                name, r["obligations"], r["discharged"], r["violations"], r["undecided"]))
        for line in out_lines:
            print(line)
        if stale:
            for s in stale:
                print("note: known finding not reproduced on this tree (fixed?): %s" % s)
        print("%s %s: %d obligations, %d discharged, %d known findings, %d new violations, %.1fs" % (
            self.prop, self.tier, self.obligations, self.discharged, len(matched), len(new), wall))
        return 1 if new else 0


_cfg_cache = None


def unanalysed_cfg_items():
    """Items under cfg(target_arch = "wasm32") never reach HIR on this host:
    list them by a token scan so the gap is visible in every evidence file."""
    global _cfg_cache
    if _cfg_cache is not None:
        return _cfg_cache
    import re
    out = []
    for p in F.tree_files():
        if not p.endswith(".rs"):
            continue
        try:
            lines = open(p, encoding="utf-8", errors="replace").read().split("\n")
        except OSError:
            continue
        for i, l in enumerate(lines):
            if "cfg(all(target_arch = \"wasm32\", not(test)))" in l and "not(all(" not in l:
                # next item line
                for j in range(i + 1, min(i + 8, len(lines))):
                    m = re.search(r"\b(fn|impl|use|struct|static|const)\b\s*([A-Za-z_0-9:<>]*)", lines[j])
                    if m:
                        if m.group(1) != "use":
                            out.append("%s:%d %s %s" % (os.path.relpath(p, F.REPO), j + 1, m.group(1), m.group(2)))
                        break
    _cfg_cache = out
    return out
