"""Flag-setter transfer functions derived from the setters' own MIR (A4/A6)."""
from . import absint as A
from . import hmodel as H
from . import prims as P

ARCH_FLAGS = ("CF", "PF", "ZF", "SF", "OF")
BIT = H.FLAG_BITS
# iced RflagsBits -> names
ICED_BITS = {"OF": 1, "SF": 2, "ZF": 4, "AF": 8, "CF": 16, "PF": 32, "DF": 64}

RFLAGS_LOC = (("H", "self"), (("f", 2, "state", "axecutor::Axecutor"), ("f", 3, "rflags", "axecutor::MachineState")))


def bit_class(x, bit):
    if x in (0, 1):
        return str(x)
    if x is None:
        return "top"
    if x[0] == H.RFLAGS and x[1] == bit and not x[2]:
        return "old"
    return "other"


class SetterSummaries:
    def __init__(self, facts, roles):
        self.F = facts
        self.R = roles
        self.cache = {}
        self.evaluations = 0

    def summary(self, setter, setm, clearm):
        """{flag: frozenset of 'old'|'0'|'1'|'top'|'other'} or None when the setter aborts for these masks."""
        key = (setter, setm, clearm)
        if key in self.cache:
            return self.cache[key]
        b = self.F.bodies[setter]
        n = self.R.flag_setters[setter]
        I = A.Interp(self.F)
        outs = list(I.run(b, [P.self_ref(), A.INT(setm, 64), A.INT(clearm, 64), A.W(("result",), n)], A.Path()))
        self.evaluations += 1
        res = {k: set() for k in BIT}
        aborted = [o for o in outs if o.kind != "return"]
        rets = [o for o in outs if o.kind == "return"]
        if not rets:
            self.cache[key] = None
            return None
        for o in rets:
            v = I.read_loc(o.path, RFLAGS_LOC)
            if A.width_of(v, 0) == 0 or v == ("field", ("field", ("init", "self", 0), "state"), "rflags"):
                for k in BIT:
                    res[k].add("old")
                continue
            bv = A.bitvec(v, o.path)
            for k, bit in BIT.items():
                res[k].add(bit_class(bv[bit], bit))
        out = {k: frozenset(v) for k, v in res.items()}
        out["_aborts"] = len(aborted)
        self.cache[key] = out
        return out


def compose(cur, op):
    """cur, op: sets over {'old','0','1',...}; op applied after cur."""
    out = set()
    for x in op:
        if x == "old":
            out |= cur
        else:
            out.add(x)
    return out
