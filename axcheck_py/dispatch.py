"""Role discovery: dispatch tables, handlers, accessor roles (A1)."""
from . import facts as F

AXE = "axecutor::Axecutor"


def _skip_to_call(body, bb, limit=12):
    """Follow goto/falseedge from bb to the first block ending in a call; return (bb, term)."""
    bl = body["blocks"]
    for _ in range(limit):
        t = bl[bb]["term"]
        if t["k"] == "call":
            return bb, t
        if t["k"] in ("goto", "falseedge", "falseunwind", "drop"):
            bb = t["t"]
            continue
        return bb, None
    return bb, None


def find_enum_switch(facts, body, accessor):
    """Find `match i.<accessor>()`: the switchInt on the discriminant of the value
    returned by the iced accessor. Returns (block index, term) or None."""
    bl = body["blocks"]
    # locals holding the accessor result
    holders = set()
    for b in bl:
        t = b["term"]
        if t["k"] == "call" and F.callee_name(t) == accessor:
            holders.add(t["dest"][0])
    if not holders:
        return None
    best = None
    for i, b in enumerate(bl):
        t = b["term"]
        if t["k"] != "switch":
            continue
        d = t["discr"]
        if d[0] not in ("c", "m"):
            continue
        dl = d[1][0]
        # find the discr assignment in this block
        for st in b["s"]:
            if st[0] == "a" and st[1][0] == dl and st[2][0] == "discr" and st[2][1][0] in holders:
                # skip the debug_assert's `switchInt(const true)` -- it has no discr stmt
                if best is None or len(t["vals"]) > len(best[1]["vals"]):
                    best = (i, t)
    return best


def bind_by_interpretation(facts, db, mname):
    """{Code name: (discriminant, handler path)}: the dispatcher interpreted once per code named after the mnemonic; the
    handler is the one local function taking (self, Instruction) that every non-aborting path calls"""
    from . import absint as A
    enum = facts.enums.get("iced_x86::Code") or {}
    variants = enum.get("variants") if isinstance(enum, dict) else None
    names = []
    try:
        i_ = 0
        while True:
            ev = facts.enum_variant("iced_x86::Code", i_)
            if ev is None:
                break
            names.append((ev[0], i_, ev[1]))
            i_ += 1
            if i_ > 6000:
                break
    except Exception:  # noqa
        pass
    out = {}
    for cname, vidx, discr in names:
        if not (cname == mname or cname.startswith(mname + "_")):
            continue
        called = []

        def icpt(I, path, frame, t, name, args, vidx=vidx, called=called):
            if name == "iced_x86::Instruction::code":
                return [(("agg", "adt:iced_x86::Code", vidx, ()), path)]
            cb = facts.bodies.get(name)
            if cb is not None and cb.get("impl_self") == AXE and cb["argc"] == 2 and cb["locals"][2] == ["adt", "iced_x86::Instruction", []]:
                path.events.append(("handler_call", name))
                return [(A.OK(A.UNIT), path)]
            return None
        I = A.Interp(facts, intercept=icpt)
        try:
            outs = list(I.run(db, [("ref", (("H", "self"), ()), True), ("init", "instr", 0)], A.Path()))
        except Exception:  # noqa
            continue
        hs = set()
        okp = 0
        for o in outs:
            if o.kind != "return":
                continue
            okp += 1
            hc = [e[1] for e in o.path.events if e[0] == "handler_call"]
            hs.add(tuple(hc))
        if okp and len(hs) == 1 and len(next(iter(hs))) == 1:
            out[cname] = (discr, next(iter(hs))[0])
    return out


def switch_arms(facts, body, sw, enum):
    """[(variant name, discr, callee path or None, target bb)] + otherwise"""
    arms = []
    for v, tg in zip(sw["vals"], sw["tgts"]):
        ev = facts.enum_variant_by_discr(enum, v)
        name = ev[1] if ev else str(v)
        bb, t = _skip_to_call(body, tg)
        callee = None
        if t is not None:
            n = F.callee_name(t)
            if t["f"].get("local"):
                callee = n
            else:
                callee = "ext:" + n
        arms.append((name, v, callee, tg))
    return arms


def can_return(facts):
    """Greatest fixpoint: body can reach Return without passing a diverging site,
    cutting calls to local callees that cannot return."""
    bodies = facts.bodies
    can = {k: True for k in bodies}
    changed = True
    while changed:
        changed = False
        for k, b in bodies.items():
            if not can[k]:
                continue
            bl = b["blocks"]
            seen = {0}
            st = [0]
            ok = False
            while st:
                n = st.pop()
                t = bl[n]["term"]
                if t["k"] == "return":
                    ok = True
                    break
                if t["k"] == "call":
                    cn = F.callee_name(t)
                    if cn in can and not can[cn] and not bodies[cn].get("coroutine"):
                        continue
                for s in F.succs(bl[n]):
                    if s not in seen:
                        seen.add(s)
                        st.append(s)
            if not ok:
                can[k] = False
                changed = True
    return can


class Dispatch:
    def __init__(self, facts):
        self.F = facts
        self.top = facts.method(AXE, "switch_instruction_mnemonic")
        sw = find_enum_switch(facts, self.top, "iced_x86::Instruction::mnemonic")
        if sw is None:
            raise KeyError("no `match i.mnemonic()` in switch_instruction_mnemonic")
        self.mnemonic_arms = switch_arms(facts, self.top, sw[1], "iced_x86::Mnemonic")
        self.canret = can_return(facts)
        self.codes = {}  # Code name -> dict(handler, mnemonic, dispatcher, implemented)
        self.mnemonics = {}  # mnemonic -> dispatcher path
        self.problems = []
        for mname, mdiscr, disp, _ in self.mnemonic_arms:
            self.mnemonics[mname] = disp
            if disp is None or disp not in facts.bodies:
                self.problems.append("mnemonic %s: no local dispatcher" % mname)
                continue
            db = facts.bodies[disp]
            sw2 = find_enum_switch(facts, db, "iced_x86::Instruction::code")
            if sw2 is None:
                # no switch on the code (e.g. a guard `if i.code() != C { fatal } handler(i)` for a mnemonic with one
                # encoding): the binding is found by interpreting the dispatcher with i.code() answered by each code of
                # this mnemonic in turn
                bound = bind_by_interpretation(facts, db, mname)
                if not bound:
                    self.problems.append("mnemonic %s: dispatcher has no `match i.code()`" % mname)
                    continue
                for cname, (cdiscr, handler) in sorted(bound.items()):
                    impl = bool(handler and handler in facts.bodies and self.canret.get(handler, False))
                    if cname in self.codes:
                        self.problems.append("Code %s bound twice" % cname)
                    self.codes[cname] = {"handler": handler, "mnemonic": mname, "dispatcher": disp,
                                         "implemented": impl, "discr": cdiscr}
                continue
            for cname, cdiscr, handler, _ in switch_arms(facts, db, sw2[1], "iced_x86::Code"):
                impl = bool(handler and handler in facts.bodies and self.canret.get(handler, False))
                if cname in self.codes:
                    self.problems.append("Code %s bound twice" % cname)
                self.codes[cname] = {"handler": handler, "mnemonic": mname, "dispatcher": disp,
                                     "implemented": impl, "discr": cdiscr}

    def implemented(self):
        return {c: d for c, d in self.codes.items() if d["implemented"]}


def sig(body):
    return [body["locals"][i] for i in range(body["argc"] + 1)]


def _is_adt(ty, path):
    return isinstance(ty, list) and ty[0] == "adt" and ty[1] == path


def _is_self(ty):
    return isinstance(ty, list) and ty[0] == "ref" and _is_adt(ty[2], AXE)


def _is_result_of(ty, inner=None):
    if not (isinstance(ty, list) and ty[0] == "adt" and ty[1] == "std::result::Result"):
        return False
    if inner is None:
        return True
    return ty[2] and inner(ty[2][0])


class Roles:
    """Functions identified by signature / public name, never by internal spelling alone."""

    def __init__(self, facts):
        self.F = facts
        ng = {k: b for k, b in facts.bodies.items() if not b["glue"] and b["kind"] != "Closure"}
        self.reg_read = {}
        self.reg_write = {}
        self.mem_read = {}
        self.mem_write = {}
        for n in (8, 16, 32, 64):
            self.reg_read[n] = facts.method(AXE, "reg_read_%d" % n)["path"]
            self.reg_write[n] = facts.method(AXE, "reg_write_%d" % n)["path"]
            self.mem_read[n] = facts.method(AXE, "mem_read_%d" % n)["path"]
            self.mem_write[n] = facts.method(AXE, "mem_write_%d" % n)["path"]
        # 128-bit: the host-visible public wrappers and the crate-internal workers
        self.reg_read_pub128 = facts.method(AXE, "reg_read_128")["path"]
        self.reg_write_pub128 = facts.method(AXE, "reg_write_128")["path"]
        self.mem_read_pub128 = facts.method(AXE, "mem_read_128")["path"]
        self.mem_write_pub128 = facts.method(AXE, "mem_write_128")["path"]
        # the crate-internal 128-bit workers: whatever same-arity method each public wrapper forwards to
        self.reg_read[128] = self._worker(self.reg_read_pub128, "internal_reg_read_128")
        self.reg_write[128] = self._worker(self.reg_write_pub128, "internal_reg_write_128")
        self.mem_read[128] = self._worker(self.mem_read_pub128, "internal_mem_read_128")
        self.mem_write[128] = self._worker(self.mem_write_pub128, "internal_mem_write_128")
        self.mem_read_bytes = facts.method(AXE, "mem_read_bytes")["path"]
        self.mem_write_bytes = facts.method(AXE, "mem_write_bytes")["path"]
        # by signature
        self.mem_addr = self._mem_addr_role(ng)
        self.instruction_operand = self._one(
            ng, lambda s: len(s) == 4 and _is_result_of(s[0], lambda t: _is_adt(t, "helpers::operand::Operand"))
            and _is_self(s[1]) and _is_adt(s[2], "iced_x86::Instruction") and s[3] == ["u", 32],
            "instruction_operand role")
        self.instruction_operands_2 = self._one(
            ng, lambda s: len(s) == 3 and _is_result_of(
                s[0], lambda t: isinstance(t, list) and t[0] == "tuple" and len(t[1]) == 2
                and all(_is_adt(x, "helpers::operand::Operand") for x in t[1]))
            and _is_self(s[1]) and _is_adt(s[2], "iced_x86::Instruction"), "instruction_operands_2 role")
        # flag setters: (self, u64, u64, uN) -> ()
        self.flag_setters = {}
        for k, b in ng.items():
            s = sig(b)
            if len(s) == 5 and s[0] == ["tuple", []] and _is_self(s[1]) and s[1][1] and s[2] == ["u", 64] \
                    and s[3] == ["u", 64] and isinstance(s[4], list) and s[4][0] == "u":
                if self._cone_stores_field(k, "rflags"):
                    self.flag_setters[k] = s[4][1]
        # trace recorders: (self, Instruction, u64) -> Result<()> whose cone pushes to `trace`
        self.tracers = {}
        self.add_trace = None
        for k, b in ng.items():
            s = sig(b)
            if len(s) == 5 and _is_self(s[1]) and _is_adt(s[2], "iced_x86::Instruction") and s[3] == ["u", 64] \
                    and _is_adt(s[4], "helpers::trace::TraceVariant"):
                self.add_trace = k
        for k, b in ng.items():
            s = sig(b)
            if len(s) == 4 and _is_result_of(s[0]) and _is_self(s[1]) and s[1][1] \
                    and _is_adt(s[2], "iced_x86::Instruction") and s[3] == ["u", 64]:
                var = self._trace_variant(b)
                if var is not None:
                    self.tracers[k] = var

    def _mem_addr_role(self, ng):
        """the full effective-address function: (self, MemOperand) -> u64 whose own cone -- not counting the other
        functions of that signature -- reads the FS/GS bases; a same-signature helper (segment-less address) is not it,
        whichever of the two delegates to the other"""
        pred = lambda s: len(s) == 3 and s[0] == ["u", 64] and _is_self(s[1]) and _is_adt(s[2], "helpers::operand::MemOperand")
        cands = [k for k, b in ng.items() if pred(sig(b))]
        self.mem_addr_noseg = []
        if len(cands) == 1:
            return cands[0]

        def reads_seg(k, seen):
            if k in seen or k not in self.F.bodies:
                return False
            seen.add(k)
            b = self.F.bodies[k]
            for blk in b["blocks"]:
                for st in blk["s"]:
                    if st[0] == "a" and "'fs'" in repr(st[2]) or st[0] == "a" and "'gs'" in repr(st[2]):
                        return True
                t = blk["term"]
                if t["k"] == "call":
                    if "'fs'" in repr(t["args"]) or "'gs'" in repr(t["args"]):
                        return True
                    cn = F.callee_name(t)
                    if cn in self.F.bodies and cn not in cands and not self.F.bodies[cn]["glue"] and reads_seg(cn, seen):
                        return True
            return False
        full = [k for k in cands if reads_seg(k, set())]
        if len(full) == 1:
            # the remaining same-signature functions compute the address without the segment base (LEA's helper)
            self.mem_addr_noseg = [k for k in cands if k != full[0]]
            return full[0]
        return self._one(ng, pred, "mem_addr role")

    def _worker(self, pub, fallback_name):
        b = self.F.bodies[pub]
        c = set()
        for blk in b["blocks"]:
            t = blk["term"]
            if t["k"] == "call":
                cb = self.F.bodies.get(F.callee_name(t))
                if cb is not None and not cb["glue"] and cb.get("impl_self") == AXE and cb["argc"] == b["argc"] \
                        and cb["path"] != pub:
                    c.add(cb["path"])
        if len(c) == 1:
            return c.pop()
        return self.F.method(AXE, fallback_name)["path"]

    def hook_roles(self):
        """(run_functions, run_before, run_after, mnemonic_hooks, empty) by signature; the two phase runners are told
        apart by the boolean constant they pass to the shared runner (true = before). Falls back to the names."""
        HOOK = "state::hooks::Hook"
        Fm = self.F
        hm_ = {k: b for k, b in Fm.bodies.items() if b.get("impl_self") == HOOK and b["kind"] != "Closure" and not b["glue"]}
        rf = [k for k, b in hm_.items() if len(sig(b)) == 5 and sig(b)[2] == "bool"]
        rf = rf[0] if len(rf) == 1 else Fm.method(HOOK, "run_functions")["path"]
        before = after = None
        for k, b in hm_.items():
            s_ = sig(b)
            if len(s_) == 4 and _is_adt(s_[3], "auto::generated::SupportedMnemonic") and isinstance(s_[2], list) and s_[2][0] == "ref":
                for blk in b["blocks"]:
                    t = blk["term"]
                    if t["k"] == "call" and F.callee_name(t) == rf and len(t["args"]) >= 2 and t["args"][1][0] == "k":
                        v = t["args"][1][1].get("v")
                        if v == 1:
                            before = k
                        elif v == 0:
                            after = k
        before = before or Fm.method(HOOK, "run_before")["path"]
        after = after or Fm.method(HOOK, "run_after")["path"]
        ng = {k: b for k, b in Fm.bodies.items() if not b["glue"] and b["kind"] != "Closure" and b.get("impl_self") == AXE}
        # (&X, SupportedMnemonic) -> Option<Hook>, on the machine or on its hook table
        allb = {k: b for k, b in Fm.bodies.items() if not b["glue"] and b["kind"] != "Closure"}
        mh = [k for k, b in allb.items() if len(sig(b)) == 3 and isinstance(sig(b)[1], list) and sig(b)[1][0] == "ref"
              and _is_adt(sig(b)[2], "auto::generated::SupportedMnemonic")
              and isinstance(sig(b)[0], list) and sig(b)[0][:2] == ["adt", "std::option::Option"] and "hooks::Hook" in repr(sig(b)[0])]
        mh = mh[0] if len(mh) == 1 else Fm.method(AXE, "mnemonic_hooks")["path"]
        em = [k for k, b in ng.items() if len(sig(b)) == 1 and _is_adt(sig(b)[0], AXE) and b["vis"] != "pub"]
        em = em[0] if len(em) == 1 else Fm.method(AXE, "empty")["path"]
        return rf, before, after, mh, em

    def decoders(self):
        """(decode_next, decode_at, fetch): the methods returning Result<Instruction, _> taking (&self) / (&self, u64),
        and the (&self, u64) -> Result<Vec<u8>, _> method the latter calls to fetch code bytes"""
        ng = {k: b for k, b in self.F.bodies.items() if not b["glue"] and b["kind"] != "Closure" and b.get("impl_self") == AXE}
        is_instr = lambda t: _is_adt(t, "iced_x86::Instruction")
        nxt = [k for k, b in ng.items() if len(sig(b)) == 2 and _is_result_of(sig(b)[0], is_instr) and _is_self(sig(b)[1])]
        at = [k for k, b in ng.items() if len(sig(b)) == 3 and _is_result_of(sig(b)[0], is_instr) and _is_self(sig(b)[1])
              and sig(b)[2] == ["u", 64]]
        dn = nxt[0] if len(nxt) == 1 else self.F.method(AXE, "decode_next")["path"]
        da = at[0] if len(at) == 1 else self.F.method(AXE, "decode_at")["path"]
        fetch = set()
        for blk in self.F.bodies[da]["blocks"]:
            t = blk["term"]
            if t["k"] == "call":
                cb = ng.get(F.callee_name(t))
                if cb is not None and len(sig(cb)) == 3 and sig(cb)[2] == ["u", 64] and _is_self(sig(cb)[1]) \
                        and "Vec" in repr(sig(cb)[0]) and cb["path"] != self.mem_read_bytes:
                    fetch.add(cb["path"])
        fe = fetch.pop() if len(fetch) == 1 else self.F.method(AXE, "mem_read_executable_bytes")["path"]
        return dn, da, fe

    def _one(self, ng, pred, what):
        c = [k for k, b in ng.items() if pred(sig(b))]
        if len(c) > 1:
            # wrappers that delegate to another candidate are not the role itself
            def calls_other(k):
                for blk in ng[k]["blocks"]:
                    t = blk["term"]
                    if t["k"] == "call" and F.callee_name(t) in c and F.callee_name(t) != k:
                        return True
                return False
            base = [k for k in c if not calls_other(k)]
            if len(base) == 1:
                c = base
        if len(c) != 1:
            raise KeyError("%s matches %d bodies: %s" % (what, len(c), c[:4]))
        return c[0]

    def _cone_stores_field(self, k, field, seen=None):
        """does k, one of its closures or a private function it calls store to a field of that name?"""
        seen = seen if seen is not None else set()
        if k in seen or k not in self.F.bodies:
            return False
        seen.add(k)
        for kk in [k] + self.F.closures_of(k):
            b = self.F.bodies[kk]
            for blk in b["blocks"]:
                for st in blk["s"]:
                    if st[0] == "a":
                        for e in st[1][1]:
                            if isinstance(e, list) and e[0] == "f" and e[2] == field:
                                return True
                t = blk["term"]
                if t["k"] == "call":
                    cn = F.callee_name(t)
                    cb = self.F.bodies.get(cn)
                    if cb is not None and not cb["glue"] and cb["vis"] != "pub" and cb["kind"] != "Closure" and len(seen) < 12 \
                            and self._cone_stores_field(cn, field, seen):
                        return True
        return False

    def _trace_variant(self, b):
        """The constant TraceVariant a tracer passes to the add_trace role."""
        for blk in b["blocks"]:
            t = blk["term"]
            if t["k"] == "call" and F.callee_name(t) == self.add_trace:
                # find aggregate assigned to the 4th arg local in any block
                a = t["args"][3]
                if a[0] in ("c", "m"):
                    loc = a[1][0]
                    for bl2 in b["blocks"]:
                        for st in bl2["s"]:
                            if st[0] == "a" and st[1][0] == loc and st[2][0] == "agg" and st[2][1][0] == "adt":
                                return st[2][1][3]
        return None
