"""axcheck: decide one property of /repo's current tree by static analysis.

usage: python3 -m axcheck_py Cxx [--tier quick|thorough] [--replay path]
exit 0: property held on everything analysed (KNOWN-FINDING lines allowed)
exit 1: VIOLATION property=<id> replay=<path>
exit 2: the machinery could not run (no verdict)
"""
import argparse
import importlib
import json
import os
import sys
import traceback

from . import core
from . import dispatch
from . import facts as F
from . import hmodel


class Ctx:
    def __init__(self, prop, tier, seed):
        import time
        t0 = time.time()
        self.prop = prop
        self.tier = tier
        # thorough: do not trust the cache -- extract into a fresh target directory
        self.facts = F.load(fresh=(tier == "thorough"))
        from . import absint
        for en, vs in self.facts.enums.items():
            absint.ENUM_NAMES[en] = [v[0] for v in vs]
        self.oracle = F.oracle()
        self.dispatch = dispatch.Dispatch(self.facts)
        self.roles = dispatch.Roles(self.facts)
        self.hmodel = hmodel.HandlerModel(self.facts, self.oracle, self.dispatch, self.roles)
        self.check = core.Check(prop, tier, seed)
        self.check.t0 = t0  # wall time includes fact extraction / loading
        self._ref = {}

    def reference(self, name):
        if name not in self._ref:
            p = os.path.join(F.VERIF, "reference", name)
            if not os.path.exists(p):
                self._ref[name] = None
            else:
                with open(p) as fh:
                    self._ref[name] = json.load(fh)
        return self._ref[name]


def main():
    ap = argparse.ArgumentParser()
    ap.add_argument("prop")
    ap.add_argument("--tier", default=os.environ.get("VERIF_TIER", "quick"))
    ap.add_argument("--replay", default=None)
    a = ap.parse_args()
    seed = int(os.environ.get("VERIF_SEED", "0") or 0)
    try:
        mod = importlib.import_module("axcheck_py.rules." + a.prop)
    except ImportError as e:
        print("no rules for %s: %s" % (a.prop, e))
        return 2
    try:
        ctx = Ctx(a.prop, a.tier, seed)
        if a.replay:
            with open(a.replay) as fh:
                v = json.load(fh)
            print("replaying rule=%s instance=%s (re-evaluating the whole property on the current tree)" % (
                v.get("rule"), v.get("instance")))
        mod.run(ctx)
        if a.tier == "thorough":
            from . import thorough
            thorough.run(ctx, mod)
        expl = getattr(mod, "EXPLANATION", mod.__doc__ or "")
        ctx.check.level = getattr(mod, "LEVEL", "other")
        rc = ctx.check.finish(ctx.facts, explanation=expl)
        if a.replay:
            with open(a.replay) as fh:
                v = json.load(fh)
            hit = [x for x in ctx.check.violations if x["key"] == v.get("key")]
            print("replay: %s" % ("still violated: " + json.dumps(hit[0], default=str)[:2000] if hit else "not reproduced"))
        return rc
    except F.BrokenRun as e:
        print("BROKEN RUN (no verdict): %s" % e)
        return 2
    except Exception:
        traceback.print_exc()
        print("BROKEN RUN (no verdict): internal error")
        return 2


if __name__ == "__main__":
    sys.exit(main())
