"""Thorough tier: everything quick does, on facts extracted into a fresh target directory, plus
 (1) a cross-check that the fresh extraction equals the cached one (same bodies, same block counts),
 (2) a second extraction with -C overflow-checks=off -C debug-assertions=off: every class-O site of the property's
     cone must vanish there (they are profile dependent) and the class-X sites must survive (recorded in the evidence),
 (3) the E4 corpus entries tagged with the property (selftest/run.py --props Cxx): breaking mutants that are not
     reported are printed as SELFTEST-MISS, behaviour-preserving variants that raise an alarm as SELFTEST-FALSE-ALARM;
     both are recorded, they are defects of the checker and never a VIOLATION of the property,
 (3b) the independently seeded breaking changes recorded against this property's rules (seeded/*/meta.json), applied to
      scratch copies: each must be reported by one of the recorded rules (SELFTEST-MISS otherwise),
 (4) the property module's own `thorough(ctx)` hook if it has one."""
import json
import os
import subprocess
import sys

from . import facts as F


def run(ctx, mod):
    ck = ctx.check
    # (1)
    try:
        cached = F.load(fresh=False)
        same = set(cached.bodies) == set(ctx.facts.bodies) and all(
            len(cached.bodies[k]["blocks"]) == len(ctx.facts.bodies[k]["blocks"]) for k in cached.bodies)
        ck.cov["fresh_extraction_equals_cached"] = bool(same)
        if not same:
            ck.notes.append("fresh extraction differs from the cached facts (cache was stale?)")
    except Exception as e:  # noqa
        ck.cov["fresh_extraction_equals_cached"] = "error: %s" % e
    # (2)
    try:
        rel = F.load(fresh=False, profile="release-like")
        nO = nX = 0
        for k, b in rel.bodies.items():
            if b["glue"]:
                continue
            for blk in b["blocks"]:
                t = blk["term"]
                if t["k"] == "assert" and not t["msg"]["kind"].startswith("Resumed"):
                    if t["msg"]["kind"].startswith("Overflow"):
                        nO += 1
                    else:
                        nX += 1
        ck.cov["release_like_profile"] = {"overflow_asserts": nO, "other_asserts": nX,
                                          "note": "class-O sites exist only with overflow-checks (dev profile / the test suite)"}
    except Exception as e:  # noqa
        ck.cov["release_like_profile"] = "error: %s" % e
    # (3)
    st = os.path.join(F.VERIF, "selftest", "run.py")
    if os.path.exists(st) and os.environ.get("AX_NO_SELFTEST") != "1":
        r = subprocess.run([sys.executable, st, "--props", ctx.prop, "--lanes", "2"], capture_output=True, text=True)
        res = {}
        for line in r.stdout.splitlines():
            parts = line.split()
            if len(parts) >= 3 and ctx.prop in parts[1].split(","):
                res[parts[0]] = parts[2]
        ck.cov["selftest"] = res
        for k, v in sorted(res.items()):
            if v in ("MISSED", "broken"):
                print("SELFTEST-MISS: mutant %s of %s was not reported (%s)" % (k, ctx.prop, v))
            if v == "FALSE-ALARM":
                print("SELFTEST-FALSE-ALARM: behaviour-preserving variant %s raises an alarm in %s or a sibling check" % (k, ctx.prop))
    # (3b) the independently seeded breaking changes this property's rules are recorded to report (seeded/*/meta.json):
    # each is applied to a scratch copy of /repo's sources; the check must fail there and name one of the recorded rules
    if os.environ.get("AX_NO_SELFTEST") != "1" and F.REPO == "/repo":
        try:
            ck.cov["seeded_changes"] = run_seeds(ctx.prop)
            for sid, st_ in sorted(ck.cov["seeded_changes"].items()):
                if st_ != "reported":
                    print("SELFTEST-MISS: seeded change %s is not reported by %s (%s)" % (sid, ctx.prop, st_))
        except Exception as e:  # noqa
            ck.cov["seeded_changes"] = "error: %s" % e
    # (5) E3 compile-fail witnesses (type-level part of the who-may-write rules)
    wmap = {"C09": ("AreaTypeIsPrivate", "StateIsPrivate", "FetchIsCrateInternal"), "C10": ("AreaTypeIsPrivate", "StateIsPrivate"),
            "C11": ("FinishedIsPrivate", "LoopControlIsPrivate"), "C12": ("HooksArePrivate",), "C04": ("LoopControlIsPrivate",)}
    if ctx.prop in wmap and F.REPO == "/repo":
        res = run_witnesses()
        ck.cov["witnesses"] = {k: v for k, v in res.items() if any(k.startswith(w) for w in wmap[ctx.prop])}
        for k, v in sorted(res.items()):
            if any(k.startswith(w) for w in wmap[ctx.prop]):
                if v == "ok":
                    ck.ok("%s.witness" % ctx.prop, k)
                else:
                    ck.violation("%s.witness" % ctx.prop, k, "witness %s" % v,
                                 what="external code can now reach state the property relies on being crate-private "
                                      "(or the compiling twin broke: the witness path is wrong)")
    if hasattr(mod, "thorough"):
        mod.thorough(ctx)


def run_seeds(prop):
    import glob
    import re
    import shutil
    import tempfile
    out = {}
    for mp in sorted(glob.glob(os.path.join(F.VERIF, "seeded", "S*", "meta.json"))):
        meta = json.load(open(mp))
        rules = [r for r in meta.get("detected_by", []) if r.startswith(prop + ".")]
        if not rules:
            continue
        base = tempfile.mkdtemp(prefix="axseedchk-")
        try:
            tree = os.path.join(base, "tree")
            os.makedirs(tree)
            for n in ("Cargo.toml", "Cargo.lock"):
                shutil.copy(os.path.join(F.REPO, n), tree)
            shutil.copytree(os.path.join(F.REPO, "src"), os.path.join(tree, "src"))
            r = subprocess.run(["git", "apply", os.path.join(os.path.dirname(mp), "patch.diff")], cwd=tree, capture_output=True, text=True)
            if r.returncode != 0:
                out[meta["id"]] = "patch no longer applies"
                continue
            env = dict(os.environ, AX_REPO=tree, AX_CACHE=os.path.join(base, "cache"), AX_EVIDENCE_DIR=os.path.join(base, "ev"))
            r = subprocess.run([sys.executable, "-m", "axcheck_py", prop], cwd=F.VERIF, env=env, capture_output=True, text=True)
            fired = set(re.findall(r"rule=(\S+)", r.stdout + r.stderr))
            out[meta["id"]] = "reported" if r.returncode == 1 and fired & set(rules) else "rc=%d rules=%s" % (r.returncode, sorted(fired)[:4])
        finally:
            shutil.rmtree(base, ignore_errors=True)
    return out


def run_witnesses():
    """cargo +nightly test --doc on tools/axwitness: {test name: ok|failed}"""
    import re
    import shutil
    d = os.path.join(F.VERIF, "tools", "axwitness")
    shutil.copyfile(os.path.join(F.REPO, "Cargo.lock"), os.path.join(d, "Cargo.lock"))
    env = dict(os.environ)
    env["CARGO_NET_OFFLINE"] = "true"
    env["CARGO_TARGET_DIR"] = os.path.join(F.CACHE, "witness-target")
    r = subprocess.run(["cargo", "+nightly", "test", "--doc", "--offline"], cwd=d, env=env, capture_output=True, text=True)
    out = {}
    for m in re.finditer(r"test src/lib.rs - (\w+) \(line (\d+)\)( - compile fail)?( - compile)? \.\.\. (\w+)", r.stdout):
        out["%s@%s%s" % (m.group(1), m.group(2), ":compile_fail" if m.group(3) else ":twin")] = "ok" if m.group(5) == "ok" else "failed"
    if not out:
        raise F.BrokenRun("witness crate did not run: " + r.stderr[-1500:])
    return out
