"""Abstract model of one `step`: the coroutine body of `Axecutor::step` is interpreted with its
callees as primitives (decode, dispatch, hook runners, register accessors)."""
from . import absint as A
from . import facts as F
from . import prims as P

AXE = "axecutor::Axecutor"
POLL = "adt:std::task::Poll"


def step_body(facts):
    c = [k for k in facts.bodies if k.endswith("::step::{closure#0}") and facts.bodies[k].get("coroutine")
         and facts.bodies[k.rsplit("::{closure", 1)[0]].get("impl_self") == AXE]
    if len(c) != 1:
        raise KeyError("step coroutine body matches %d bodies" % len(c))
    return facts.bodies[c[0]]


def coroutine_env(body, selfref):
    """the coroutine struct: upvar 0 is `self`"""
    return ("agg", "coroutine:" + body["path"], None, (selfref,))


class StepPrims:
    def __init__(self, ctx, hooks=True):
        facts = ctx.facts
        self.F = facts
        self.R = ctx.roles
        self.ctx = ctx
        self.hooks = hooks
        self.hp = P.HandlerPrims(facts, ctx.roles)
        self.decode_next = ctx.roles.decoders()[0]
        self.dispatch = ctx.dispatch.top["path"]
        _rf, self.run_before, self.run_after, self.mnemonic_hooks, _em = ctx.roles.hook_roles()
        self.renderers = {facts.method(AXE, n)["path"] for n in ("call_stack", "trace")}

    def _one_in(self, impl_self, name):
        return self.F.method(impl_self, name)["path"]

    def intercept(self, I, path, frame, t, name, args):
        ev = path.events
        if name == self.decode_next:
            p2 = path.copy()
            ev.append(("decode", "ok"))
            p2.events.append(("decode", "err"))
            return [(A.OK(("instr",)), path), (A.ERR(("decode_err",)), p2)]
        if name == "iced_x86::Instruction::next_ip":
            return [(A.W(("next_ip", I._deref_all(path, args[0])), 64), path)]
        if name == "iced_x86::Instruction::mnemonic":
            return [(("mnemonic_of", I._deref_all(path, args[0])), path)]
        if name.endswith(("::try_into", "::try_from")) and args and args[0][0] == "mnemonic_of":
            p2 = path.copy()
            ev.append(("mnem", "ok"))
            p2.events.append(("mnem", "err"))
            return [(A.OK(("mnem", args[0][1])), path), (A.ERR(("mnem_err",)), p2)]
        if name == self.mnemonic_hooks:
            ev.append(("hook_lookup", args[1]))
            if not self.hooks:
                return [(A.NONE, path)]
            p2 = path.copy()
            p2.events.append(("hooks", "none"))
            ev.append(("hooks", "some"))
            return [(A.SOME(("hookset", args[1])), path), (A.NONE, p2)]
        if name in (self.run_before, self.run_after):
            which = "before" if name == self.run_before else "after"
            ev.append(("run_" + which, I._deref_all(path, args[0]), args[2]))
            return [(("future", which, len(ev)), path)]
        if name.endswith("::into_future"):
            return [(args[0], path)]
        if name.endswith("Pin::<Ptr>::new_unchecked"):
            return [(args[0], path)]
        if name in (self.run_before + "::{closure#0}", self.run_after + "::{closure#0}"):
            which = "before" if name.startswith(self.run_before) else "after"
            outs = []
            for res, tag in ((("agg", POLL, 0, (A.OK(A.UNIT),)), "ready_ok"),
                             (("agg", POLL, 0, (A.ERR(("hook_err", which)),)), "ready_err"),
                             (("agg", POLL, 1, ()), "pending")):
                p = path.copy()
                p.events.append(("poll_" + which, tag))
                # a hook may change any machine state
                if tag != "pending":
                    p.ver += 1
                    p.tags["regver"] = p.tags.get("regver", 0) + 1
                    st = p.store.get(("H", "self"))
                    p.store[("H", "self")] = ("init", "self", p.ver)
                    p.tags["hook_havoc"] = p.ver
                outs.append((res, p))
            return outs
        if name == self.dispatch:
            p2 = path.copy()
            ev.append(("dispatch", "ok", args[1]))
            p2.events.append(("dispatch", "err", args[1]))
            # an instruction may change any register / memory
            for p in (path, p2):
                p.tags["regver"] = p.tags.get("regver", 0) + 1
            return [(A.OK(A.UNIT), path), (A.ERR(("insn_err",)), p2)]
        if name in self.renderers:
            return [(A.OK(("str", name.rsplit("::", 1)[1])), path)]
        if name.endswith("AxError::add_detail"):
            return [(("detailed", I._deref_all(path, args[0])), path)]
        return self.hp.intercept(I, path, frame, t, name, args)


def _readonly_helper(b):
    """a small private `&self` method of the machine (e.g. an extracted precondition check): interpreted inline; the
    roles (decoder, dispatch, hook runners, accessors, renderers) are intercepted before inlining is considered"""
    if b.get("impl_self") != AXE or b["kind"] == "Closure" or b.get("coroutine") or b["argc"] < 1:
        return False
    l1 = b["locals"][1]
    # `&self` helpers (extracted checks) and `&mut self` helpers (an extracted piece of the step itself, e.g. a wrapper
    # classifying the dispatcher's result): private, small, not one of the intercepted roles
    return isinstance(l1, list) and l1[0] == "ref" and len(b["blocks"]) <= 120 and b["vis"] != "pub"


def run_step(ctx, hooks=True, assume=None, order=None, cmp_oracle=None):
    facts = ctx.facts
    body = step_body(facts)
    sp = StepPrims(ctx, hooks=hooks)
    I = A.Interp(facts, intercept=sp.intercept, may_inline=lambda n, b: (b["kind"] == "Closure" and not b.get("coroutine")) or (b.get("impl_trait") or "").startswith("std::convert::From<") or _readonly_helper(b),
                 max_paths=400000)
    if cmp_oracle is not None:
        I.cmp_oracle = cmp_oracle
    path = A.Path()
    if assume:
        path.assume = assume
    if order is not None:
        path.tags["order"] = order
    env = coroutine_env(body, P.self_ref(True))
    tmp = ("L", ("step-env",), 0)
    path.store[tmp] = env
    # coroutine body args: (Pin<&mut Self>, ResumeTy)
    # borrowck-phase coroutine bodies take the coroutine struct by value as _1
    outs = list(I.run(body, [env, ("resume_ctx",)], path))
    return outs, I, body
