"""Contents of the crate's lazy_static tables, evaluated from their initialisers' MIR."""
from . import absint as A


def static_elements(facts, static_path):
    """Evaluate `[..literal array..].iter().map(closure).collect()`: returns the list of mapped
    elements (terms), or raises KeyError when the initialiser has another shape."""
    init = static_path_init(facts, static_path)
    body = facts.bodies[init]
    if not body["promoted"]:
        raise KeyError("initialiser of %s has no promoted literal" % static_path)
    I = A.Interp(facts)
    path = A.Path()
    fr = A.Frame(body, 0)
    arr = I.eval_promoted(path, fr, 0)
    arr = I._deref_all(path, arr)
    if arr[0] != "agg" or arr[1] != "array":
        raise KeyError("initialiser literal of %s is not an array: %s" % (static_path, A.show(arr)))
    clos = facts.closures_of(init)
    if len(clos) != 1:
        raise KeyError("initialiser of %s has %d closures" % (static_path, len(clos)))
    cb = facts.bodies[clos[0]]
    out = []
    for i, el in enumerate(arr[3]):
        p = A.Path()
        tmp = ("L", ("static-el", static_path, i), 0)
        p.store[tmp] = el
        envl = ("L", ("static-env", static_path, i), 0)
        p.store[envl] = ("agg", "closure:" + clos[0], None, ())
        outs = list(I.run(cb, [("ref", (envl, ()), True), ("ref", (tmp, ()), False)], p))
        rets = [o for o in outs if o.kind == "return"]
        if len(rets) != 1:
            raise KeyError("element %d of %s: %s" % (i, static_path, [repr(o) for o in outs][:3]))
        out.append(rets[0].value)
    return out


def static_path_init(facts, static_path):
    k = "<%s as std::ops::Deref>::deref::__static_ref_initialize" % static_path
    if k not in facts.bodies:
        raise KeyError("no lazy_static initialiser for %s" % static_path)
    return k


def sreg_name(facts, t):
    if t[0] == "agg" and t[1] == "adt:state::registers::SupportedRegister":
        ev = facts.enum_variant("state::registers::SupportedRegister", t[2])
        return ev[0] if ev else None
    return None
