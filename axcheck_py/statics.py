"""Contents of the crate's lazy_static tables, evaluated from their initialisers' MIR."""
from . import absint as A


def static_elements(facts, static_path):
    """Evaluate `[..literal array..].iter().map(closure).collect()`: returns the list of mapped
    elements (terms), or raises KeyError when the initialiser has another shape."""
    init = static_path_init(facts, static_path)
    body = facts.bodies[init]
    if not body["promoted"]:
        raise KeyError("initialiser of %s has no promoted literal" % static_path)
    I = A.Interp(facts)
    path = A.Path()
    fr = A.Frame(body, 0)
    arr = I.eval_promoted(path, fr, 0)
    arr = I._deref_all(path, arr)
    if arr[0] != "agg" or arr[1] != "array":
        raise KeyError("initialiser literal of %s is not an array: %s" % (static_path, A.show(arr)))
    clos = facts.closures_of(init)
    if len(clos) != 1:
        raise KeyError("initialiser of %s has %d closures" % (static_path, len(clos)))
    cb = facts.bodies[clos[0]]
    out = []
    for i, el in enumerate(arr[3]):
        p = A.Path()
        tmp = ("L", ("static-el", static_path, i), 0)
        p.store[tmp] = el
        envl = ("L", ("static-env", static_path, i), 0)
        p.store[envl] = ("agg", "closure:" + clos[0], None, ())
        outs = list(I.run(cb, [("ref", (envl, ()), True), ("ref", (tmp, ()), False)], p))
        rets = [o for o in outs if o.kind == "return"]
        if len(rets) != 1:
            raise KeyError("element %d of %s: %s" % (i, static_path, [repr(o) for o in outs][:3]))
        out.append(rets[0].value)
    return out


def static_path_init(facts, static_path):
    k = "<%s as std::ops::Deref>::deref::__static_ref_initialize" % static_path
    if k not in facts.bodies:
        raise KeyError("no lazy_static initialiser for %s" % static_path)
    return k


def sreg_name(facts, t):
    if t[0] == "agg" and t[1] == "adt:state::registers::SupportedRegister":
        ev = facts.enum_variant("state::registers::SupportedRegister", t[2])
        return ev[0] if ev else None
    return None


def eval_static(facts, static_path):
    """Interpret a lazy_static initialiser of any shape with concrete collections (HashMap / HashSet / Vec built by new +
    insert / push, `from([..])`, or `collect()` of an iterator chain over literal arrays). Returns ('map', [(k, v), ..]),
    ('set', [..]) or ('list', [..]); raises KeyError when the initialiser leaves the concrete domain."""
    init = static_path_init(facts, static_path)
    body = facts.bodies[init]

    def kind_of(txt):
        if "HashMap" in txt or "BTreeMap" in txt:
            return "map"
        if "HashSet" in txt or "BTreeSet" in txt:
            return "set"
        if "Vec" in txt:
            return "list"
        return None

    def add(cur, k, elems):
        kind, items = cur[1], list(cur[2])
        for e in elems:
            if kind == "map":
                if not (e[0] == "agg" and len(e[3]) == 2):
                    raise KeyError("map element of %s is not a pair: %s" % (static_path, A.show(e)[:60]))
                items = [x for x in items if x[3][0] != e[3][0]] + [e]
            elif kind == "set":
                if e not in items:
                    items.append(e)
            else:
                items.append(e)
        return ("ccoll", kind, tuple(items))

    def icpt(I, path, frame, t, name, args):
        short = name.rsplit("::", 1)[1].split("::<")[0] if "::" in name else name
        g = " ".join(t["f"].get("gargs", []))
        k = kind_of(name.split("::<")[0] if short not in ("from", "collect", "from_iter") else name + " " + g)
        if short in ("new", "with_capacity", "default", "with_capacity_and_hasher") and kind_of(name):
            return [(("ccoll", kind_of(name), ()), path)]
        if short in ("from", "from_iter") and k and len(args) == 1:
            src = I._deref_all(path, args[0])
            elems = src[3] if src[0] == "agg" and src[1] == "array" else src[1] if src[0] == "citer" else None
            if elems is not None:
                return [(add(("ccoll", k, ()), k, [I._deref_all(path, e, 1) if e[0] == "ref" else e for e in elems]), path)]
        if short == "collect" and len(args) == 1:
            src = I._deref_all(path, args[0])
            kk = kind_of(g.split(",")[-1]) or kind_of(g)
            if src[0] == "citer" and kk:
                return [(add(("ccoll", kk, ()), kk, list(src[1])), path)]
        if short in ("insert", "push") and args and args[0][0] == "ref":
            cur = I.read_loc(path, args[0][1])
            if cur[0] == "ccoll":
                el = ("agg", "tuple", None, (args[1], args[2])) if cur[1] == "map" and len(args) == 3 else args[1]
                I.write_loc(path, args[0][1], add(cur, cur[1], [el]))
                return [(("ret", "insert-old", (), len(path.events)), path)]
        if short in ("len",) and args:
            cur = I._deref_all(path, args[0])
            if cur[0] == "ccoll":
                return [(A.INT(len(cur[2]), 64), path)]
        if short in ("iter", "into_iter") and args:
            cur = I._deref_all(path, args[0])
            if cur[0] == "ccoll" and cur[1] != "map":
                return [(("citer", cur[2]), path)]
        return None
    I = A.Interp(facts, intercept=icpt, max_paths=2000)
    I.concrete_ranges = True
    outs = [o for o in I.run(body, [], A.Path())]
    rets = [o for o in outs if o.kind == "return"]
    if len(outs) != 1 or len(rets) != 1:
        raise KeyError("initialiser of %s does not evaluate to one value (%d outcomes)" % (static_path, len(outs)))
    v = I._deref_all(rets[0].path, rets[0].value)
    if v[0] != "ccoll" or not all(A.ground(e) for e in v[2]):
        raise KeyError("initialiser of %s leaves the concrete domain: %s" % (static_path, A.show(v)[:80]))
    if v[1] == "map":
        return ("map", [(e[3][0], e[3][1]) for e in v[2]])
    return (v[1], list(v[2]))


def static_items(facts, static_path):
    """elements of a lazy_static table, by whichever evaluator applies: list of terms (map entries as 2-tuples aggregates)"""
    try:
        return static_elements(facts, static_path)
    except KeyError as e1:
        try:
            kind, items = eval_static(facts, static_path)
        except KeyError as e2:
            raise KeyError("%s; %s" % (e1, e2))
        if kind == "map":
            return [("agg", "tuple", None, (k, v)) for k, v in items]
        return items
