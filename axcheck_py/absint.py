"""A4/A3/A6: path-partitioned abstract interpretation of borrowck-phase MIR.

Values are hash-consed symbolic terms (tuples). Everything that depends on the
guest (registers, memory, immediates) is an opaque leaf term; the interpreter
never holds a concrete guest value. Branches whose condition is decided by the
constants/assumptions of the *class* under analysis follow one edge; all other
branches fork, and the decision is remembered per term so that two tests of the
same value agree along a path (opaque-atom consistency). No solver is involved.

Term forms
  ('int', v, bits)                         constant
  ('init', name, ver) / ('leaf', ...)      unknown initial value
  ('field', t, key) ('vfield', t, variant, idx) ('deref', t) ('index', t, i)
  ('discr', t)                             discriminant of an opaque enum value
  ('bin', op, a, b, bits) ('un', op, a, bits) ('cast', a, frombits, fromsigned, tobits)
  ('agg', kind, variant, fields)           kind: 'tuple' | 'array' | 'adt:<path>' | 'closure:<def>' | 'coroutine:<def>'
  ('ovl', base, ((key, val), ...))         opaque struct with some known fields
  ('ref', loc, mut)                        loc = (root, proj)
  ('fn', def, resolved, closures)
  ('ret', callee, args, ver)               result of an un-inlined call
  ('str', text) ('k', text)                other constants
  ('top', n)
"""
import itertools
import sys

from . import facts as F

sys.setrecursionlimit(20000)

_top_counter = itertools.count()

NONDET_CRATES = ("rand", "rand_core", "getrandom", "rand_chacha")
NONDET_PREFIXES = ("std::time::", "std::env::", "std::process::id", "std::thread::current", "rand::")


ENUM_NAMES = {}  # adt path -> [variant names], filled when facts are loaded (rendering only)


def TOP(tag="?"):
    return ("top", tag, next(_top_counter))


def mask(bits):
    return (1 << bits) - 1


def INT(v, bits=64):
    return ("int", v & mask(bits), bits)


TRUE = ("int", 1, 8)
FALSE = ("int", 0, 8)
UNIT = ("agg", "tuple", None, ())

RESULT = "adt:std::result::Result"
OPTION = "adt:std::option::Option"
CFLOW = "adt:std::ops::ControlFlow"


def OK(v):
    return ("agg", RESULT, 0, (v,))


def ERR(e):
    return ("agg", RESULT, 1, (e,))


def SOME(v):
    return ("agg", OPTION, 1, (v,))


NONE = ("agg", OPTION, 0, ())


def is_int(t):
    return t[0] == "int"


def LEN(x):
    while x[0] in ("deref", "w"):
        x = x[1]
    return ("len", x)


def ty_bits(ty):
    """(bits, signed) of a type json, or None."""
    if ty == "bool":
        return (8, False)
    if ty == "char":
        return (32, False)
    if isinstance(ty, list):
        if ty[0] == "u":
            return (ty[1], False)
        if ty[0] == "i":
            return (ty[1], True)
    return None


class Path:
    __slots__ = ("store", "facts", "refine", "events", "ver", "visits", "maxbits", "assume", "tags", "conds",
                 "bitfacts")

    def __init__(self):
        self.store = {}
        self.facts = {}
        self.refine = {}
        self.events = []
        self.ver = 0
        self.visits = {}
        self.maxbits = {}
        self.assume = {}
        self.tags = {}
        self.conds = []
        self.bitfacts = {}

    def copy(self):
        p = Path()
        p.store = dict(self.store)
        p.facts = dict(self.facts)
        p.refine = dict(self.refine)
        p.events = list(self.events)
        p.ver = self.ver
        p.visits = dict(self.visits)
        p.maxbits = dict(self.maxbits)
        p.assume = self.assume  # shared, read-only during a run
        p.tags = dict(self.tags)
        p.conds = list(self.conds)
        p.bitfacts = dict(self.bitfacts)
        return p


class Frame:
    _ids = itertools.count(1)

    def __init__(self, body, depth, parent=None, callsite=None):
        self.body = body
        self.fid = next(Frame._ids)
        self.depth = depth
        self.parent = parent
        self.callsite = callsite
        self.gargs = None

    def stack(self):
        out = []
        f = self
        while f is not None:
            out.append(f.body["path"])
            f = f.parent
        return out


class Cut(Exception):
    pass


# --------------------------------------------------------------------------- bit vectors (A6)

def width_of(t, default=64):
    k = t[0]
    if k == "int":
        return t[2]
    if k == "bin":
        return t[4]
    if k == "un":
        return t[3]
    if k == "cast":
        return t[4]
    if k == "w":
        return t[2]
    return default


def W(t, bits):
    """annotate an opaque term with a width"""
    if t[0] in ("int", "bin", "un", "cast", "w", "agg", "ref"):
        return t
    return ("w", t, bits)


def bit_not(b):
    if b is None:
        return None
    if b == 0:
        return 1
    if b == 1:
        return 0
    return (b[0], b[1], not b[2])


def bit_and(a, b):
    if a == 0 or b == 0:
        return 0
    if a == 1:
        return b
    if b == 1:
        return a
    if a is None or b is None:
        return None
    if a == b:
        return a
    if a[0] == b[0] and a[1] == b[1]:
        return 0  # x & !x
    return None


def bit_or(a, b):
    if a == 1 or b == 1:
        return 1
    if a == 0:
        return b
    if b == 0:
        return a
    if a is None or b is None:
        return None
    if a == b:
        return a
    if a[0] == b[0] and a[1] == b[1]:
        return 1
    return None


def bit_xor(a, b):
    if a == 0:
        return b
    if b == 0:
        return a
    if a == 1:
        return bit_not(b)
    if b == 1:
        return bit_not(a)
    if a is None or b is None:
        return None
    if a == b:
        return 0
    if a[0] == b[0] and a[1] == b[1]:
        return 1
    return None


def bv_value(bv):
    v = 0
    for i, b in enumerate(bv):
        if b == 1:
            v |= 1 << i
        elif b != 0:
            return None
    return v


def bv_range(bv):
    lo = hi = 0
    for i, b in enumerate(bv):
        if b == 1:
            lo |= 1 << i
            hi |= 1 << i
        elif b != 0:
            hi |= 1 << i
    return lo, hi


def bitvec(t, path, depth=0):
    """Per-bit provenance of term t: list (LSB first) of 0 | 1 | None | (src, k, negated)."""
    w = width_of(t)
    bv = _bitvec(t, path, w, depth)
    mb = path.maxbits.get(t)
    if mb is not None and mb < len(bv):
        bv = bv[:mb] + [0] * (len(bv) - mb)
    if path.bitfacts:
        bf = path.bitfacts
        for i, b in enumerate(bv):
            if b is not None and b != 0 and b != 1:
                v = bf.get((b[0], b[1]))
                if v is not None:
                    bv[i] = (1 - v) if b[2] else v
    return bv


def _bitvec(t, path, w, depth):
    if depth > 40:
        return [None] * w
    f = path.facts.get(t)
    if f is not None and f[0] == "eq":
        return [(f[1] >> i) & 1 for i in range(w)]
    a = path.assume.get(t)
    if a is not None:
        return list(a)
    k = t[0]
    if k == "int":
        return [(t[1] >> i) & 1 for i in range(t[2])]
    if k == "w":
        inner = t[1]
        if isinstance(inner, tuple) and inner and inner[0] in ("w", "bin", "un", "cast", "int"):
            # a width annotation around a structured term (or another annotation): the bits of that term
            bv_ = bitvec(inner, path, depth + 1)
            return (list(bv_) + [0] * w)[:w]
        a = path.assume.get(inner)
        if a is not None:
            return list(a)[:w] + [0] * max(0, w - len(a))
        f = path.facts.get(inner)
        if f is not None and f[0] == "eq":
            return [(f[1] >> i) & 1 for i in range(w)]
        mb = path.maxbits.get(inner)
        bv = [(inner, i, False) for i in range(w)]
        if mb is not None and mb < w:
            bv = bv[:mb] + [0] * (w - mb)
        return bv
    if k == "cast":
        _, a, fb, fs, tb = t
        av = bitvec(a, path, depth + 1)
        if len(av) < fb:
            av = av + [0] * (fb - len(av))
        av = av[:fb]
        if tb <= fb:
            return av[:tb]
        ext = av[-1] if (fs and av) else 0
        return av + [ext] * (tb - fb)
    if k == "un":
        _, op, a, bits = t
        av = bitvec(a, path, depth + 1)
        if op == "Not":
            if bits == 8 and len(av) == 8 and width_of(a) == 8 and a[0] == "bin" and a[4] == 8 and a[1] in CMP_OPS:
                return [bit_not(av[0])] + [0] * 7
            return [bit_not(b) for b in av]
        return [None] * bits
    if k == "bin":
        _, op, a, b, bits = t
        if op in ("BitAnd", "BitOr", "BitXor"):
            av = bitvec(a, path, depth + 1)
            bw = bitvec(b, path, depth + 1)
            n = max(len(av), len(bw), bits)
            av = av + [0] * (n - len(av))
            bw = bw + [0] * (n - len(bw))
            fn = {"BitAnd": bit_and, "BitOr": bit_or, "BitXor": bit_xor}[op]
            return [fn(x, y) for x, y in zip(av, bw)][:bits]
        if op in ("Shl", "Shr", "ShlUnchecked", "ShrUnchecked"):
            av = bitvec(a, path, depth + 1)
            cv = bv_value(bitvec(b, path, depth + 1))
            if cv is None:
                return [None] * bits
            av = av + [0] * (bits - len(av))
            if cv >= bits:
                return [None] * bits
            if op.startswith("Shl"):
                return ([0] * cv + av)[:bits]
            signed = path.tags.get(("signed", t), False)
            ext = av[-1] if signed else 0
            return av[cv:] + [ext] * cv
        if op in CMP_OPS:
            av = bitvec(a, path, depth + 1)
            bw = bitvec(b, path, depth + 1)
            n = max(len(av), len(bw))
            av = av + [0] * (n - len(av))
            bw = bw + [0] * (n - len(bw))
            if op in ("Lt", "Le", "Gt", "Ge") and path.tags.get(("signed", t)):
                wa_ = width_of(a)
                sa_ = av[wa_ - 1] if wa_ <= len(av) else None
                sb_ = bw[wa_ - 1] if wa_ <= len(bw) else None
                va_, vb_ = bv_value(av), bv_value(bw)
                if va_ is not None and vb_ is not None:
                    x_, y_ = to_signed(va_, wa_), to_signed(vb_, wa_)
                    r = int({"Lt": x_ < y_, "Le": x_ <= y_, "Gt": x_ > y_, "Ge": x_ >= y_}[op])
                    return [r] + [0] * (bits - 1)
                if not (sa_ == 0 and sb_ == 0):
                    return [None] + [0] * (bits - 1)   # a sign bit is unknown: the unsigned order says nothing
            r = _cmp_bits(op, av, bw, a == b)
            return [r] + [0] * (bits - 1)
        if op in ("Add", "Sub", "Mul", "AddUnchecked", "SubUnchecked", "MulUnchecked"):
            av = bv_value(bitvec(a, path, depth + 1))
            bw = bv_value(bitvec(b, path, depth + 1))
            if av is not None and bw is not None:
                if op.startswith("Add"):
                    v = av + bw
                elif op.startswith("Sub"):
                    v = av - bw
                else:
                    v = av * bw
                v &= mask(bits)
                return [(v >> i) & 1 for i in range(bits)]
            if op.startswith("Add") or op.startswith("Sub"):
                # x +/- 0
                if bw == 0:
                    return bitvec(a, path, depth + 1)[:bits]
                xa = bitvec(a, path, depth + 1)
                xb = bitvec(b, path, depth + 1)
                xa = (xa + [0] * bits)[:bits]
                xb = (xb + [0] * bits)[:bits]
                if op.startswith("Add") and all(p_ == 0 or q_ == 0 for p_, q_ in zip(xa, xb)):
                    # no position where both can be 1: the sum has no carries, it is the bitwise or
                    return [q_ if p_ == 0 else p_ for p_, q_ in zip(xa, xb)]
                if op.startswith("Sub"):
                    # x - (x & m) / x - (x % 2^k) with the very same term x (whatever its bits are): x & !m
                    sb_ = b
                    while sb_[0] in ("w",) and isinstance(sb_[1], tuple):
                        sb_ = sb_[1]
                    sa_ = a
                    while sa_[0] in ("w",) and isinstance(sa_[1], tuple):
                        sa_ = sa_[1]
                    m_ = None
                    if sb_[0] == "bin" and sb_[1] == "BitAnd" and is_int(sb_[3]):
                        inner_ = sb_[2]
                        m_ = sb_[3][1]
                    elif sb_[0] == "bin" and sb_[1] == "Rem" and is_int(sb_[3]) and sb_[3][1] > 0 and sb_[3][1] & (sb_[3][1] - 1) == 0:
                        inner_ = sb_[2]
                        m_ = sb_[3][1] - 1
                    if m_ is not None:
                        while inner_[0] in ("w",) and isinstance(inner_[1], tuple):
                            inner_ = inner_[1]
                        if inner_ == sa_:
                            return [0 if (m_ >> i_) & 1 else xa[i_] for i_ in range(bits)]
                if op.startswith("Sub") and all(q_ == 0 or (q_ is not None and q_ == p_) for p_, q_ in zip(xa, xb)):
                    # y = x & m (every bit of y is 0 or the same bit of x): x - y = x & !m, no borrows
                    return [p_ if q_ == 0 else 0 for p_, q_ in zip(xa, xb)]
            if op.startswith("Mul") and (av == 0 or bw == 0):
                return [0] * bits
            if op.startswith("Mul"):
                # x * 2^k = a left shift
                for cst, other in ((av, b), (bw, a)) if False else ((av, b), (bw, a)):
                    if cst is not None and cst > 0 and cst & (cst - 1) == 0:
                        k_ = cst.bit_length() - 1
                        ov = bitvec(other, path, depth + 1)
                        ov = ov + [0] * (bits - len(ov))
                        return ([0] * k_ + ov)[:bits]
            return [None] * bits
        if op in ("Rem", "Div") and not path.tags.get(("signed", t), False):
            # unsigned x % 2^k = the low k bits, x / 2^k = a right shift
            cv = bv_value(bitvec(b, path, depth + 1))
            if cv is not None and cv > 0 and cv & (cv - 1) == 0:
                k_ = cv.bit_length() - 1
                av = bitvec(a, path, depth + 1)
                av = av + [0] * (bits - len(av))
                if op == "Rem":
                    return (av[:k_] + [0] * bits)[:bits]
                return (av[k_:] + [0] * bits)[:bits]
            av = bv_value(bitvec(a, path, depth + 1))
            if av is not None and cv:
                v = (av % cv) if op == "Rem" else (av // cv)
                return [(v >> i) & 1 for i in range(bits)]
            return [None] * bits
        if op in ("AddOvf", "SubOvf", "MulOvf"):
            av = bv_range(bitvec(a, path, depth + 1))
            bw = bv_range(bitvec(b, path, depth + 1))
            # unsigned only: decide when ranges decide
            wbits = width_of(a)
            if not path.tags.get(("signed", t), False):
                if op == "AddOvf":
                    if av[1] + bw[1] <= mask(wbits):
                        return [0] + [0] * (bits - 1)
                    if av[0] + bw[0] > mask(wbits):
                        return [1] + [0] * (bits - 1)
                if op == "SubOvf":
                    if av[0] >= bw[1]:
                        return [0] + [0] * (bits - 1)
                    if av[1] < bw[0]:
                        return [1] + [0] * (bits - 1)
                if op == "MulOvf":
                    if av[1] * bw[1] <= mask(wbits):
                        return [0] + [0] * (bits - 1)
            elif av[0] == av[1] and bw[0] == bw[1] and wbits:
                # signed, both operands known: exact
                sa_, sb_ = to_signed(av[0], wbits), to_signed(bw[0], wbits)
                r_ = sa_ + sb_ if op == "AddOvf" else sa_ - sb_ if op == "SubOvf" else sa_ * sb_
                return [int(not (-(1 << (wbits - 1)) <= r_ < (1 << (wbits - 1))))] + [0] * (bits - 1)
            return [None] + [0] * (bits - 1)
        return [None] * bits
    # opaque leaf without a width annotation
    bv = [(t, i, False) for i in range(w)]
    return bv


CMP_OPS = ("Eq", "Ne", "Lt", "Le", "Gt", "Ge")


def _cmp_bits(op, av, bw, same):
    if same:
        return 1 if op in ("Eq", "Le", "Ge") else 0
    if op in ("Eq", "Ne"):
        differ = False
        alleq = True
        for x, y in zip(av, bw):
            if x in (0, 1) and y in (0, 1):
                if x != y:
                    differ = True
            elif x is not None and x == y:
                pass
            elif x is not None and y is not None and x not in (0, 1) and y not in (0, 1) \
                    and x[0] == y[0] and x[1] == y[1] and x[2] != y[2]:
                differ = True
            else:
                alleq = False
        if differ:
            return 0 if op == "Eq" else 1
        if alleq:
            return 1 if op == "Eq" else 0
        return None
    alo, ahi = bv_range(av)
    blo, bhi = bv_range(bw)
    if op == "Lt":
        if ahi < blo:
            return 1
        if alo >= bhi:
            return 0
    if op == "Le":
        if ahi <= blo:
            return 1
        if alo > bhi:
            return 0
    if op == "Gt":
        if alo > bhi:
            return 1
        if ahi <= blo:
            return 0
    if op == "Ge":
        if alo >= bhi:
            return 1
        if ahi < blo:
            return 0
    return None


# --------------------------------------------------------------------------- interpreter


def _mentions_top(t, depth=0):
    if not isinstance(t, tuple) or depth > 12:
        return False
    if t and t[0] == "top":
        return True
    for x in t:
        if isinstance(x, tuple) and _mentions_top(x, depth + 1):
            return True
    return False


class Outcome:
    __slots__ = ("kind", "value", "path", "site", "cls", "stack", "msg")

    def __init__(self, kind, value, path, site=None, cls=None, stack=None, msg=None):
        self.kind = kind  # 'return' | 'panic' | 'cut'
        self.value = value
        self.path = path
        self.site = site
        self.cls = cls
        self.stack = stack
        self.msg = msg

    def __repr__(self):
        return "<%s %s %s %s>" % (self.kind, self.cls or "", self.site or "", show(self.value) if self.value else "")


def show(t, depth=0):
    if t is None:
        return "-"
    if depth > 6:
        return "…"
    k = t[0]
    if k == "int":
        return hex(t[1]) if t[1] > 9 else str(t[1])
    if k == "w":
        return show(t[1], depth)
    if k == "bin":
        return "(%s %s %s)" % (show(t[2], depth + 1), t[1], show(t[3], depth + 1))
    if k == "un":
        return "%s(%s)" % (t[1], show(t[2], depth + 1))
    if k == "cast":
        return "(%s as %s%d)" % (show(t[1], depth + 1), "i" if False else "u", t[4]) if not t[3] else \
            "(%s:i%d as %d)" % (show(t[1], depth + 1), t[2], t[4])
    if k == "agg":
        name = t[1].split("::")[-1]
        names = ENUM_NAMES.get(t[1][4:]) if t[1].startswith("adt:") else None
        if names and t[2] is not None and t[2] < len(names):
            if not t[3]:
                return names[t[2]]
            return "%s(%s)" % (names[t[2]], ", ".join(show(x, depth + 1) for x in t[3]))
        return "%s#%s(%s)" % (name, t[2], ", ".join(show(x, depth + 1) for x in t[3]))
    if k == "ret":
        return "%s(%s)" % (t[1].split("::")[-1], ", ".join(show(x, depth + 1) for x in t[2]))
    if k == "field":
        return "%s.%s" % (show(t[1], depth + 1), t[2])
    if k == "vfield":
        return "%s@%s.%s" % (show(t[1], depth + 1), t[2], t[3])
    if k == "init":
        return "%s₀" % (t[1],) if t[2] == 0 else "%s_v%d" % (t[1], t[2])
    if k == "ref":
        return "&%s" % (show_loc(t[1]),)
    if k == "discr":
        return "discr(%s)" % show(t[1], depth + 1)
    if len(t) == 1 and isinstance(k, str):
        return k
    if k in ("len", "deref", "addr") and len(t) >= 2 and isinstance(t[1], tuple):
        return "%s(%s)" % (k, show(t[1], depth + 1))
    if k in ("reg", "mem") and len(t) >= 3:
        return "%s%s(%s)" % (k, t[1], show(t[2], depth + 1) if isinstance(t[2], tuple) else t[2])
    if k in ("opreg", "opmem", "opimm"):
        return "%s%s" % (k, t[1])
    return str(t)[:80]


def show_loc(loc):
    root, proj = loc
    return "%s%s" % (root, "".join("." + str(p[1]) for p in proj))


class Interp:
    def __init__(self, facts, intercept=None, may_inline=None, max_depth=8, loop_bound=2, max_paths=50000,
                 result_fail_paths=True):
        self.F = facts
        self.intercept = intercept
        self.may_inline = may_inline or (lambda callee, body: True)
        self.max_depth = max_depth
        self.loop_bound = loop_bound
        self.max_paths = max_paths
        self.npaths = 0
        self.nsteps = 0
        self.result_fail_paths = result_fail_paths
        self._from_cache = {}
        self._loops = {}
        self.cmp_oracle = None
        self.widen_at = 2
        self._const_cache = {}
        self.intercept_fn_calls = False  # opt-in: offer calls through the Fn traits to the intercept first
        self.backedge_sink = None  # opt-in: (frame, header, path) of every arrival dropped after the generic iteration
        self.concrete_ranges = False  # opt-in: exact unrolling of `for i in a..b` with constant bounds

    # ------------------------------------------------------------ loops (A2)
    def loops_of(self, body):
        key = body["path"]
        lp = self._loops.get(key)
        if lp is not None:
            return lp
        lp = {}
        idom = F.dominators(body)
        bl = body["blocks"]
        pr = F.preds(body)
        for u in idom:
            for h in F.succs(bl[u]):
                if h in idom and F.dominates(idom, h, u):
                    # natural loop of back edge u -> h
                    nodes = {h, u}
                    st = [u]
                    while st:
                        x = st.pop()
                        if x == h:
                            continue
                        for p_ in pr[x]:
                            if p_ not in nodes and p_ in idom:
                                nodes.add(p_)
                                st.append(p_)
                    e = lp.setdefault(h, {"nodes": set(), "assigned": set(), "header": h})
                    e["nodes"] |= nodes
        for h, e in lp.items():
            for n in e["nodes"]:
                for stt in bl[n]["s"]:
                    if stt[0] == "a":
                        e["assigned"].add(stt[1][0])
                t = bl[n]["term"]
                if t["k"] == "call":
                    e["assigned"].add(t["dest"][0])
        self._loops[key] = lp
        return lp

    # ------------------------------------------------------------ store
    def read_loc(self, path, loc):
        root, proj = loc
        v = path.store.get(root)
        if v is None:
            if root[0] == "H":
                v = ("init", root[1], 0)
            elif root[0] == "D":
                v = ("deref", root[1])
            else:
                v = TOP("uninit")
        for e in proj:
            v = self.project(path, v, e)
        return v

    def project(self, path, v, e):
        k = v[0]
        if e == "*":
            if k == "ref":
                return self.read_loc(path, v[1])
            return ("deref", v)
        tag = e[0]
        if tag == "f":
            idx = e[1]
            key = e[2] if e[2] is not None else idx
            if k == "agg":
                if idx < len(v[3]):
                    return v[3][idx]
                return TOP("field-oob")
            if k == "ovl":
                for kk, vv in v[2]:
                    if kk == key:
                        return vv
                return ("field", v[1], key)
            if k == "vfield_base":
                return ("vfield", v[1], v[2], idx)
            return ("field", v, key)
        if tag == "d":
            vidx = e[1]
            if k == "agg":
                return v
            return ("vfield_base", v, vidx)
        if tag in ("ci", "i") and k in ("deref", "w") and isinstance(v[1], tuple):
            # a slice view of a known array (`match v.as_slice() { &[a, b] => .. }`): the same elements
            inner_ = v
            while inner_[0] in ("deref", "w") and isinstance(inner_[1], tuple):
                inner_ = inner_[1]
            if inner_[0] == "agg" and inner_[1] == "array":
                return self.project(path, inner_, e)
        if tag == "ci" and k == "agg" and v[1] == "array" and len(e) >= 4:
            off = e[1]
            idx_ = len(v[3]) - off if e[3] else off
            if 0 <= idx_ < len(v[3]):
                return v[3][idx_]
        if tag == "i":
            if len(e) > 2 and k == "agg" and v[1] == "array":
                d = self.decide(path, e[2])
                if d is not None and d < len(v[3]):
                    return v[3][d]
            return ("index", v, e[2] if len(e) > 2 else "?")
        return ("proj", v, str(e))

    def write_loc(self, path, loc, val):
        root, proj = loc
        if root[0] in ("H", "D"):
            path.events.append(("store", loc, val))
        if not proj:
            path.store[root] = val
            return
        cur = path.store.get(root)
        if cur is None:
            if root[0] == "H":
                cur = ("init", root[1], 0)
            elif root[0] == "D":
                cur = ("deref", root[1])
            else:
                cur = TOP("uninit")
        path.store[root] = self.update(path, cur, proj, val)

    def update(self, path, cur, proj, val):
        if not proj:
            return val
        e = proj[0]
        rest = proj[1:]
        if e == "*":
            if cur[0] == "ref":
                loc = cur[1]
                self.write_loc(path, (loc[0], loc[1] + tuple(rest)), val)
                return cur
            # write through an opaque pointer: remember in a D-root
            self.write_loc(path, (("D", cur), tuple(rest)), val)
            return cur
        tag = e[0]
        if tag == "f":
            idx = e[1]
            key = e[2] if e[2] is not None else idx
            if cur[0] == "agg":
                fields = list(cur[3])
                while len(fields) <= idx:
                    fields.append(TOP("pad"))
                fields[idx] = self.update(path, fields[idx], rest, val)
                return ("agg", cur[1], cur[2], tuple(fields))
            if cur[0] == "ovl":
                base = cur[1]
                items = dict(cur[2])
            else:
                base = cur
                items = {}
            old = items.get(key, ("field", base, key))
            items[key] = self.update(path, old, rest, val)
            return ("ovl", base, tuple(sorted(items.items(), key=lambda kv: str(kv[0]))))
        if tag == "d":
            return self.update(path, cur, rest, val)
        if tag in ("ci", "i") and cur[0] == "agg" and cur[1] == "array":
            idx_ = None
            if tag == "ci" and len(e) >= 4:
                idx_ = len(cur[3]) - e[1] if e[3] else e[1]
            elif tag == "i" and len(e) > 2:
                idx_ = self.decide(path, e[2])
            if idx_ is not None and 0 <= idx_ < len(cur[3]):
                fields = list(cur[3])
                fields[idx_] = self.update(path, fields[idx_], rest, val)
                return ("agg", cur[1], cur[2], tuple(fields))
        return TOP("upd")

    def loc_of(self, path, frame, place):
        local, proj = place
        root = ("L", frame.fid, local)
        cur = (root, ())
        for e in proj:
            if e == "*":
                v = self.read_loc(path, cur)
                if v[0] == "ref":
                    cur = v[1]
                else:
                    cur = (("D", v), ())
            else:
                if isinstance(e, list):
                    e = tuple(e)
                if e and e[0] == "i" and len(e) == 2:
                    # index by a local of this frame: carry its current value so that constant tables can be read
                    e = ("i", e[1], self.read_loc(path, (("L", frame.fid, e[1]), ())))
                cur = (cur[0], cur[1] + (e,))
        return cur

    def read_place(self, path, frame, place):
        return self.read_loc(path, self.loc_of(path, frame, place))

    def write_place(self, path, frame, place, val):
        self.write_loc(path, self.loc_of(path, frame, place), val)

    # ------------------------------------------------------------ types
    def place_ty(self, frame, place):
        local, proj = place
        ty = frame.body["locals"][local]
        for e in proj:
            if ty is None:
                return None
            if e == "*":
                if isinstance(ty, list) and ty[0] in ("ref", "ptr"):
                    ty = ty[2]
                else:
                    return None
            elif e[0] == "f":
                if isinstance(ty, list) and ty[0] == "tuple":
                    ty = ty[1][e[1]] if e[1] < len(ty[1]) else None
                elif isinstance(ty, list) and ty[0] == "adt":
                    adt = self.F.adts.get(ty[1])
                    if adt and len(adt["variants"]) == 1 and e[1] < len(adt["variants"][0]["fields"]):
                        ty = adt["variants"][0]["fields"][e[1]]["ty"]
                    else:
                        return None
                else:
                    return None
            elif e[0] == "d":
                return None
            else:
                return None
        return ty

    def operand_ty(self, frame, op):
        if op[0] in ("c", "m"):
            return self.place_ty(frame, op[1])
        if op[0] == "k":
            return op[1].get("ty")
        return None

    # ------------------------------------------------------------ operands
    def const_val(self, path, frame, c):
        ty = c.get("ty")
        if "fn" in c:
            return ("fn", c["fn"], c.get("resolved"), tuple(c.get("closures", ())))
        if "promoted" in c:
            return self.eval_promoted(path, frame, c["promoted"])
        if "v" in c:
            tb = ty_bits(ty)
            if tb:
                return ("int", c["v"], tb[0])
            if isinstance(ty, list) and ty[0] == "adt":
                ev = self.F.enum_variant_by_discr(ty[1], c["v"])
                if ev is not None:
                    return ("agg", "adt:" + ty[1], ev[0], ())
            return ("int", c["v"], c.get("bits", 64))
        if isinstance(ty, list) and ty[0] == "tuple" and not ty[1]:
            return UNIT
        # a const generic parameter of the inlined function: the argument of the call it was inlined at
        gn = frame.body.get("generics")
        if gn and frame.gargs and c.get("d") in gn:
            i_ = gn.index(c["d"])
            if i_ < len(frame.gargs) and re.fullmatch(r"-?\d+", str(frame.gargs[i_]).strip()):
                tb_ = ty_bits(ty) or (64, False)
                return INT(int(frame.gargs[i_]), tb_[0])
        # a named constant / static of the crate: evaluate its initialiser body (straight-line aggregates)
        nm = c.get("name")
        if nm and nm in self.F.bodies and self.F.bodies[nm]["kind"] in ("Const", "Static") and frame.depth < self.max_depth:
            cached = self._const_cache.get(nm)
            if cached is None:
                cb = self.F.bodies[nm]
                cf = Frame(cb, frame.depth + 1, frame)
                cf.fid = ("K", nm)
                sub = Path()
                outs = [o for o in self._run_from(cf, 0, sub, frame.depth + 1) if o.kind == "return"]
                cached = outs[0].value if len(outs) == 1 and ground(outs[0].value) else ("k", c.get("d", ""), str(ty))
                self._const_cache[nm] = cached
            if cached[0] != "k":
                return cached
        d = c.get("d", "")
        if d.startswith('"') or d.startswith('b"'):
            return ("str", d)
        if isinstance(ty, list) and ty[0] == "ref" and (ty[2] == "str"):
            return ("str", d)
        return ("k", d, str(ty))

    def eval_promoted(self, path, frame, n):
        body = frame.body
        key = ("P", body["path"], n)
        root = ("L", key, 0)
        if root not in path.store:
            pb = dict(body["promoted"][n])
            pb["path"] = body["path"] + "::promoted[%d]" % n
            pb["spans"] = body["spans"]
            pb["promoted"] = body["promoted"]
            pf = Frame(pb, frame.depth + 1, frame)
            pf.fid = key
            outs = list(self._run_from(pf, 0, path, frame.depth + 1))
            rets = [o for o in outs if o.kind == "return"]
            if len(rets) != 1:
                return TOP("promoted")
            # _run_from mutated `path` in place for the single straight-line outcome
            return rets[0].value
        return path.store[root]

    def eval_operand(self, path, frame, op):
        k = op[0]
        if k in ("c", "m"):
            return self.read_place(path, frame, op[1])
        if k == "k":
            return self.const_val(path, frame, op[1])
        return TOP("operand")

    # ------------------------------------------------------------ rvalues
    def eval_rvalue(self, path, frame, rv, dest_ty):
        k = rv[0]
        if k == "use":
            return self.eval_operand(path, frame, rv[1])
        if k == "ref":
            return ("ref", self.loc_of(path, frame, rv[2]), rv[1] == "mut")
        if k == "rawptr":
            return ("ref", self.loc_of(path, frame, rv[1]), True)
        if k == "bin":
            op = rv[1]
            a = self.eval_operand(path, frame, rv[2])
            b = self.eval_operand(path, frame, rv[3])
            ta = ty_bits(self.operand_ty(frame, rv[2]))
            bits, signed = ta if ta else (width_of(a), False)
            if op in ("AddWithOverflow", "SubWithOverflow", "MulWithOverflow"):
                base = op[:3]
                r = self.binop(path, base, a, b, bits, signed)
                o = self.binop(path, base + "Ovf", a, b, 8, signed)
                return ("agg", "tuple", None, (r, o))
            if op in CMP_OPS:
                return self.binop(path, op, a, b, 8, signed)
            if op in ("Div", "Rem"):
                path.events.append(("divop", op, a, b, bits, signed))
            return self.binop(path, op, a, b, bits, signed)
        if k == "un":
            a = self.eval_operand(path, frame, rv[2])
            ta = ty_bits(self.operand_ty(frame, rv[2]))
            bits = ta[0] if ta else width_of(a)
            if rv[1] == "Not":
                if is_int(a):
                    if ta and self.operand_ty(frame, rv[2]) == "bool":
                        return INT(0 if a[1] else 1, 8)
                    return INT(~a[1], bits)
                if self.operand_ty(frame, rv[2]) == "bool":
                    return ("bin", "Eq", a, FALSE, 8)
                return ("un", "Not", a, bits)
            if rv[1] == "Neg":
                if is_int(a):
                    return INT(-a[1], bits)
                return ("un", "Neg", a, bits)
            if rv[1] == "PtrMetadata":
                return LEN(a)
            return ("un", rv[1], a, bits)
        if k == "cast":
            a = self.eval_operand(path, frame, rv[2])
            if rv[1] == "IntToInt":
                fb = ty_bits(self.operand_ty(frame, rv[2]))
                tb = ty_bits(rv[3])
                if fb and tb:
                    return self.cast(a, fb[0], fb[1], tb[0])
                if tb:
                    # enum -> int cast of a fieldless enum
                    if a[0] == "agg" and a[1].startswith("adt:") and not a[3]:
                        ev = self.F.enum_variant(a[1][4:], a[2])
                        if ev is not None:
                            return INT(ev[1], tb[0])
                    return ("cast", a, 64, False, tb[0])
                return a
            return a
        if k == "agg":
            kd = rv[1]
            ops = tuple(self.eval_operand(path, frame, o) for o in rv[2])
            if kd[0] == "tuple":
                return ("agg", "tuple", None, ops)
            if kd[0] == "array":
                return ("agg", "array", None, ops)
            if kd[0] == "adt":
                return ("agg", "adt:" + kd[1], kd[2], ops)
            if kd[0] in ("closure", "coroutine", "coroutine_closure"):
                return ("agg", kd[0] + ":" + kd[1], None, ops)
            return TOP("agg")
        if k == "discr":
            v = self.read_place(path, frame, rv[1])
            return self.discr_of(path, frame, v, rv[1])
        if k == "repeat":
            v = self.eval_operand(path, frame, rv[1])
            if isinstance(rv[2], int) and rv[2] <= 64:
                return ("agg", "array", None, (v,) * rv[2])
            return ("repeat", v, rv[2])
        return TOP("rvalue:" + k)

    def discr_of(self, path, frame, v, place=None):
        if v[0] == "agg" and v[1].startswith("adt:"):
            ev = self.F.enum_variant(v[1][4:], v[2])
            if ev is not None:
                return INT(ev[1], 64)
            return INT(v[2], 64)
        if v[0] == "ovl":
            v = v[1]
        r = path.refine.get(v)
        if r is not None:
            return INT(r[1], 64)
        adt = None
        if place is not None:
            ty = self.place_ty(frame, place)
            if isinstance(ty, list) and ty[0] == "adt":
                adt = ty[1]
        return ("discr", v, adt)

    def cast(self, a, fb, fs, tb):
        if is_int(a):
            v = a[1] & mask(fb)
            if fs and (v >> (fb - 1)) & 1:
                v -= 1 << fb
            return INT(v, tb)
        if fb == tb:
            return a
        # collapse zero-extension chains of an already narrow value
        if a[0] == "cast" and not fs and not a[3] and a[4] == fb and tb >= fb and a[2] <= fb:
            return ("cast", a[1], a[2], a[3], tb)
        return ("cast", a, fb, fs, tb)

    def binop(self, path, op, a, b, bits, signed=False):
        if is_int(a) and is_int(b):
            r = fold(op, a[1], b[1], width_of(a), signed, bits)
            if r is not None:
                return INT(r, bits)
        if op in ("Eq", "Ne") and a == b:
            return INT(1 if op == "Eq" else 0, 8)
        # structural equality of fully known aggregates
        if op in ("Eq", "Ne") and a[0] == "agg" and b[0] == "agg" and ground(a) and ground(b):
            return INT(1 if (a == b) == (op == "Eq") else 0, 8)
        # identities
        if op == "BitOr":
            if is_int(b) and b[1] == 0:
                return a
            if is_int(a) and a[1] == 0:
                return b
        if op == "BitAnd":
            if (is_int(b) and b[1] == 0) or (is_int(a) and a[1] == 0):
                return INT(0, bits)
            if is_int(b) and b[1] == mask(bits):
                return a
        if op in ("Add", "Sub", "BitXor", "Shl", "Shr") and is_int(b) and b[1] == 0:
            return a
        if op == "Add" and is_int(a) and a[1] == 0:
            return b
        if op in ("Mul", "MulUnchecked"):
            for x, y in ((a, b), (b, a)):
                if is_int(x) and x[1] == 0:
                    return INT(0, bits)
                if is_int(x) and x[1] == 1 and width_of(y) == bits:
                    return y
        if op in ("AddOvf", "SubOvf") and is_int(b) and b[1] == 0:
            return INT(0, 8)
        if is_int(a) and not is_int(b) and op in ("Add", "Mul", "BitAnd", "BitOr", "BitXor", "Eq", "Ne"):
            a, b = b, a  # canonical: constant on the right for commutative ops
        if signed and op in ("AddOvf", "SubOvf", "MulOvf", "Lt", "Le", "Gt", "Ge", "Div", "Rem") and not is_int(a):
            # signedness is a property of the operation, recorded per term: keep the signed term structurally distinct
            # from its unsigned twin over the same operands (a transparent extra width wrapper on the left operand), or
            # `(d as i64).overflowing_add(s as i64)` would turn `d.overflowing_add(s)` signed as well
            a = ("w", a, width_of(a) or bits)
        t = ("bin", op, a, b, bits)
        if signed:
            path.tags[("signed", t)] = True
        return t

    # ------------------------------------------------------------ deciding conditions
    def decide(self, path, t):
        if is_int(t):
            return t[1]
        f = path.facts.get(t)
        if f is not None and f[0] == "eq":
            return f[1]
        if path.assume:
            a_ = path.assume.get(t)
            if a_ is None and t[0] == "w":
                a_ = path.assume.get(t[1])
            if a_ is not None and all(b_ in (0, 1) for b_ in a_):
                return sum(b_ << i_ for i_, b_ in enumerate(a_))
        if t[0] == "discr":
            r = path.refine.get(t[1])
            if r is not None:
                return r[1]
            return None
        if self.cmp_oracle is not None and t[0] == "bin" and t[1] in CMP_OPS:
            r = self.cmp_oracle(path, t[1], t[2], t[3])
            if r is not None:
                return r
        if self.cmp_oracle is not None and t[0] == "bin" and t[1] == "SubOvf" and not path.tags.get(("signed", t)):
            r = self.cmp_oracle(path, "Lt", t[2], t[3])  # unsigned a - b overflows iff a < b
            if r is not None:
                return r
        if t[0] == "bin" and t[1] in ("Eq", "Ne") and is_int(t[3]) and t[3][1] == 0:
            # x == 0 through value-preserving wrappers: a widened (zero- or sign-extended) value is zero iff the value is
            a = t[2]
            for _ in range(6):
                if a[0] == "w" and isinstance(a[1], tuple):
                    a = a[1]
                elif a[0] == "cast" and isinstance(a[2], int) and isinstance(a[4], int) and a[4] >= a[2]:
                    a = a[1]
                else:
                    break
                for cand in (a, W(a, 64)):
                    for opn in ("Eq", "Ne"):
                        for wz in (8, 16, 32, 64, 128):
                            f2 = path.facts.get(("bin", opn, cand, INT(0, wz), 8))
                            if f2 is not None and f2[0] == "eq":
                                return int(bool(f2[1]) == (opn == t[1]))
                    f3 = path.facts.get(cand)
                    if f3 is not None:
                        if f3[0] == "eq":
                            return int((f3[1] == 0) == (t[1] == "Eq"))
                        if f3[0] == "ne" and 0 in f3[1]:
                            return int(t[1] == "Ne")
        if t[0] in ("bin", "un", "cast", "w"):
            bv = bitvec(t, path)
            return bv_value(bv)
        return None

    def assume_cond(self, path, t, val, vals_excluded=None):
        """Record that term t has value val (or differs from vals_excluded)."""
        if is_int(t):
            return
        if val is not None:
            path.facts[t] = ("eq", val)
            path.conds.append((t, "==", val))
            t_ = t[1] if t[0] == "w" and isinstance(t[1], tuple) else t
            if t_[0] in ("bin", "cast") and not (t_[0] == "bin" and t_[1] in CMP_OPS) and isinstance(val, int):
                # `match x >> 31 { 0 => .. }`: the bits the scrutinee is built from are known on this arm
                p0_ = Path()
                p0_.maxbits = path.maxbits
                for i, bit in enumerate(bitvec(t, p0_)):
                    if bit is not None and bit not in (0, 1):
                        cbit = (val >> i) & 1
                        path.bitfacts.setdefault((bit[0], bit[1]), (1 - cbit) if bit[2] else cbit)
        else:
            old = path.facts.get(t)
            ex = set(vals_excluded)
            if old is not None and old[0] == "ne":
                ex |= set(old[1])
            path.facts[t] = ("ne", frozenset(ex))
            path.conds.append((t, "!=", tuple(sorted(ex))))
            # a value built from one unknown bit (x >> 31 of a 32-bit x, (x >> 7) & 1, ...) that differs from a constant
            # agreeing with its known bits: the unknown bit is the opposite one
            t_ = t[1] if t[0] == "w" and isinstance(t[1], tuple) else t
            if t_[0] in ("bin", "cast") and not (t_[0] == "bin" and t_[1] in CMP_OPS) and len(ex) == 1:
                p0_ = Path()
                p0_.maxbits = path.maxbits
                xb = bitvec(t, p0_)
                unk = [i for i, bit in enumerate(xb) if bit not in (0, 1)]
                if len(unk) == 1 and xb[unk[0]] is not None:
                    v_ = next(iter(ex))
                    if all(bit == ((v_ >> i) & 1) for i, bit in enumerate(xb) if i != unk[0]) and (v_ >> len(xb)) == 0:
                        bit = xb[unk[0]]
                        nb = 1 - ((v_ >> unk[0]) & 1)
                        path.bitfacts[(bit[0], bit[1])] = (1 - nb) if bit[2] else nb
            # a boolean that is not 0 is 1
            if width_of(t, 0) == 8 and t[0] == "bin" and t[1] in CMP_OPS and ex == {0}:
                path.facts[t] = ("eq", 1)
                val = 1
            else:
                return
        if t[0] == "bin" and t[1] in CMP_OPS:
            _, op, a, b, _ = t
            truth = bool(val)
            if op == "Ne":
                op = "Eq"
                truth = not truth
            if op == "Eq" and is_int(b):
                if a[0] == "bin" and a[1] == "BitAnd" and is_int(a[3]):
                    m = a[3][1]
                    single = m != 0 and (m & (m - 1)) == 0
                    if truth or single:
                        xb = bitvec(a[2], Path())
                        for i, bit in enumerate(xb):
                            if (m >> i) & 1 and bit is not None and bit not in (0, 1):
                                cbit = (b[1] >> i) & 1
                                val_i = cbit if truth else 1 - cbit
                                path.bitfacts[(bit[0], bit[1])] = (1 - val_i) if bit[2] else val_i
                elif truth and a[0] in ("bin", "cast") and not (a[0] == "bin" and a[1] in CMP_OPS):
                    # a value whose bits are (copies of) bits of other values equals a constant: those bits are known --
                    # (x >> k) == c, ((x >> 8k) as u8) == 0, ... ; when every bit of x from some n upwards is known to be
                    # clear, x < 2^n
                    xb = bitvec(a, Path())
                    srcs = set()
                    for i, bit in enumerate(xb):
                        if bit is not None and bit not in (0, 1):
                            cbit = (b[1] >> i) & 1
                            path.bitfacts[(bit[0], bit[1])] = (1 - cbit) if bit[2] else cbit
                            srcs.add(bit[0])
                    for src in srcs:
                        top = 64
                        while top > 0 and path.bitfacts.get((src, top - 1)) == 0:
                            top -= 1
                        if top < 64:
                            for key in (src, W(src, 64)):
                                old_ = path.maxbits.get(key)
                                if old_ is None or top < old_:
                                    path.maxbits[key] = top
                if truth:
                    self.assume_cond(path, a, b[1])
                else:
                    if not is_int(a):
                        self.assume_cond(path, a, None, [b[1]])
            # a signed comparison with zero reads the sign bit: x < 0 <=> top bit set, x >= 0 <=> top bit clear
            if is_int(b) and b[1] == 0 and path.tags.get(("signed", t)) and op in ("Lt", "Ge"):
                wa = width_of(a, 0)
                if wa:
                    xb = bitvec(a, Path())
                    if len(xb) >= wa:
                        bit = xb[wa - 1]
                        if bit is not None and bit not in (0, 1):
                            sv = int(truth == (op == "Lt"))
                            path.bitfacts[(bit[0], bit[1])] = (1 - sv) if bit[2] else sv
            # range refinement: x <= 2^k-1, x < 2^k (unsigned comparisons only: a signed x below the bound may be negative)
            if is_int(b) and not path.tags.get(("signed", t)):
                bound = None
                if (op == "Le" and truth) or (op == "Gt" and not truth):
                    bound = b[1]
                if (op == "Lt" and truth) or (op == "Ge" and not truth):
                    bound = b[1] - 1
                if bound is not None and bound >= 0 and (bound + 1) & bound == 0:
                    n = (bound + 1).bit_length() - 1
                    key = a
                    old = path.maxbits.get(key)
                    if old is None or n < old:
                        path.maxbits[key] = n
                        if a[0] == "w":
                            path.maxbits[a[1]] = n
                        # through casts that lose nothing (the inner value is known to fit the target width): the bound holds
                        # for the inner value as well
                        cur_ = a
                        for _ in range(4):
                            if cur_[0] == "w" and isinstance(cur_[1], tuple):
                                cur_ = cur_[1]
                            elif cur_[0] == "cast" and isinstance(cur_[4], int):
                                inner_ = cur_[1]
                                imb = path.maxbits.get(inner_)
                                fits = (isinstance(cur_[2], int) and cur_[2] <= cur_[4] and not cur_[3]) or (imb is not None and imb <= cur_[4])
                                if not fits:
                                    break
                                cur_ = inner_
                            else:
                                break
                            o2_ = path.maxbits.get(cur_)
                            if o2_ is None or n < o2_:
                                path.maxbits[cur_] = n
                                if cur_[0] == "w" and isinstance(cur_[1], tuple):
                                    path.maxbits[cur_[1]] = n
        if t[0] == "discr" and val is not None:
            adt = t[2]
            if adt:
                ev = self.F.enum_variant_by_discr(adt, val)
                if ev is not None:
                    path.refine[t[1]] = (ev[0], val)
            else:
                path.refine[t[1]] = (val, val)

    # ------------------------------------------------------------ execution
    def run(self, body, args, path=None, depth=0):
        """Enumerate the outcomes of `body` called with `args` (list of terms)."""
        path = path if path is not None else Path()
        frame = Frame(body, depth)
        for i, a in enumerate(args):
            path.store[("L", frame.fid, i + 1)] = a
        return self._run_from(frame, 0, path, depth)

    def call_body(self, body, args, path, parent, depth, callsite=None, gargs=None):
        frame = Frame(body, depth, parent, callsite)
        frame.gargs = gargs
        for i, a in enumerate(args):
            path.store[("L", frame.fid, i + 1)] = a
        return self._run_from(frame, 0, path, depth)

    def _run_from(self, frame, bb, path, depth):
        body = frame.body
        blocks = body["blocks"]
        while True:
            self.nsteps += 1
            key = (frame.fid, bb)
            n = path.visits.get(key, 0) + 1
            path.visits[key] = n
            if n > 1:
                loops = self.loops_of(body)
                lp = loops.get(bb)
                if lp is not None:
                    if n < self.widen_at or (n < 200 and path.tags.get(("concrete_loop", frame.fid, bb))):
                        pass  # still unrolling precisely (always, for a loop driven by an iterator over known elements)
                    elif n == self.widen_at:
                        # widen: forget everything the loop body assigns, run one generic iteration
                        tops = {}
                        for l in lp["assigned"]:
                            tops[l] = TOP("loop")
                            path.store[("L", frame.fid, l)] = tops[l]
                        path.tags[("widened", frame.fid, bb)] = (tops, len(path.conds))
                        path.events.append(("loop_widened", body["path"], bb))
                        # facts about forgotten values must go as well
                        path.facts = {k: v for k, v in path.facts.items() if not _mentions_top(k)}
                    else:
                        if self.backedge_sink is not None:
                            self.backedge_sink.append((frame, bb, path))
                        return  # covered by the widened iteration
                elif n > self.loop_bound + 1 and not any(bb in l_["nodes"] for l_ in loops.values()):
                    yield Outcome("cut", None, path, site=F.site_str(body, blocks[bb]["term"]["sp"]),
                                  msg="loop-bound", stack=frame.stack())
                    return
            blk = blocks[bb]
            for st in blk["s"]:
                if st[0] == "a":
                    dty = self.place_ty(frame, st[1]) if not st[1][1] else None
                    v = self.eval_rvalue(path, frame, st[2], dty)
                    if dty is not None and v[0] not in ("int", "bin", "un", "cast", "agg", "ref", "w", "fn", "str"):
                        tb = ty_bits(dty)
                        if tb:
                            v = W(v, tb[0])
                    self.write_place(path, frame, st[1], v)
                elif st[0] == "sd":
                    pass
            t = blk["term"]
            k = t["k"]
            if k in ("goto", "drop", "falseedge", "falseunwind"):
                bb = t["t"]
                continue
            if k == "return":
                self.npaths += 1
                yield Outcome("return", self.read_loc(path, (("L", frame.fid, 0), ())), path, stack=frame.stack())
                return
            if k in ("unreachable",):
                return
            if k in ("resume", "terminate", "coroutine_drop"):
                return
            if k == "yield":
                # an await point: the caller may resume us later; keep analysing the resumed path
                path.events.append(("yield", F.site_str(body, t["sp"])))
                bb = t["t"]
                continue
            if k == "switch":
                d = self.eval_operand(path, frame, t["discr"])
                dv = self.decide(path, d)
                vals = t["vals"]
                tgts = t["tgts"]
                if dv is not None:
                    tgt = tgts[-1]
                    for v, tg in zip(vals, tgts):
                        if v == dv:
                            tgt = tg
                            break
                    bb = tgt
                    continue
                # fork
                fact = path.facts.get(d)
                excluded = set(fact[1]) if fact is not None and fact[0] == "ne" else set()
                tbd = ty_bits(self.operand_ty(frame, t["discr"])) if self.cmp_oracle is not None else None
                if self.cmp_oracle is not None and not is_int(d) and tbd and tbd[0] > 8 and d[0] != "discr":
                    # `match x { 0 => .., n => .. }` on a quantity the class oracle knows: the same question as `x == 0`
                    taken = None
                    for v, tg in zip(vals, tgts):
                        ans = self.cmp_oracle(path, "Eq", d, INT(v, tbd[0]))
                        if ans == 1:
                            taken = tg
                            break
                        if ans == 0:
                            excluded.add(v)
                    if taken is not None:
                        bb = taken
                        continue
                    if all(v in excluded for v in vals):
                        bb = tgts[-1]
                        continue
                alts = []
                for v, tg in zip(vals, tgts):
                    if v in excluded:
                        continue
                    alts.append((v, tg))
                alts.append((None, tgts[-1]))
                if self.npaths > self.max_paths:
                    yield Outcome("cut", None, path, site=F.site_str(body, t["sp"]), msg="max-paths",
                                  stack=frame.stack())
                    return
                for i, (v, tg) in enumerate(alts):
                    p2 = path.copy() if i < len(alts) - 1 else path
                    if v is not None:
                        self.assume_cond(p2, d, v)
                    else:
                        self.assume_cond(p2, d, None, list(vals))
                    # a fork may make the condition contradictory with known bits
                    yield from self._run_from(frame, tg, p2, depth)
                return
            if k == "assert":
                c = self.eval_operand(path, frame, t["cond"])
                cv = self.decide(path, c)
                exp = 1 if t["expected"] else 0
                msg = t["msg"]
                if cv is not None:
                    if bool(cv) == bool(exp):
                        bb = t["t"]
                        continue
                    self.npaths += 1
                    yield Outcome("panic", None, path, site=F.site_str(body, t["sp"]),
                                  cls="O" if msg["kind"].startswith("Overflow") else "X",
                                  stack=frame.stack(), msg="assert " + msg["kind"])
                    return
                ops = {kk: self.eval_operand(path, frame, vv) for kk, vv in msg.items() if kk in ("a", "b", "len", "index")}
                path.events.append(("assert", msg["kind"], msg.get("op"), ops, F.site_str(body, t["sp"]),
                                    body["path"], c, len(path.conds),
                                    "/".join(F.macro_names(body, t["sp"]))))
                self.assume_cond(path, c, exp)
                bb = t["t"]
                continue
            if k == "call":
                res = self.do_call(path, frame, t, depth)
                if res is None:
                    return
                if isinstance(res, int):
                    bb = res
                    continue
                # generator of outcomes / continuations
                yield from res
                return
            yield Outcome("cut", None, path, site=F.site_str(body, t["sp"]), msg="terminator " + k,
                          stack=frame.stack())
            return

    # ------------------------------------------------------------ calls
    def cont(self, frame, t, path, val, depth):
        """Continue the caller after a call returned val."""
        if t["t"] is None:
            return
        self.write_place(path, frame, t["dest"], val)
        yield from self._run_from(frame, t["t"], path, depth)

    def do_call(self, path, frame, t, depth):
        body = frame.body
        f = t["f"]
        name = F.callee_name(t)
        args = [self.eval_operand(path, frame, a) for a in t["args"]]
        site = F.site_str(body, t["sp"])
        # diverging panic machinery
        if t["t"] is None and F.is_panic_call(t):
            cls = F.classify_macros(body["spans"][t["sp"]][3])
            self.npaths += 1
            return iter([Outcome("panic", None, path, site=site, cls=cls, stack=frame.stack(),
                                 msg=name.split("::")[-1] + " " + "/".join(F.macro_names(body, t["sp"])))])
        if "indirect" in f:
            fnv = self.eval_operand(path, frame, f["indirect"])
            path.events.append(("indirect_call", fnv, tuple(args), site, body["path"]))
            # a function pointer whose value is known (a closure or fn item coerced to `fn(..)`): the call is that body
            tgt_ = self._deref_all(path, fnv)
            for _ in range(3):
                if tgt_[0] in ("cast", "w") and isinstance(tgt_[1], tuple):
                    tgt_ = tgt_[1]
            if tgt_[0] == "fn" or (tgt_[0] == "agg" and str(tgt_[1]).startswith("closure:")):
                res_ = self._call_closure_value(path, frame, t, tgt_, list(args), depth, "indirect")
                if res_ is not None:
                    def gen_ind():
                        for o in res_:
                            if o.kind == "return":
                                yield from self.cont(frame, t, o.path, o.value, depth)
                            else:
                                yield o
                    return gen_ind()
            return self._opaque(path, frame, t, "indirect", args, depth, havoc=True)
        if f.get("def") in self.FN_TRAIT_CALLS:
            if self.intercept_fn_calls and self.intercept is not None:
                r = self.intercept(self, path, frame, t, name, args)
                if r is not None:
                    return self._multi(path, frame, t, r, depth)
            r = self.closure_call(path, frame, t, name, args, depth)
            if r is not None:
                return r
            return self._opaque(path, frame, t, name, args, depth, havoc=True)
        # rule-specific primitives
        if self.intercept is not None:
            r = self.intercept(self, path, frame, t, name, args)
            if r is not None:
                return self._multi(path, frame, t, r, depth)
        r = self.builtin(path, frame, t, name, args, depth)
        if r is not None:
            return r
        # inline local bodies
        cb = self.F.bodies.get(name)
        if cb is not None and not cb.get("coroutine") and depth < self.max_depth and self.may_inline(name, cb):
            return self._inline(path, frame, t, cb, args, depth)
        if cb is not None and cb.get("coroutine") and args and depth < self.max_depth:
            # polling the future of a local `async fn` (an `.await` on it): the callee has no suspension point of its own
            # that matters here, so the poll runs its body to completion and is Ready with the result
            env = self._deref_all(path, args[0])
            if env[0] == "agg" and env[1] == "coroutine:" + name:
                def gen_poll():
                    for o in self.call_body(cb, [env, args[1] if len(args) > 1 else ("resume_ctx",)], path, frame, depth + 1):
                        if o.kind == "return":
                            yield from self.cont(frame, t, o.path, ("agg", "adt:std::task::Poll", 0, (o.value,)), depth)
                        else:
                            yield o
                return gen_poll()
        if name.endswith("::into_future") and len(args) == 1 and args[0][0] == "agg" and args[0][1].startswith("coroutine:"):
            return self._multi(path, frame, t, [(args[0], path)], depth)
        if name.endswith("Pin::<Ptr>::new_unchecked") and len(args) == 1:
            return self._multi(path, frame, t, [(args[0], path)], depth)
        return self._opaque(path, frame, t, name, args, depth, havoc=True)

    def _multi(self, path, frame, t, results, depth):
        """results: list of (value, path) or ('panic', cls, msg, path)"""
        def gen():
            for r in results:
                if r[0] == "panic":
                    self.npaths += 1
                    yield Outcome("panic", None, r[3], site=F.site_str(frame.body, t["sp"]), cls=r[1],
                                  stack=frame.stack(), msg=r[2])
                else:
                    yield from self.cont(frame, t, r[1], r[0], depth)
        return gen()

    def _inline(self, path, frame, t, cb, args, depth, spread=False):
        def gen():
            for o in self.call_body(cb, args, path, frame, depth + 1, callsite=F.site_str(frame.body, t["sp"]),
                                    gargs=t["f"].get("gargs")):
                if o.kind == "return":
                    yield from self.cont(frame, t, o.path, o.value, depth)
                else:
                    yield o
        return gen()

    def _opaque(self, path, frame, t, name, args, depth, havoc):
        nargs = tuple(self.norm_arg(path, a) for a in args)
        if havoc:
            for a in args:
                if a[0] == "ref" and a[2]:
                    if a[1][0][0] in ("H", "D"):
                        path.events.append(("mutcall", name, a[1], nargs, F.site_str(frame.body, t["sp"])))
                    self.havoc(path, a[1], name)
                elif a[0] == "ref" and a[1][0][0] in ("H", "D") and a[1][1]:
                    path.events.append(("refcall", name, a[1], nargs, F.site_str(frame.body, t["sp"])))
        krate = t["f"].get("krate") or ""
        if krate in NONDET_CRATES or name.startswith(NONDET_PREFIXES):
            # nondeterministic sources: every call yields a fresh value (A11)
            val = ("ret", name, nargs, ("fresh", next(_top_counter)))
            path.events.append(("nondet", name, F.site_str(frame.body, t["sp"])))
        else:
            val = ("ret", name, nargs, path.ver if any(self.touches_heap(a) for a in args) else 0)
        dty = self.place_ty(frame, t["dest"])
        tb = ty_bits(dty) if dty is not None else None
        if tb:
            val = W(val, tb[0])
        if t["t"] is None:
            return None
        self.write_place(path, frame, t["dest"], val)
        return t["t"]

    def mark_concrete_loop(self, path, frame, t):
        """the innermost loop around this call is driven by an iterator over known elements: it is unrolled exactly (other
        loops of the same function keep being widened)"""
        body = frame.body
        idx = None
        for i_, blk in enumerate(body["blocks"]):
            if blk["term"] is t:
                idx = i_
                break
        if idx is None:
            return
        best = None
        for h_, lp in self.loops_of(body).items():
            if idx in lp["nodes"] and (best is None or len(lp["nodes"]) < len(self.loops_of(body)[best]["nodes"])):
                best = h_
        if best is not None:
            path.tags[("concrete_loop", frame.fid, best)] = True

    def _opaque_cont(self, path, frame, t, name, args, depth, havoc=True):
        """generator form of _opaque for use inside summaries: the call stays opaque, execution goes on behind it"""
        nb = self._opaque(path, frame, t, name, args, depth, havoc)
        if nb is None:
            return
        yield from self._run_from(frame, nb, path, depth)

    def touches_heap(self, a):
        return a[0] == "ref" and a[1][0][0] in ("H", "D")

    def norm_arg(self, path, a):
        if a[0] == "ref":
            v = self.read_loc(path, a[1])
            if v[0] in ("int", "w", "agg", "bin", "cast", "ret", "field", "str", "vfield", "init", "un"):
                return v
            if a[1][0][0] == "L":
                return v
            if a[1][0][0] == "D":
                return v
            return ("refto", a[1][0][1], a[1][1])
        return a

    def havoc(self, path, loc, why):
        path.ver += 1
        root, proj = loc
        if root[0] == "L" and not proj:
            path.store[root] = ("hv", path.ver, why)
            return
        self.write_loc(path, loc, ("hv", path.ver, why))

    # ------------------------------------------------------------ std summaries
    def split_result(self, path, v, adt=RESULT):
        """[(variant_idx, payload, path)] for a Result/Option value"""
        if v[0] == "agg" and v[1] in (RESULT, OPTION, CFLOW):
            return [(v[2], v[3][0] if v[3] else None, path)]
        base = v[1] if v[0] == "ovl" else v
        r = path.refine.get(base)
        if r is not None:
            return [(r[0], ("vfield", base, r[0], 0), path)]
        out = []
        p2 = path.copy()
        for vi, p in ((0, p2), (1, path)):
            p.refine[base] = (vi, vi)
            p.conds.append((("discr", base, adt[4:]), "==", vi))
            out.append((vi, ("vfield", base, vi, 0), p))
        return out

    def builtin(self, path, frame, t, name, args, depth):
        F_ = self.F
        short = name
        # --- Try / FromResidual
        if name.endswith(" as std::ops::Try>::branch"):
            v = args[0]
            is_opt = "option::Option" in name
            outs = []
            for vi, payload, p in self.split_result(path, v, OPTION if is_opt else RESULT):
                if is_opt:
                    if vi == 1:
                        outs.append((("agg", CFLOW, 0, (payload,)), p))
                    else:
                        outs.append((("agg", CFLOW, 1, (NONE,)), p))
                else:
                    if vi == 0:
                        outs.append((("agg", CFLOW, 0, (payload,)), p))
                    else:
                        outs.append((("agg", CFLOW, 1, (ERR(payload),)), p))
            return self._multi(path, frame, t, outs, depth)
        if "FromResidual" in name and name.endswith("::from_residual"):
            v = args[0]
            if v[0] == "agg" and v[1] == RESULT:
                return self._multi(path, frame, t, [(ERR(("conv_err", v[3][0]) if v[3] else TOP("e")), path)], depth)
            if v[0] == "agg" and v[1] == OPTION:
                return self._multi(path, frame, t, [(NONE, path)], depth)
            return self._multi(path, frame, t, [(ERR(("residual", v)), path)], depth)
        # --- ranges over ground scalars / field-less enum constants (derived PartialOrd = discriminant order)
        if name.startswith("std::ops::RangeInclusive::<") and name.endswith(">::new") and len(args) == 2:
            return self._multi(path, frame, t, [(("agg", "adt:std::ops::RangeInclusive", None, (args[0], args[1])), path)], depth)
        if name.startswith("std::ops::Range") and name.endswith("::is_empty") and len(args) == 1:
            rg = self._deref_all(path, args[0])
            if rg[0] == "agg" and rg[1] in ("adt:std::ops::Range", "adt:std::ops::RangeInclusive") and len(rg[3]) >= 2:
                # start..end is empty unless start < end (start <= end for ..=)
                op_ = "Ge" if rg[1].endswith("::Range") else "Gt"
                return self._multi(path, frame, t, [(self.binop(path, op_, rg[3][0], rg[3][1], 8), path)], depth)
        if name.startswith("std::ops::Range") and "::contains" in name and len(args) == 2:
            rg = self._deref_all(path, args[0])
            x = self._deref_all(path, args[1])
            if rg[0] == "agg" and len(rg[3]) >= 2:
                lo, hi, xo = self.scalar_rank(rg[3][0]), self.scalar_rank(rg[3][1]), self.scalar_rank(x)
                kind = rg[1].rsplit("::", 1)[1]
                if None not in (lo, hi, xo) and lo[0] == hi[0] == xo[0] and kind in ("Range", "RangeInclusive"):
                    r = lo[1] <= xo[1] <= hi[1] if kind == "RangeInclusive" else lo[1] <= xo[1] < hi[1]
                    return self._multi(path, frame, t, [(INT(int(r), 8), path)], depth)
                if kind in ("Range", "RangeInclusive") and width_of(x) == width_of(rg[3][0]):
                    # symbolic bounds: lo <= x && x < hi (x <= hi), each comparison decided or forked
                    w_ = width_of(x)
                    c1 = self.binop(path, "Le", rg[3][0], x, 8)
                    c2 = self.binop(path, "Le" if kind == "RangeInclusive" else "Lt", x, rg[3][1], 8)
                    states = [(path, 1)]
                    for c in (c1, c2):
                        nxt = []
                        for p, acc in states:
                            if not acc:
                                nxt.append((p, 0))
                                continue
                            d = self.decide(p, c)
                            if d is None:
                                p2 = p.copy()
                                self.assume_cond(p, c, 1)
                                self.assume_cond(p2, c, 0)
                                nxt += [(p, 1), (p2, 0)]
                            else:
                                nxt.append((p, int(bool(d))))
                        states = nxt
                    return self._multi(path, frame, t, [(INT(acc, 8), p) for p, acc in states], depth)
        if (" as std::cmp::PartialOrd>::" in name or " as std::cmp::PartialEq>::" in name) and len(args) == 2:
            meth = name.rsplit("::", 1)[1]
            a, b = self.scalar_rank(self._deref_all(path, args[0])), self.scalar_rank(self._deref_all(path, args[1]))
            if a is not None and b is not None and a[0] == b[0] and a[0] != "int" and meth in ("lt", "le", "gt", "ge", "eq", "ne"):
                r = {"lt": a[1] < b[1], "le": a[1] <= b[1], "gt": a[1] > b[1], "ge": a[1] >= b[1], "eq": a[1] == b[1], "ne": a[1] != b[1]}[meth]
                return self._multi(path, frame, t, [(INT(int(r), 8), path)], depth)
        shortn = name.rsplit("::", 1)[1].split("::<")[0] if "::" in name else name
        # --- operator traits on primitive integers taken by reference (`a | &b`, `&a & &b`, ...)
        mo = _OP_TRAIT.match(name)
        if mo and len(args) == 2:
            tb = _prim_bits(mo.group(1))
            if tb:
                opn = {"add": "Add", "sub": "Sub", "mul": "Mul", "bitand": "BitAnd", "bitor": "BitOr", "bitxor": "BitXor",
                       "shl": "Shl", "shr": "Shr", "div": None, "rem": None}[mo.group(3)]
                if opn:
                    a_, b_ = self._deref_all(path, args[0]), self._deref_all(path, args[1])
                    if opn in ("Add", "Sub", "Mul"):
                        # the operator form is overflow-checked in this profile
                        ov = self.binop(path, opn + "Ovf", a_, b_, 8, tb[1])
                        if self.decide(path, ov) is None:
                            path.events.append(("assert", "Overflow", opn, {"a": a_, "b": b_}, F.site_str(frame.body, t["sp"]),
                                                frame.body["path"], ov, len(path.conds), ""))
                    return self._multi(path, frame, t, [(self.binop(path, opn, a_, b_, tb[0], tb[1]), path)], depth)
        mo2 = _OPASSIGN_TRAIT.match(name)
        if mo2 and len(args) == 2 and args[0][0] == "ref":
            tb = _prim_bits(mo2.group(1))
            opn = {"add_assign": "Add", "sub_assign": "Sub", "mul_assign": "Mul", "bitand_assign": "BitAnd", "bitor_assign": "BitOr",
                   "bitxor_assign": "BitXor", "shl_assign": "Shl", "shr_assign": "Shr"}.get(mo2.group(2))
            if tb and opn:
                cur = self.read_loc(path, args[0][1])
                b_ = self._deref_all(path, args[1])
                if opn in ("Add", "Sub", "Mul"):
                    ov = self.binop(path, opn + "Ovf", cur, b_, 8, tb[1])
                    if self.decide(path, ov) is None:
                        path.events.append(("assert", "Overflow", opn, {"a": cur, "b": b_}, F.site_str(frame.body, t["sp"]),
                                            frame.body["path"], ov, len(path.conds), ""))
                self.write_loc(path, args[0][1], self.binop(path, opn, cur, b_, tb[0], tb[1]))
                return self._multi(path, frame, t, [(UNIT, path)], depth)
        # --- `next` on an iterator over known elements: the iterator value in its location is advanced
        if shortn == "next" and len(args) == 1 and args[0][0] == "ref" and "Iterator" in (t["f"].get("def") or name):
            itv = self.read_loc(path, args[0][1])
            if itv[0] == "citer":
                self.mark_concrete_loop(path, frame, t)
                if itv[1]:
                    self.write_loc(path, args[0][1], ("citer", itv[1][1:]))
                    return self._multi(path, frame, t, [(SOME(itv[1][0]), path)], depth)
                return self._multi(path, frame, t, [(NONE, path)], depth)
        # --- iter_mut over an array held in a location: references to its element places
        if shortn == "iter_mut" and len(args) == 1 and args[0][0] == "ref":
            loc_ = args[0][1]
            v_ = self.read_loc(path, loc_)
            for _ in range(3):
                if v_[0] == "ref":
                    loc_ = v_[1]
                    v_ = self.read_loc(path, loc_)
            if v_[0] == "agg" and v_[1] == "array" and len(v_[3]) <= 64:
                n_ = len(v_[3])
                elems = tuple(("ref", (loc_[0], tuple(loc_[1]) + (("ci", i_, n_, False),)), True) for i_ in range(n_))
                return self._multi(path, frame, t, [(("citer", elems), path)], depth)
        # --- iterator chains over arrays whose elements are known: ('citer', elements)
        if shortn in ("iter", "into_iter") and len(args) == 1:
            v = self._deref_all(path, args[0])
            while v[0] == "deref":
                v = v[1]
            if v[0] == "agg" and v[1] == "array" and len(v[3]) <= 160:
                byref = shortn == "iter" or args[0][0] == "ref"
                elems = []
                for i, e in enumerate(v[3]):
                    if byref:
                        tmp = ("L", ("citer-elem", frame.fid, t["sp"], i, len(path.events)), 0)
                        path.store[tmp] = e
                        elems.append(("ref", (tmp, ()), False))
                    else:
                        elems.append(e)
                return self._multi(path, frame, t, [(("citer", tuple(elems)), path)], depth)
            if v[0] == "citer":
                return self._multi(path, frame, t, [(v, path)], depth)
            if v[0] == "agg" and v[1] == OPTION and v[2] is not None:
                # an Option as an iterator of zero or one element
                if v[2] == 0:
                    return self._multi(path, frame, t, [(("citer", ()), path)], depth)
                e = v[3][0]
                if shortn == "iter" or args[0][0] == "ref":
                    tmp = ("L", ("citer-elem", frame.fid, t["sp"], 0, len(path.events)), 0)
                    path.store[tmp] = e
                    e = ("ref", (tmp, ()), False)
                return self._multi(path, frame, t, [(("citer", (e,)), path)], depth)
        # --- [T; N]::map with known elements: the closure runs per element, in order
        if shortn == "map" and "core::array::<impl [T; N]>::map" in name and len(args) == 2:
            arr_ = self._deref_all(path, args[0])
            if arr_[0] == "agg" and arr_[1] == "array" and len(arr_[3]) <= 16:
                def gen_amap():
                    states = [(path, ())]
                    for e_ in arr_[3]:
                        nxt = []
                        for p_, acc_ in states:
                            res_ = self._call_closure_value(p_, frame, t, args[1], [e_], depth, "array-map")
                            if res_ is None:
                                yield from self._opaque_cont(p_, frame, t, name, args, depth, havoc=True)
                                return
                            for o_ in res_:
                                if o_.kind == "return":
                                    nxt.append((o_.path, acc_ + (o_.value,)))
                                else:
                                    yield o_
                        states = nxt
                    for p_, acc_ in states:
                        yield from self.cont(frame, t, p_, ("agg", "array", None, acc_), depth)
                return gen_amap()
        if name.startswith("std::ops::RangeInclusive::<") and shortn == "new" and len(args) == 2:
            return self._multi(path, frame, t, [(("agg", "adt:std::ops::RangeInclusive", 0, (args[0], args[1], INT(0, 8))), path)], depth)
        if args and "Iterator" in (t["f"].get("def") or name) and shortn in (
                "filter", "map", "fold", "any", "all", "find", "position", "for_each", "sum", "rev", "chain", "count", "copied", "cloned", "enumerate"):
            # a range with constant bounds used as an iterator chain: its elements are known
            rg = self._deref_all(path, args[0])
            if rg[0] == "agg" and rg[1] in ("adt:std::ops::Range", "adt:std::ops::RangeInclusive") and len(rg[3]) >= 2 \
                    and is_int(rg[3][0]) and is_int(rg[3][1]):
                lo_, hi_ = rg[3][0][1], rg[3][1][1] + (1 if rg[1].endswith("Inclusive") else 0)
                if 0 <= hi_ - lo_ <= 128:
                    cit = ("citer", tuple(INT(v_, rg[3][0][2]) for v_ in range(lo_, hi_)))
                    if args[0][0] == "ref":
                        self.write_loc(path, args[0][1], cit)
                    else:
                        args = [cit] + list(args[1:])
        if args and "Iterator" in (t["f"].get("def") or name) and \
                (args[0][0] == "citer" or (args[0][0] == "ref" and self._deref_all(path, args[0])[0] == "citer")):
            it = self._deref_all(path, args[0])  # any / all / find / position take `&mut self`
            if shortn in ("copied", "cloned"):
                return self._multi(path, frame, t, [(("citer", tuple(self._deref_all(path, e, 1) if e[0] == "ref" else e for e in it[1])), path)], depth)
            if shortn in ("rev",):
                return self._multi(path, frame, t, [(("citer", it[1][::-1]), path)], depth)
            if shortn == "enumerate" and len(args) == 1:
                return self._multi(path, frame, t, [(("citer", tuple(("agg", "tuple", None, (INT(i_, 64), e_)) for i_, e_ in enumerate(it[1]))), path)], depth)
            if shortn == "chain" and len(args) == 2:
                o_ = self._deref_all(path, args[1])
                other = None
                if o_[0] == "citer":
                    other = o_[1]
                elif o_[0] == "agg" and o_[1] == OPTION and o_[2] is not None:
                    other = () if o_[2] == 0 else (o_[3][0],)
                elif o_[0] == "agg" and o_[1] == "array":
                    other = o_[3]
                if other is not None:
                    return self._multi(path, frame, t, [(("citer", tuple(it[1]) + tuple(other)), path)], depth)
            if shortn == "count" and len(args) == 1:
                return self._multi(path, frame, t, [(INT(len(it[1]), 64), path)], depth)
            if shortn == "collect" and len(args) == 1 and re.search(r"\bVec<|Box<\[", " ".join(map(str, t["f"].get("gargs", [])))):
                # the known elements gathered into a vector / boxed slice, in order
                return self._multi(path, frame, t, [(("agg", "array", None, tuple(it[1])), path)], depth)
            if shortn in ("filter", "map", "fold", "any", "all", "find", "position", "for_each", "sum", "max", "min") and \
                    (len(args) >= 2 or shortn in ("sum", "max", "min")):
                g = self._citer_adaptor(path, frame, t, shortn, it, args[1:], depth)
                if g is not None:
                    return g
        # --- small arrays / byte tuples held as aggregates
        if shortn in ("split_at", "split_first", "split_last") and args and ("slice" in name or "[T]" in name or "array" in name):
            base = self._deref_all(path, args[0])
            while base[0] == "deref" and isinstance(base[1], tuple):
                base = base[1]
            if base[0] == "agg" and base[1] == "array":
                if shortn == "split_at" and len(args) == 2 and is_int(self._deref_all(path, args[1])):
                    n_ = self._deref_all(path, args[1])[1]
                    if n_ <= len(base[3]):
                        pair = ("agg", "tuple", None, (("agg", "array", None, tuple(base[3][:n_])), ("agg", "array", None, tuple(base[3][n_:]))))
                        return self._multi(path, frame, t, [(pair, path)], depth)
                    return self._multi(path, frame, t, [("panic", "X", "split_at beyond the length", path)], depth)
                if shortn in ("split_first", "split_last") and len(args) == 1:
                    if not base[3]:
                        return self._multi(path, frame, t, [(NONE, path)], depth)
                    one, rest = (base[3][0], base[3][1:]) if shortn == "split_first" else (base[3][-1], base[3][:-1])
                    tmp = ("L", ("split-elem", frame.fid, t["sp"], len(path.events)), 0)
                    path.store[tmp] = one
                    return self._multi(path, frame, t, [(SOME(("agg", "tuple", None, (("ref", (tmp, ()), False), ("agg", "array", None, tuple(rest))))), path)], depth)
        if shortn in ("index", "index_mut") and "ops::Index" in name and len(args) == 2:
            base = self._deref_all(path, args[0])
            if base[0] == "agg" and base[1] == "array":
                ix = self._deref_all(path, args[1])
                n_ = len(base[3])
                lo = hi = None
                if is_int(ix):
                    if ix[1] < n_ and shortn == "index":
                        tmp = ("L", ("arr-elem", frame.fid, t["sp"], len(path.events)), 0)
                        path.store[tmp] = base[3][ix[1]]
                        return self._multi(path, frame, t, [(("ref", (tmp, ()), False), path)], depth)
                elif ix[0] == "agg" and ix[1].startswith("adt:std::ops::Range"):
                    kind = ix[1].rsplit("::", 1)[1]
                    f_ = ix[3]
                    if kind == "RangeTo" and is_int(f_[0]):
                        lo, hi = 0, f_[0][1]
                    elif kind == "RangeFrom" and is_int(f_[0]):
                        lo, hi = f_[0][1], n_
                    elif kind == "Range" and is_int(f_[0]) and is_int(f_[1]):
                        lo, hi = f_[0][1], f_[1][1]
                    elif kind == "RangeFull":
                        lo, hi = 0, n_
                    if lo is not None and lo <= hi <= n_:
                        if shortn == "index_mut" and args[0][0] == "ref":
                            loc = args[0][1]
                            inner = self.read_loc(path, loc)
                            while inner[0] == "ref":
                                loc = inner[1]
                                inner = self.read_loc(path, loc)
                            return self._multi(path, frame, t, [(("arrview", loc, lo, hi), path)], depth)
                        return self._multi(path, frame, t, [(("agg", "array", None, base[3][lo:hi]), path)], depth)
        if shortn in ("copy_from_slice", "clone_from_slice") and len(args) == 2:
            dst = args[0]
            for _ in range(3):
                if dst[0] == "ref" and dst[1][0][0] == "D" and not dst[1][1]:
                    dst = dst[1][0][1]
            src = args[1]
            for _ in range(3):
                if src[0] == "ref" and src[1][0][0] == "D" and not src[1][1]:
                    src = src[1][0][1]
            src = self._deref_all(path, src)
            if dst[0] == "arrview" and src[0] == "agg" and src[1] == "array" and len(src[3]) == dst[3] - dst[2]:
                cur = self.read_loc(path, dst[1])
                if cur[0] == "agg" and cur[1] == "array":
                    new = cur[3][:dst[2]] + tuple(src[3]) + cur[3][dst[3]:]
                    self.write_loc(path, dst[1], ("agg", "array", None, new))
                    return self._multi(path, frame, t, [(UNIT, path)], depth)
        if shortn in ("try_into", "try_from") and len(args) == 1:
            v = self._deref_all(path, args[0])
            g_ = " ".join(t["f"].get("gargs", []))
            m_ = re.search(r"\[u8; (\w+)\]", g_)
            n_arr = None
            if m_:
                if m_.group(1).isdigit():
                    n_arr = int(m_.group(1))
                else:
                    gn_ = frame.body.get("generics") or []
                    if frame.gargs and m_.group(1) in gn_ and gn_.index(m_.group(1)) < len(frame.gargs) and \
                            str(frame.gargs[gn_.index(m_.group(1))]).strip().isdigit():
                        n_arr = int(str(frame.gargs[gn_.index(m_.group(1))]).strip())
            if v[0] == "agg" and v[1] == "array" and n_arr is not None:
                if len(v[3]) == n_arr:
                    return self._multi(path, frame, t, [(OK(v), path)], depth)
                return self._multi(path, frame, t, [(ERR(("ret", "TryFromSliceError", (), 0)), path)], depth)
        if shortn in ("deref", "as_slice", "as_ref", "to_vec", "borrow", "into_boxed_slice", "to_owned") and len(args) == 1:
            v = self._deref_all(path, args[0])
            if v[0] == "agg" and v[1] == "array":
                return self._multi(path, frame, t, [(v, path)], depth)
        if shortn == "contains" and len(args) == 2 and ("slice" in name or "[T]" in name or "array" in name):
            v = self._deref_all(path, args[0])
            while v[0] == "deref":
                v = v[1]
            x = self._deref_all(path, args[1])
            if v[0] == "agg" and v[1] == "array":
                xr = self.scalar_rank(x)
                er = [self.scalar_rank(e) for e in v[3]]
                if xr is not None and all(e is not None and e[0] == xr[0] for e in er):
                    return self._multi(path, frame, t, [(INT(int(any(e[1] == xr[1] for e in er)), 8), path)], depth)
        if shortn == "len" and len(args) == 1:
            v = self._deref_all(path, args[0])
            if v[0] == "agg" and v[1] == "array":
                return self._multi(path, frame, t, [(INT(len(v[3]), 64), path)], depth)
        # --- conversions
        if name.endswith("::into") or name.endswith("::from") or name.endswith("::try_into") or name.endswith("::try_from"):
            g = t["f"].get("gargs", [])
            fname = name.rsplit("::", 1)[1]
            src = dst = None
            if fname in ("into", "try_into") and len(g) >= 2:
                src, dst = g[0], g[1]
            elif fname in ("from", "try_from") and len(g) >= 2:
                dst, src = g[0], g[1]
            if src is not None:
                if src == dst and fname in ("into", "from"):
                    return self._multi(path, frame, t, [(args[0], path)], depth)
                tr = "std::convert::TryFrom<" if fname.startswith("try") else "std::convert::From<"
                meth = "try_from" if fname.startswith("try") else "from"
                cands = [k for k in F_.by_name(meth)
                         if F_.bodies[k].get("impl_self") == dst
                         and (F_.bodies[k].get("impl_trait") or "") == tr + src + ">"]
                if len(cands) == 1 and depth < self.max_depth and self.may_inline(cands[0], F_.bodies[cands[0]]):
                    return self._inline(path, frame, t, F_.bodies[cands[0]], args, depth)
                # integer widening From
                sb = _prim_bits(src)
                db = _prim_bits(dst)
                if sb and db and fname in ("into", "from"):
                    return self._multi(path, frame, t, [(self.cast(args[0], sb[0], sb[1], db[0]), path)], depth)
                if sb and db and fname in ("try_into", "try_from"):
                    # checked integer conversion: Ok(value) iff the value lies in the destination's range
                    x = args[0]
                    dmax = (1 << (db[0] - (1 if db[1] else 0))) - 1
                    dmin = -(1 << (db[0] - 1)) if db[1] else 0
                    smax = (1 << (sb[0] - (1 if sb[1] else 0))) - 1
                    smin = -(1 << (sb[0] - 1)) if sb[1] else 0
                    conds = []
                    if dmax < smax:
                        conds.append(self.binop(path, "Le", x, INT(dmax, sb[0]), 8, sb[1]))
                    if dmin > smin:
                        conds.append(self.binop(path, "Ge", x, INT(dmin, sb[0]), 8, sb[1]))
                    okv = OK(self.cast(x, sb[0], sb[1], db[0]))
                    errv = ERR(("ret", "TryFromIntError", (), 0))
                    outs = [(None, path)]
                    res = []
                    for c in conds:
                        nxt = []
                        for _, p in outs:
                            d = self.decide(p, c)
                            if d == 1:
                                nxt.append((None, p))
                            elif d == 0:
                                res.append((errv, p))
                            else:
                                p2 = p.copy()
                                self.assume_cond(p, c, 1)
                                self.assume_cond(p2, c, 0)
                                nxt.append((None, p))
                                res.append((errv, p2))
                        outs = nxt
                    res = [(okv, p) for _, p in outs] + res
                    return self._multi(path, frame, t, res, depth)
                if fname in ("into", "from"):
                    return self._multi(path, frame, t, [(("conv", dst, args[0]), path)], depth)
        # --- Clone / Deref / borrow
        if name.endswith("::clone") and len(args) == 1:
            v = args[0]
            if v[0] == "ref":
                v = self.read_loc(path, v[1])
            return self._multi(path, frame, t, [(v, path)], depth)
        if name in ("std::mem::drop", "core::mem::drop"):
            return self._multi(path, frame, t, [(UNIT, path)], depth)
        if name in ("std::mem::replace", "core::mem::replace") and len(args) == 2 and args[0][0] == "ref":
            # the old value is handed out, the new one stored in its place
            old_ = self.read_loc(path, args[0][1])
            self.write_loc(path, args[0][1], args[1])
            return self._multi(path, frame, t, [(old_, path)], depth)
        if name in ("std::mem::swap", "core::mem::swap") and len(args) == 2 and args[0][0] == "ref" and args[1][0] == "ref":
            a_, b_ = self.read_loc(path, args[0][1]), self.read_loc(path, args[1][1])
            self.write_loc(path, args[0][1], b_)
            self.write_loc(path, args[1][1], a_)
            return self._multi(path, frame, t, [(UNIT, path)], depth)
        # --- integer helpers
        m = _INT_METHOD.match(name)
        if m:
            ty, meth = m.group(1), m.group(2)
            tb = _prim_bits(ty)
            bits, signed = tb
            a = args[0]
            b = args[1] if len(args) > 1 else None
            if meth in ("wrapping_add", "wrapping_sub", "wrapping_mul"):
                op = {"wrapping_add": "Add", "wrapping_sub": "Sub", "wrapping_mul": "Mul"}[meth]
                return self._multi(path, frame, t, [(self.binop(path, op, a, b, bits, signed), path)], depth)
            if meth in ("overflowing_add", "overflowing_sub", "overflowing_mul"):
                op = {"overflowing_add": "Add", "overflowing_sub": "Sub", "overflowing_mul": "Mul"}[meth]
                r = self.binop(path, op, a, b, bits, signed)
                o = self.binop(path, op + "Ovf", a, b, 8, signed)
                return self._multi(path, frame, t, [(("agg", "tuple", None, (r, o)), path)], depth)
            if meth in ("wrapping_shl", "wrapping_shr"):
                op = "Shl" if meth.endswith("shl") else "Shr"
                cnt = self.binop(path, "BitAnd", b, INT(bits - 1, 32), 32)
                return self._multi(path, frame, t, [(self.binop(path, op, a, cnt, bits, signed), path)], depth)
            if meth in ("div_ceil", "next_multiple_of", "checked_next_multiple_of") and not signed and is_int(b) and b[1] > 0:
                # ceil(a / b) = a / b + (a % b != 0); the multiple of b is that times b (which may overflow)
                q = self.binop(path, "Div", a, b, bits, False)
                r_ = self.binop(path, "Ne", self.binop(path, "Rem", a, b, bits, False), INT(0, bits), 8)
                dc = self.binop(path, "Add", q, ("cast", r_, 8, False, bits), bits, False)
                if meth == "div_ceil":
                    return self._multi(path, frame, t, [(dc, path)], depth)
                prod = self.binop(path, "Mul", dc, b, bits, False)
                ov = self.binop(path, "MulOvf", dc, b, 8, False)
                d_ = self.decide(path, ov)
                if meth == "next_multiple_of":
                    if d_ is None:
                        path.events.append(("assert", "Overflow", "Mul", {"a": dc, "b": b}, F.site_str(frame.body, t["sp"]),
                                            frame.body["path"], ov, len(path.conds), ""))
                    return self._multi(path, frame, t, [(prod, path)], depth)
                outs = []
                if d_ != 1:
                    p_ok = path.copy() if d_ is None else path
                    if d_ is None:
                        self.assume_cond(p_ok, ov, 0)
                    outs.append((SOME(prod), p_ok))
                if d_ != 0:
                    if d_ is None:
                        self.assume_cond(path, ov, 1)
                    outs.append((NONE, path))
                return self._multi(path, frame, t, outs, depth)
            if meth in ("overflowing_div", "overflowing_rem"):
                op = "Div" if meth.endswith("div") else "Rem"
                path.events.append(("divop", op, a, b, bits, signed))
                z = self.binop(path, "Eq", b, INT(0, bits), 8, signed)
                if self.decide(path, z) is None:
                    path.events.append(("assert", "DivisionByZero" if op == "Div" else "RemainderByZero", None, {"a": b},
                                        F.site_str(frame.body, t["sp"]), frame.body["path"], z, len(path.conds), ""))
                val = self.binop(path, op, a, b, bits, signed)
                if signed:
                    # overflows only for MIN / -1 (the result then wraps to MIN, the remainder is 0)
                    ovf = self.binop(path, "BitAnd", self.binop(path, "Eq", a, INT(1 << (bits - 1), bits), 8, False),
                                     self.binop(path, "Eq", b, INT(mask(bits), bits), 8, False), 8, False)
                else:
                    ovf = INT(0, 8)
                return self._multi(path, frame, t, [(("agg", "tuple", None, (val, ovf)), path)], depth)
            if meth in ("wrapping_div", "wrapping_rem"):
                op = "Div" if meth.endswith("div") else "Rem"
                path.events.append(("divop", op, a, b, bits, signed))
                # the std implementation still panics on a zero divisor
                z = self.binop(path, "Eq", b, INT(0, bits), 8, signed)
                if self.decide(path, z) is None:
                    path.events.append(("assert", "DivisionByZero" if op == "Div" else "RemainderByZero", None, {"a": b},
                                        F.site_str(frame.body, t["sp"]), frame.body["path"], z, len(path.conds), ""))
                return self._multi(path, frame, t, [(self.binop(path, op, a, b, bits, signed), path)], depth)
            if meth in ("checked_add", "checked_sub", "checked_mul"):
                op = {"checked_add": "Add", "checked_sub": "Sub", "checked_mul": "Mul"}[meth]
                val = self.binop(path, op, a, b, bits, signed)
                ovf = self.binop(path, op + "Ovf", a, b, 8, signed)
                d = self.decide(path, ovf)
                if d == 0:
                    return self._multi(path, frame, t, [(SOME(val), path)], depth)
                if d == 1:
                    return self._multi(path, frame, t, [(NONE, path)], depth)
                p2 = path.copy()
                self.assume_cond(path, ovf, 0)
                self.assume_cond(p2, ovf, 1)
                path.events.append(("checked", op, a, b, "some"))
                p2.events.append(("checked", op, a, b, "none"))
                return self._multi(path, frame, t, [(SOME(val), path), (NONE, p2)], depth)
            if meth in ("is_negative", "is_positive") and b is None and signed:
                # x < 0 / x > 0 as the signed comparison the std body performs
                r = self.binop(path, "Lt" if meth == "is_negative" else "Gt", a, INT(0, bits), 8, True)
                return self._multi(path, frame, t, [(r, path)], depth)
            if meth in ("count_ones", "count_zeros", "leading_zeros", "trailing_zeros", "swap_bytes", "reverse_bits") and b is None:
                if is_int(a):
                    v = a[1] & mask(bits)
                    bs = format(v, "0%db" % bits)
                    r = {"count_ones": bs.count("1"), "count_zeros": bs.count("0"),
                         "leading_zeros": len(bs) - len(bs.lstrip("0")), "trailing_zeros": len(bs) - len(bs.rstrip("0")),
                         "swap_bytes": int.from_bytes(v.to_bytes(bits // 8, "little"), "big"),
                         "reverse_bits": int(bs[::-1], 2)}[meth]
                    return self._multi(path, frame, t, [(INT(r, bits if meth in ("swap_bytes", "reverse_bits") else 32), path)], depth)
                return self._multi(path, frame, t, [(W(("ret", meth, (a,), 0), bits if meth in ("swap_bytes", "reverse_bits") else 32), path)], depth)
            if meth in ("rotate_left", "rotate_right") and is_int(a) and b is not None and is_int(b):
                v, n_ = a[1] & mask(bits), b[1] % bits
                if meth == "rotate_right":
                    n_ = (bits - n_) % bits
                return self._multi(path, frame, t, [(INT(((v << n_) | (v >> (bits - n_))) & mask(bits) if n_ else v, bits), path)], depth)
            if meth in ("to_le_bytes", "to_be_bytes", "to_ne_bytes") and b is None:
                bs = tuple(self.cast(self.binop(path, "Shr", a, INT(8 * i, 32), bits) if i else a, bits, False, 8)
                           for i in range(bits // 8))
                if meth == "to_be_bytes":
                    bs = bs[::-1]
                return self._multi(path, frame, t, [(("agg", "array", None, bs), path)], depth)
            if meth in ("from_le_bytes", "from_be_bytes", "from_ne_bytes") and b is None:
                arr_ = self._deref_all(path, a)
                if arr_[0] == "agg" and arr_[1] == "array" and len(arr_[3]) == bits // 8:
                    bs = arr_[3] if meth != "from_be_bytes" else arr_[3][::-1]
                    v = INT(0, bits)
                    for i, x in enumerate(bs):
                        e = self.cast(x, 8, False, bits)
                        if i:
                            e = self.binop(path, "Shl", e, INT(8 * i, 32), bits)
                        v = self.binop(path, "BitOr", v, e, bits)
                    return self._multi(path, frame, t, [(v, path)], depth)
            if meth in ("checked_div", "checked_rem") and b is not None and not signed:
                op = "Div" if meth.endswith("div") else "Rem"
                z = self.binop(path, "Eq", b, INT(0, bits), 8)
                d = self.decide(path, z)
                outs = []
                if d != 1:
                    p_ok = path if d == 0 else path.copy()
                    if d is None:
                        self.assume_cond(p_ok, z, 0)
                    p_ok.events.append(("divop", op, a, b, bits, signed))
                    outs.append((SOME(self.binop(p_ok, op, a, b, bits, signed)), p_ok))
                if d != 0:
                    if d is None:
                        self.assume_cond(path, z, 1)
                    outs.append((NONE, path))
                return self._multi(path, frame, t, outs, depth)
            if meth in ("saturating_add", "saturating_sub"):
                op = "Add" if meth.endswith("add") else "Sub"
                return self._multi(path, frame, t, [(("ret", meth, (a, b), 0), path)], depth)
            if meth in ("max", "min"):
                r = self.minmax(path, meth, a, b, bits, signed)
                return self._multi(path, frame, t, [(r, path)], depth)
            if meth in ("checked_shl", "checked_shr"):
                op = "Shl" if meth.endswith("shl") else "Shr"
                lo, hi = bv_range(bitvec(b, path))
                val = self.binop(path, op, a, b, bits, signed)
                if hi < bits:
                    return self._multi(path, frame, t, [(SOME(val), path)], depth)
                if lo >= bits:
                    return self._multi(path, frame, t, [(NONE, path)], depth)
                c = self.binop(path, "Lt", b, INT(bits, width_of(b)), 8)
                p2 = path.copy()
                self.assume_cond(path, c, 1)
                self.assume_cond(p2, c, 0)
                return self._multi(path, frame, t, [(SOME(val), path), (NONE, p2)], depth)
            if meth == "wrapping_neg":
                return self._multi(path, frame, t, [(self.binop(path, "Sub", INT(0, bits), a, bits, signed), path)], depth)
        if name in ("std::cmp::min", "core::cmp::min", "std::cmp::Ord::min", "std::cmp::max", "core::cmp::max",
                    "std::cmp::Ord::max") or name.endswith((" as std::cmp::Ord>::min", " as std::cmp::Ord>::max")):
            a, b = args[0], args[1]
            meth = "min" if name.endswith("min") else "max"
            return self._multi(path, frame, t, [(self.minmax(path, meth, a, b, width_of(a), False), path)], depth)
        if name.endswith("::is_empty") and len(args) == 1 and ("Vec" in name or "slice" in name or "<impl [T]>" in name):
            v = args[0]
            inner = self.read_loc(path, v[1]) if v[0] == "ref" else v
            return self._multi(path, frame, t, [(self.binop(path, "Eq", W(LEN(inner), 64), INT(0, 64), 8), path)], depth)
        if name.endswith("::len") and len(args) == 1 and ("Vec" in name or "slice" in name or "<impl [T]>" in name):
            v = args[0]
            if v[0] == "ref":
                inner = self.read_loc(path, v[1])
                return self._multi(path, frame, t, [(W(LEN(inner), 64), path)], depth)
            if v[0] != "ref":
                return self._multi(path, frame, t, [(W(LEN(v), 64), path)], depth)
        # --- concrete Range iteration (for i in a..b with constant bounds)
        if self.concrete_ranges and name.endswith("::next") and "Iterator" in (t["f"].get("def") or "") \
                and "std::ops::Range<" in " ".join(t["f"].get("gargs", [])):
            rv_ = args[0]
            if rv_[0] == "ref":
                cur = self.read_loc(path, rv_[1])
                if cur[0] == "agg" and cur[1] == "adt:std::ops::Range" and len(cur[3]) == 2 and is_int(cur[3][0]) and is_int(cur[3][1]):
                    st_, en_ = cur[3]
                    if to_signed(st_[1], st_[2]) < to_signed(en_[1], en_[2]):
                        self.write_loc(path, rv_[1], ("agg", cur[1], cur[2], (INT(st_[1] + 1, st_[2]), en_)))
                        return self._multi(path, frame, t, [(SOME(st_), path)], depth)
                    return self._multi(path, frame, t, [(NONE, path)], depth)
        if self.concrete_ranges and name.endswith("::into_iter") and len(args) == 1 and args[0][0] == "agg" \
                and args[0][1] == "adt:std::ops::Range":
            return self._multi(path, frame, t, [(args[0], path)], depth)
        # --- array::from_fn(|i| ..): the closure applied to 0..N
        if name in ("std::array::from_fn", "core::array::from_fn") and len(args) == 1:
            ga_ = t["f"].get("gargs") or []
            n_ = next((int(g_) for g_ in ga_ if str(g_).isdigit()), None)
            if n_ is not None and n_ <= 32:
                def gen_fromfn():
                    states = [(path, ())]
                    for i_ in range(n_):
                        nxt = []
                        for p_, acc_ in states:
                            res_ = self._call_closure_value(p_, frame, t, args[0], [INT(i_, 64)], depth, "from_fn")
                            if res_ is None:
                                yield from self._opaque_cont(p_, frame, t, name, args, depth, havoc=True)
                                return
                            for o_ in res_:
                                if o_.kind == "return":
                                    nxt.append((o_.path, acc_ + (o_.value,)))
                                else:
                                    yield o_
                        states = nxt
                    for p_, acc_ in states:
                        yield from self.cont(frame, t, p_, ("agg", "array", None, acc_), depth)
                return gen_fromfn()
        # --- slice::from_ref(&x) / array::from_ref: a one-element view
        if name in ("std::slice::from_ref", "core::slice::from_ref", "std::array::from_ref", "core::array::from_ref",
                    "std::slice::from_mut", "core::slice::from_mut") and len(args) == 1:
            return self._multi(path, frame, t, [(("agg", "array", None, (self._deref_all(path, args[0], 1) if args[0][0] == "ref" else args[0],)), path)], depth)
        # --- bool::then / then_some
        if name in ("std::bool::<impl bool>::then", "core::bool::<impl bool>::then", "std::bool::<impl bool>::then_some",
                    "core::bool::<impl bool>::then_some") and len(args) == 2:
            def gen_then():
                d_ = self.decide(path, args[0])
                alts = [(d_, path)]
                if d_ is None:
                    p2 = path.copy()
                    self.assume_cond(path, args[0], 1)
                    self.assume_cond(p2, args[0], 0)
                    alts = [(1, path), (0, p2)]
                for dv, pp in alts:
                    if not dv:
                        yield from self.cont(frame, t, pp, NONE, depth)
                    elif name.endswith("then_some"):
                        yield from self.cont(frame, t, pp, SOME(args[1]), depth)
                    else:
                        res_ = self._call_closure_value(pp, frame, t, args[1], [], depth, "then")
                        if res_ is None:
                            yield from self._opaque_cont(pp, frame, t, name, args, depth, havoc=True)
                            continue
                        for o in res_:
                            if o.kind == "return":
                                yield from self.cont(frame, t, o.path, SOME(o.value), depth)
                            else:
                                yield o
            return gen_then()
        # --- NonZero<uN>: the same integer, known not to be zero
        if name.startswith("std::num::NonZero::<T>::") and args:
            meth = name.rsplit("::", 1)[1]
            a = self._deref_all(path, args[0])
            if meth == "new" and len(args) == 1:
                z = self.binop(path, "Eq", a, INT(0, width_of(a)), 8)
                d = self.decide(path, z)
                outs = []
                if d != 1:
                    p_ok = path.copy() if d is None else path
                    if d is None:
                        self.assume_cond(p_ok, z, 0)
                    outs.append((SOME(a), p_ok))
                if d != 0:
                    if d is None:
                        self.assume_cond(path, z, 1)
                    outs.append((NONE, path))
                return self._multi(path, frame, t, outs, depth)
            if meth in ("get", "new_unchecked") and len(args) == 1:
                return self._multi(path, frame, t, [(a, path)], depth)
        mnz = re.match(r"core::num::nonzero::<impl std::ops::(Div|Rem)<std::num::NonZero<([ui]\d+|usize)>> for [ui]\w+>::(div|rem)$", name)
        if mnz and len(args) == 2:
            tb = _prim_bits(mnz.group(2))
            if tb:
                a, b = self._deref_all(path, args[0]), self._deref_all(path, args[1])
                path.events.append(("divop", mnz.group(1), a, b, tb[0], tb[1]))
                return self._multi(path, frame, t, [(self.binop(path, mnz.group(1), a, b, tb[0], tb[1]), path)], depth)
        # --- PartialEq on references
        if name.endswith("::eq") or name.endswith("::ne"):
            if len(args) == 2:
                a = self._deref_all(path, args[0])
                b = self._deref_all(path, args[1])
                r = self.struct_eq(path, a, b)
                if not name.endswith("::eq"):
                    r = self.binop(path, "Eq", r, INT(0, 8), 8)
                return self._multi(path, frame, t, [(r, path)], depth)
        # --- Option<&T>::copied / cloned: the payload reference is read through
        if name.startswith(("std::option::Option::<&T>::", "std::option::Option::<&mut T>::")) and \
                name.rsplit("::", 1)[1] in ("copied", "cloned") and len(args) == 1:
            v = args[0]
            if v[0] == "ref":
                v = self.read_loc(path, v[1])
            outs = []
            for vi, payload, p in self.split_result(path, v, OPTION):
                if vi == 1:
                    outs.append((SOME(self._deref_all(p, payload, 1) if payload[0] == "ref" else ("deref", payload)), p))
                else:
                    outs.append((NONE, p))
            return self._multi(path, frame, t, outs, depth)
        if name.endswith("::transpose") and len(args) == 1 and name.startswith(("std::option::Option::<std::result::Result<", "std::result::Result::<std::option::Option<")):
            v = args[0]
            outs = []
            if name.startswith("std::option"):   # Option<Result<T, E>> -> Result<Option<T>, E>
                for vi, payload, p in self.split_result(path, v, OPTION):
                    if vi != 1:
                        outs.append((OK(NONE), p))
                        continue
                    for ri, rp, p3 in self.split_result(p, payload, RESULT):
                        outs.append((OK(SOME(rp)) if ri == 0 else ERR(rp), p3))
            else:                                # Result<Option<T>, E> -> Option<Result<T, E>>
                for ri, rp, p in self.split_result(path, v, RESULT):
                    if ri != 0:
                        outs.append((SOME(ERR(rp)), p))
                        continue
                    for vi, payload, p3 in self.split_result(p, rp, OPTION):
                        outs.append((SOME(OK(payload)) if vi == 1 else NONE, p3))
            return self._multi(path, frame, t, outs, depth)
        # --- Option / Result
        if name.startswith(("std::option::Option::<T>::", "std::result::Result::<T, E>::")):
            meth = name.rsplit("::", 1)[1]
            is_opt = name.startswith("std::option")
            good = 1 if is_opt else 0
            v = args[0]
            if v[0] == "ref" and meth in ("is_some", "is_none", "is_ok", "is_err", "as_ref", "as_mut", "cloned", "copied"):
                v = self.read_loc(path, v[1])
            if meth in ("unwrap", "expect", "unwrap_unchecked"):
                outs = []
                for vi, payload, p in self.split_result(path, v, OPTION if is_opt else RESULT):
                    if vi == good:
                        outs.append((payload, p))
                    else:
                        cls = F.classify_macros(frame.body["spans"][t["sp"]][3])
                        outs.append(("panic", "X" if cls == "X" else cls, meth + " on " + ("None" if is_opt else "Err"), p))
                return self._multi(path, frame, t, outs, depth)
            if meth in ("is_some", "is_ok", "is_none", "is_err"):
                want_good = meth in ("is_some", "is_ok")
                outs = []
                for vi, payload, p in self.split_result(path, v, OPTION if is_opt else RESULT):
                    outs.append((INT(1 if (vi == good) == want_good else 0, 8), p))
                return self._multi(path, frame, t, outs, depth)
            if meth in ("ok_or_else", "ok_or"):
                outs = []
                for vi, payload, p in self.split_result(path, v, OPTION):
                    if vi == 1:
                        outs.append((OK(payload), p))
                    else:
                        p.events.append(("closure_skipped", meth, args[1] if len(args) > 1 else None))
                        outs.append((ERR(("ret", "ok_or_else", (self.norm_arg(p, args[1]),) if len(args) > 1 else (), 0)), p))
                return self._multi(path, frame, t, outs, depth)
            if meth == "map_err":
                outs = []
                for vi, payload, p in self.split_result(path, v, RESULT):
                    if vi == 0:
                        outs.append((OK(payload), p))
                    else:
                        outs.append((ERR(("mapped_err", payload)), p))
                return self._multi(path, frame, t, outs, depth)
            if meth in ("unwrap_or_else", "unwrap_or", "unwrap_or_default"):
                outs = []
                for vi, payload, p in self.split_result(path, v, OPTION if is_opt else RESULT):
                    if vi == good:
                        outs.append((payload, p))
                    else:
                        outs.append((("ret", meth, (), 0), p))
                return self._multi(path, frame, t, outs, depth)
            if meth in ("cloned", "copied", "as_ref", "as_mut"):
                return self._multi(path, frame, t, [(v, path)], depth)
            if meth == "filter" and is_opt and len(args) == 2:
                def gen_filter():
                    for vi, payload, p in self.split_result(path, v, OPTION):
                        if vi != 1:
                            yield from self.cont(frame, t, p, NONE, depth)
                            continue
                        tmp = ("L", ("filter-arg", frame.fid, t["sp"], len(p.events)), 0)
                        p.store[tmp] = payload
                        res = self._call_closure_value(p, frame, t, args[1], [("ref", (tmp, ()), False)], depth, "filter")
                        if res is None:
                            yield from self._opaque_cont(p, frame, t, name, args, depth, havoc=True)
                            continue
                        for o in res:
                            if o.kind != "return":
                                yield o
                                continue
                            d_ = self.decide(o.path, o.value)
                            if d_ is None:
                                p2 = o.path.copy()
                                self.assume_cond(o.path, o.value, 1)
                                self.assume_cond(p2, o.value, 0)
                                yield from self.cont(frame, t, o.path, SOME(payload), depth)
                                yield from self.cont(frame, t, p2, NONE, depth)
                            else:
                                yield from self.cont(frame, t, o.path, SOME(payload) if d_ else NONE, depth)
                return gen_filter()
            if meth == "transpose" and len(args) == 1:
                outs = []
                if is_opt:   # Option<Result<T, E>> -> Result<Option<T>, E>
                    for vi, payload, p in self.split_result(path, v, OPTION):
                        if vi != 1:
                            outs.append((OK(NONE), p))
                            continue
                        for ri, rp, p3 in self.split_result(p, payload, RESULT):
                            outs.append((OK(SOME(rp)) if ri == 0 else ERR(rp), p3))
                else:        # Result<Option<T>, E> -> Option<Result<T, E>>
                    for ri, rp, p in self.split_result(path, v, RESULT):
                        if ri != 0:
                            outs.append((SOME(ERR(rp)), p))
                            continue
                        for vi, payload, p3 in self.split_result(p, rp, OPTION):
                            outs.append((SOME(OK(payload)) if vi == 1 else NONE, p3))
                return self._multi(path, frame, t, outs, depth)
            if meth == "map" and len(args) == 2:
                def gen_map():
                    for vi, payload, p in self.split_result(path, v, OPTION if is_opt else RESULT):
                        if vi != good:
                            yield from self.cont(frame, t, p, v if v[0] == "agg" else (NONE if is_opt else ERR(payload)), depth)
                            continue
                        clos = self._deref_all(p, args[1])
                        cb = self.F.bodies.get(clos[1][8:]) if clos[0] == "agg" and clos[1].startswith("closure:") else None
                        wrap = SOME if is_opt else OK
                        if cb is None and clos[0] == "fn":
                            # a function item / path as the mapper (e.g. `.map(T::try_from)`)
                            fnp = clos[2] or clos[1]
                            fb = self.F.bodies.get(fnp)
                            if fb is not None and not fb.get("coroutine"):
                                for o in self.call_body(fb, [payload], p, frame, depth + 1):
                                    if o.kind == "return":
                                        yield from self.cont(frame, t, o.path, wrap(o.value), depth)
                                    else:
                                        yield o
                                continue
                            res_ = self._call_closure_value(p, frame, t, clos, [payload], depth, "map")
                            if res_ is not None:
                                for o in res_:
                                    if o.kind == "return":
                                        yield from self.cont(frame, t, o.path, wrap(o.value), depth)
                                    else:
                                        yield o
                                continue
                        if cb is None:
                            yield from self.cont(frame, t, p, wrap(("ret", "map", (self.norm_arg(p, args[1]), payload), 0)), depth)
                            continue
                        tmp = ("L", ("map-env", frame.fid, t["sp"]), 0)
                        p.store[tmp] = clos
                        l1 = cb["locals"][1]
                        envarg = ("ref", (tmp, ()), False) if isinstance(l1, list) and l1[0] == "ref" else clos
                        for o in self.call_body(cb, [envarg, payload], p, frame, depth + 1):
                            if o.kind == "return":
                                yield from self.cont(frame, t, o.path, wrap(o.value), depth)
                            else:
                                yield o
                return gen_map()
            if meth in ("and_then", "or_else", "map_or_else", "is_some_and", "is_ok_and", "is_none_or") and len(args) in (2, 3):
                def gen_chain(meth=meth):
                    for vi, payload, p in self.split_result(path, v, OPTION if is_opt else RESULT):
                        hit = (vi == good) if meth in ("and_then", "is_some_and", "is_ok_and", "is_none_or") else (vi != good)
                        if meth == "map_or_else":
                            clos_ = args[2] if vi == good else args[1]
                            cargs_ = [payload] if (vi == good or not is_opt) else []
                        elif not hit:
                            if meth == "and_then":
                                yield from self.cont(frame, t, p, v if v[0] == "agg" else (NONE if is_opt else ERR(payload)), depth)
                            elif meth == "or_else":
                                yield from self.cont(frame, t, p, v if v[0] == "agg" else (SOME(payload) if is_opt else OK(payload)), depth)
                            else:
                                yield from self.cont(frame, t, p, INT(1 if meth == "is_none_or" else 0, 8), depth)
                            continue
                        else:
                            clos_ = args[1]
                            cargs_ = [payload] if not (meth == "or_else" and is_opt) else []
                        res_ = self._call_closure_value(p, frame, t, clos_, cargs_, depth, meth)
                        if res_ is None:
                            yield from self._opaque_cont(p, frame, t, name, args, depth, havoc=True)
                            continue
                        for o in res_:
                            if o.kind == "return":
                                yield from self.cont(frame, t, o.path, o.value, depth)
                            else:
                                yield o
                return gen_chain()
            if meth in ("ok", "err") and not is_opt and len(args) == 1:
                outs = []
                for vi, payload, p in self.split_result(path, v, RESULT):
                    outs.append((SOME(payload) if (vi == 0) == (meth == "ok") else NONE, p))
                return self._multi(path, frame, t, outs, depth)
            if meth == "map_or" and len(args) == 3:
                def gen_map_or():
                    for vi, payload, p in self.split_result(path, v, OPTION if is_opt else RESULT):
                        if vi != good:
                            yield from self.cont(frame, t, p, args[1], depth)
                            continue
                        clos = self._deref_all(p, args[2])
                        cb = self.F.bodies.get(clos[1][8:]) if clos[0] == "agg" and clos[1].startswith("closure:") else None
                        if cb is None:
                            yield from self.cont(frame, t, p, ("ret", "map_or", (payload,), 0), depth)
                            continue
                        tmp = ("L", ("mapor-env", frame.fid, t["sp"]), 0)
                        p.store[tmp] = clos
                        l1 = cb["locals"][1]
                        envarg = ("ref", (tmp, ()), False) if isinstance(l1, list) and l1[0] == "ref" else clos
                        for o in self.call_body(cb, [envarg, payload], p, frame, depth + 1):
                            if o.kind == "return":
                                yield from self.cont(frame, t, o.path, o.value, depth)
                            else:
                                yield o
                return gen_map_or()
        return None

    FN_TRAIT_CALLS = ("std::ops::Fn::call", "std::ops::FnMut::call_mut", "std::ops::FnOnce::call_once")

    def closure_call(self, path, frame, t, name, args, depth):
        """`f(args)` through the Fn traits (rust-call ABI: env + argument tuple)."""
        F_ = self.F
        envv = args[0]
        env = self._deref_all(path, envv)
        cdef = None
        if name in F_.bodies and F_.bodies[name]["kind"] == "Closure":
            cdef = name
        elif env[0] == "agg" and env[1].startswith("closure:"):
            cdef = env[1][8:]
        tup = args[1] if len(args) > 1 else UNIT
        if cdef is not None:
            cb = F_.bodies.get(cdef)
            if cb is not None and depth < self.max_depth and not cb.get("coroutine"):
                if tup[0] == "agg":
                    cargs = list(tup[3])
                else:
                    cargs = [("field", tup, i) for i in range(cb["argc"] - 1)]
                l1 = cb["locals"][1]
                if isinstance(l1, list) and l1[0] == "ref":
                    if envv[0] == "ref" and self.read_loc(path, envv[1])[0] == "ref":
                        envarg = self.read_loc(path, envv[1])
                    elif envv[0] == "ref":
                        envarg = envv
                    else:
                        tmp = ("L", ("env", frame.fid, t["sp"]), 0)
                        path.store[tmp] = env
                        envarg = ("ref", (tmp, ()), False)
                else:
                    envarg = env
                path.events.append(("closure_call", cdef))
                return self._inline(path, frame, t, cb, [envarg] + cargs, depth)
        if env[0] == "fn":
            cb = F_.bodies.get(env[2] or env[1])
            if cb is not None and depth < self.max_depth:
                cargs = list(tup[3]) if tup[0] == "agg" else []
                return self._inline(path, frame, t, cb, cargs, depth)
        path.events.append(("unknown_closure_call", env, F.site_str(frame.body, t["sp"])))
        return None

    def _call_closure_value(self, path, frame, t, clos, cargs, depth, tag):
        """outcomes of calling a closure value with explicit arguments, or None when it is not a local closure"""
        clos = self._deref_all(path, clos)
        if clos[0] == "fn":
            fb = self.F.bodies.get(clos[2] or clos[1]) or self.F.bodies.get(clos[1])
            if fb is None:
                # the constructor of a tuple variant / tuple struct used as a function (`.map(Operand::Memory)`)
                for nm in (clos[2], clos[1]):
                    if not isinstance(nm, str) or "::" not in nm:
                        continue
                    nm = nm.split("::<")[0]
                    adt, var = nm.rsplit("::", 1)
                    a_ = self.F.adts.get(adt)
                    if a_ is not None:
                        for vi, v_ in enumerate(a_["variants"]):
                            if v_["name"] == var and len(v_["fields"]) == len(cargs):
                                return [Outcome("return", ("agg", "adt:" + adt, vi, tuple(cargs)), path)]
                    a_ = self.F.adts.get(nm)
                    if a_ is not None and a_["kind"] == "Struct" and len(a_["variants"][0]["fields"]) == len(cargs):
                        return [Outcome("return", ("agg", "adt:" + nm, 0, tuple(cargs)), path)]
                return None
            if depth >= self.max_depth or fb.get("coroutine"):
                return None
            if self.intercept is not None:
                # a function value called through a pointer is still that function: the rule's primitives apply
                r_ = self.intercept(self, path, frame, t, fb["path"], list(cargs))
                if r_ is not None:
                    outs_ = []
                    for x_ in r_:
                        if x_[0] == "panic":
                            outs_.append(Outcome("panic", None, x_[3], site=F.site_str(frame.body, t["sp"]), cls=x_[1],
                                                 stack=frame.stack(), msg=x_[2]))
                        else:
                            outs_.append(Outcome("return", x_[0], x_[1]))
                    return outs_
            return list(self.call_body(fb, list(cargs), path, frame, depth + 1))
        if clos[0] != "agg" or not clos[1].startswith("closure:"):
            return None
        cb = self.F.bodies.get(clos[1][8:])
        if cb is None or depth >= self.max_depth:
            return None
        l1 = cb["locals"][1]
        if isinstance(l1, list) and l1[0] == "ref":
            tmp = ("L", ("citer-env", frame.fid, t["sp"], tag, len(path.events)), 0)
            path.store[tmp] = clos
            env = ("ref", (tmp, ()), True)
        else:
            env = clos
        return list(self.call_body(cb, [env] + list(cargs), path, frame, depth + 1))

    def _citer_adaptor(self, path, frame, t, meth, it, rest, depth):
        """filter / map / fold / any / all / find / position / sum over a concrete element list: the closure is run per
        element; a predicate that cannot be decided forks. Returns a generator of outcomes or None (not applicable)."""
        elems = it[1]

        def by_ref(p, e, i):
            tmp = ("L", ("citer-arg", frame.fid, t["sp"], i, len(p.events)), 0)
            p.store[tmp] = e
            return ("ref", (tmp, ()), False)

        def gen():
            # states: (path, accumulator)
            if meth == "fold":
                states = [(path, rest[0])]
                clos = rest[1]
            elif meth == "sum":
                w_ = width_of(elems[0]) if elems else 64
                acc0 = INT(0, w_)
                states = [(path, acc0)]
                clos = None
            else:
                states = [(path, ())]
                clos = rest[0]
            for i, e in enumerate(elems):
                nxt = []
                for p, acc in states:
                    if meth == "sum":
                        ev = self._deref_all(p, e, 1) if e[0] == "ref" else e
                        nxt.append((p, self.binop(p, "Add", acc, ev, width_of(acc))))
                        continue
                    if meth == "fold":
                        cargs = [acc, e]
                    elif meth in ("filter", "find"):
                        cargs = [by_ref(p, e, i)]
                    else:
                        cargs = [e]
                    res = self._call_closure_value(p, frame, t, clos, cargs, depth, i)
                    if res is None:
                        yield from self._opaque_cont(path, frame, t, "citer::" + meth, [it] + list(rest), depth, havoc=True)
                        return
                    for o in res:
                        if o.kind != "return":
                            yield o
                            continue
                        if meth == "fold":
                            nxt.append((o.path, o.value))
                        elif meth == "map":
                            nxt.append((o.path, acc + (o.value,)))
                        elif meth == "for_each":
                            nxt.append((o.path, acc))
                        else:
                            d = self.decide(o.path, o.value)
                            alts = [(d, o.path)] if d is not None else None
                            if alts is None:
                                p2 = o.path.copy()
                                self.assume_cond(o.path, o.value, 1)
                                self.assume_cond(p2, o.value, 0)
                                alts = [(1, o.path), (0, p2)]
                            for dv, pp in alts:
                                if meth == "filter":
                                    nxt.append((pp, acc + ((e,) if dv else ())))
                                elif meth in ("any", "find", "position"):
                                    if dv:
                                        fin = INT(1, 8) if meth == "any" else SOME(e if meth == "find" else INT(i, 64))
                                        yield from self.cont(frame, t, pp, fin, depth)
                                    else:
                                        nxt.append((pp, acc))
                                elif meth == "all":
                                    if not dv:
                                        yield from self.cont(frame, t, pp, INT(0, 8), depth)
                                    else:
                                        nxt.append((pp, acc))
                states = nxt
            for p, acc in states:
                if meth in ("fold", "sum"):
                    yield from self.cont(frame, t, p, acc, depth)
                elif meth in ("filter", "map"):
                    yield from self.cont(frame, t, p, ("citer", tuple(acc)), depth)
                elif meth == "for_each":
                    yield from self.cont(frame, t, p, UNIT, depth)
                elif meth == "any":
                    yield from self.cont(frame, t, p, INT(0, 8), depth)
                elif meth == "all":
                    yield from self.cont(frame, t, p, INT(1, 8), depth)
                else:
                    yield from self.cont(frame, t, p, NONE, depth)
        if meth in ("max", "min"):
            return None
        return gen()

    def struct_eq(self, path, a, b, depth=0):
        """a == b as a boolean term; Options / Results / tuples with known variants are compared payload by payload
        (references are read through), so `map.get(k) == Some(&v)` becomes the comparison of the two integers"""
        a, b = self._deref_all(path, a), self._deref_all(path, b)
        if depth < 4 and a[0] == "agg" and b[0] == "agg" and a[1] == b[1] and (a[1] in (OPTION, RESULT) or a[1] == "tuple") \
                and (a[1] == "tuple" or (a[2] is not None and b[2] is not None)) and len(a[3]) == len(b[3]) or \
                (depth < 4 and a[0] == "agg" and b[0] == "agg" and a[1] == b[1] and a[1] in (OPTION, RESULT)
                 and a[2] is not None and b[2] is not None and a[2] != b[2]):
            if a[1] != "tuple" and a[2] != b[2]:
                return INT(0, 8)
            acc = INT(1, 8)
            for x, y in zip(a[3], b[3]):
                e = self.struct_eq(path, x, y, depth + 1)
                if is_int(e):
                    if e[1] == 0:
                        return INT(0, 8)
                    continue
                acc = e if is_int(acc) else self.binop(path, "BitAnd", acc, e, 8)
            return acc
        return self.binop(path, "Eq", a, b, 8)

    def scalar_rank(self, v):
        """(domain, rank) of a ground integer or a constant of a field-less enum (rank = discriminant), else None"""
        while v[0] in ("w",):
            v = v[1]
        if is_int(v):
            return ("int", v[1])
        if v[0] == "agg" and v[1].startswith("adt:") and v[2] is not None and not v[3]:
            ev = self.F.enum_variant(v[1][4:], v[2])
            if ev is not None:
                return (v[1], ev[1])
        return None

    def minmax(self, path, meth, a, b, bits, signed):
        if is_int(a) and is_int(b):
            lo, hi = (a, b) if a[1] <= b[1] else (b, a)
            return lo if meth == "min" else hi
        le = self.decide(path, self.binop(path, "Le", a, b, 8, signed))
        if le is not None:
            lo, hi = (a, b) if le else (b, a)
            return lo if meth == "min" else hi
        return W(("ret", meth, (a, b), 0), bits)

    def _deref_all(self, path, v, n=4):
        while v[0] == "ref" and n > 0:
            v = self.read_loc(path, v[1])
            n -= 1
        return v


import re

_OP_TRAIT = re.compile(r"^<&?(?:'\w+ )?([iu](?:8|16|32|64|128|size)) as std::ops::(Add|Sub|Mul|BitAnd|BitOr|BitXor|Shl|Shr|Div|Rem)<[^>]*>>::(add|sub|mul|bitand|bitor|bitxor|shl|shr|div|rem)$")
_OPASSIGN_TRAIT = re.compile(r"^<([iu](?:8|16|32|64|128|size)) as std::ops::\w+Assign<[^>]*>>::(\w+_assign)$")
_INT_METHOD = re.compile(r"^core::num::<impl ([iu](?:8|16|32|64|128|size))>::(\w+)$")


def _prim_bits(s):
    m = re.match(r"^([iu])(8|16|32|64|128|size)$", s)
    if not m:
        if s == "bool":
            return (8, False)
        return None
    return (64 if m.group(2) == "size" else int(m.group(2)), m.group(1) == "i")


def ground(t):
    if t[0] in ("int", "str"):
        return True
    if t[0] == "agg":
        return all(ground(x) for x in t[3])
    return False


def to_signed(v, bits):
    v &= mask(bits)
    return v - (1 << bits) if (v >> (bits - 1)) & 1 else v


def fold(op, a, b, wa, signed, bits):
    if signed:
        sa, sb = to_signed(a, wa), to_signed(b, wa)
    else:
        sa, sb = a, b
    if op in ("Add", "AddUnchecked"):
        return (a + b) & mask(bits)
    if op in ("Sub", "SubUnchecked"):
        return (a - b) & mask(bits)
    if op in ("Mul", "MulUnchecked"):
        return (sa * sb) & mask(bits)
    if op == "AddOvf":
        r = sa + sb
        return int(not (-(1 << (wa - 1)) <= r < (1 << (wa - 1)))) if signed else int(r > mask(wa))
    if op == "SubOvf":
        r = sa - sb
        return int(not (-(1 << (wa - 1)) <= r < (1 << (wa - 1)))) if signed else int(r < 0)
    if op == "MulOvf":
        r = sa * sb
        return int(not (-(1 << (wa - 1)) <= r < (1 << (wa - 1)))) if signed else int(r > mask(wa))
    if op == "BitAnd":
        return a & b
    if op == "BitOr":
        return a | b
    if op == "BitXor":
        return a ^ b
    if op in ("Shl", "ShlUnchecked"):
        if b >= wa:
            return None
        return (a << b) & mask(bits)
    if op in ("Shr", "ShrUnchecked"):
        if b >= wa:
            return None
        return (sa >> b) & mask(bits)
    if op == "Div":
        if sb == 0:
            return None
        q = abs(sa) // abs(sb)
        if (sa < 0) != (sb < 0):
            q = -q
        return q & mask(bits)
    if op == "Rem":
        if sb == 0:
            return None
        r = abs(sa) % abs(sb)
        if sa < 0:
            r = -r
        return r & mask(bits)
    if op == "Eq":
        return int(a == b)
    if op == "Ne":
        return int(a != b)
    if op == "Lt":
        return int(sa < sb)
    if op == "Le":
        return int(sa <= sb)
    if op == "Gt":
        return int(sa > sb)
    if op == "Ge":
        return int(sa >= sb)
    return None
