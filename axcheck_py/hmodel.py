"""Handler model: run the handler bound to a Code under each decoder-producible
operand shape (E1) with the accessors as primitives (prims.HandlerPrims)."""
from . import absint as A
from . import prims as P

OPKIND_SPEC = {
    "Register": ("R",),
    "Memory": ("M",),
    "Immediate8": ("I", 1),
    "Immediate8_2nd": ("I", 1),
    "Immediate16": ("I", 2),
    "Immediate32": ("I", 4),
    "Immediate64": ("I", 8),
    "Immediate8to16": ("I", 2),
    "Immediate8to32": ("I", 4),
    "Immediate8to64": ("I", 8),
    "Immediate32to64": ("I", 8),
}

RFLAGS = ("field", ("field", ("init", "self", 0), "state"), "rflags")

FLAG_BITS = {"CF": 0, "PF": 2, "AF": 4, "ZF": 6, "SF": 7, "DF": 10, "OF": 11}
CLASS_FLAGS = ("CF", "PF", "AF", "ZF", "SF", "OF")


def flag_classes():
    for n in range(64):
        yield {fl: (n >> i) & 1 for i, fl in enumerate(CLASS_FLAGS)}


def flag_assume(cls):
    bv = [None] * 64
    for fl, v in cls.items():
        bv[FLAG_BITS[fl]] = v
    return {RFLAGS: bv}


class HandlerModel:
    def __init__(self, facts, oracle, disp, roles):
        self.F = facts
        self.O = oracle
        self.D = disp
        self.R = roles

    def producible(self, code):
        oc = self.O["codes"].get(code)
        if oc is None or not oc["mode64"]:
            return False
        if any(k.startswith(("br16", "br32", "farbr")) for k in oc["kinds"]):
            return False
        return True

    def shapes(self, code):
        """[(label, opkinds, operands-spec)] for the decoder-producible shapes of a Code."""
        oc = self.O["codes"][code]
        out = []
        for label in ("reg", "mem"):
            inst = oc["inst"].get(label)
            if inst is None:
                continue
            kinds = inst["op_kinds_inst"]
            spec = {}
            for i, k in enumerate(kinds):
                spec[i] = OPKIND_SPEC.get(k, ("E",))
                # `SHL r/m, 1` style forms: the decoder reports the implied constant 1
                if i < len(oc["kinds"]) and oc["kinds"][i] == "imm8_const_1":
                    spec[i] = ("IC", 1, 1)
            out.append((label, kinds, spec))
        return out

    def run(self, code, shape, flags=None, handler=None, cmp_oracle=None, assume=None, **opts):
        d = self.D.codes[code]
        # the run starts at the mnemonic's dispatcher (with `i.code()` = this Code), not at the handler: whatever the
        # dispatcher does before or after calling the handler is part of the instruction's behaviour
        h = self.F.bodies[handler or d.get("dispatcher") or d["handler"]]
        label, kinds, spec = shape
        pr = P.HandlerPrims(self.F, self.R, spec, code=code, mnemonic=d["mnemonic"], opkinds=kinds, **opts)
        I = A.Interp(self.F, intercept=pr.intercept)
        I.cmp_oracle = cmp_oracle
        path = A.Path()
        if flags is not None:
            path.assume = flag_assume(flags)
        if assume:
            path.assume = dict(path.assume or {})
            path.assume.update(assume)
        outs = list(I.run(h, [P.self_ref(), P.INSTR], path))
        return outs, I

    def reads_flags(self, outs):
        for o in outs:
            for c in o.path.conds:
                if mentions(c[0], RFLAGS):
                    return True
        return False


def mentions(t, leaf, depth=0):
    if t == leaf:
        return True
    if depth > 30 or not isinstance(t, tuple):
        return False
    for x in t:
        if isinstance(x, tuple) and mentions(x, leaf, depth + 1):
            return True
    return False


def leaves_all(t, tag, acc=None, depth=0):
    """all sub-tuples of t whose head is `tag`"""
    if acc is None:
        acc = []
    if depth > 30 or not isinstance(t, tuple):
        return acc
    if t and t[0] == tag:
        acc.append(t)
        return acc
    for x in t:
        if isinstance(x, tuple):
            leaves_all(x, tag, acc, depth + 1)
    return acc


def mentions_op(t, op, depth=0):
    """does term t contain a binary operation `op`"""
    if depth > 30 or not isinstance(t, tuple):
        return False
    if t and t[0] == "bin" and t[1] == op:
        return True
    for x in t:
        if isinstance(x, tuple) and mentions_op(x, op, depth + 1):
            return True
    return False


def leaves(t, acc=None, depth=0):
    """opaque leaves of a term"""
    if acc is None:
        acc = set()
    if not isinstance(t, tuple) or depth > 40:
        return acc
    k = t[0]
    if k in ("int", "str", "k"):
        return acc
    if k in ("bin",):
        leaves(t[2], acc, depth + 1)
        leaves(t[3], acc, depth + 1)
    elif k in ("un",):
        leaves(t[2], acc, depth + 1)
    elif k in ("cast", "w"):
        leaves(t[1], acc, depth + 1)
    elif k == "agg":
        for x in t[3]:
            leaves(x, acc, depth + 1)
    else:
        acc.add(t)
    return acc
