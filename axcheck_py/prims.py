"""Primitive summaries for handler-level analyses.

The register / memory accessors, the operand builder, the flag setters and the
trace recorders are *roles* (dispatch.Roles). At handler level they are not
inlined; each call becomes an event on the path and returns an opaque leaf.
The accessors' own bodies are analysed by their own rules (C05, C07, C08, C09).
"""
from .absint import (INT, OK, ERR, UNIT, W, TOP, is_int, RESULT)

OPERAND = "adt:helpers::operand::Operand"
SREG = "adt:state::registers::SupportedRegister"
IREG = "adt:iced_x86::Register"

OP_MEMORY, OP_REGISTER, OP_IMMEDIATE = 0, 1, 2


class HandlerPrims:
    """intercept() for Interp. operands: {K: ('R',)|('M',)|('I', size_bytes)|None}"""

    def __init__(self, facts, roles, operands=None, mem_fail_paths=False, inline_mem_addr=False,
                 inline_flag_setter=False, code=None, mnemonic=None, opkinds=None):
        self.F = facts
        self.R = roles
        self.operands = operands or {}
        self.code = code
        self.mnemonic = mnemonic
        self.opkinds = opkinds
        self.mem_fail_paths = mem_fail_paths
        self.inline_mem_addr = inline_mem_addr
        self.inline_flag_setter = inline_flag_setter
        self.by_path = {}
        for n, p in roles.reg_read.items():
            self.by_path[p] = ("reg_read", n)
        for n, p in roles.reg_write.items():
            self.by_path[p] = ("reg_write", n)
        for n, p in roles.mem_read.items():
            self.by_path[p] = ("mem_read", n)
        for n, p in roles.mem_write.items():
            self.by_path[p] = ("mem_write", n)
        self.by_path[roles.reg_read_pub128] = ("reg_read", 128)
        self.by_path[roles.reg_write_pub128] = ("reg_write", 128)
        self.by_path[roles.mem_read_pub128] = ("mem_read", 128)
        self.by_path[roles.mem_write_pub128] = ("mem_write", 128)
        self.by_path[roles.mem_read_bytes] = ("mem_read_bytes", 0)
        self.by_path[roles.mem_write_bytes] = ("mem_write_bytes", 0)
        self.by_path[roles.mem_addr] = ("mem_addr", 0)
        for p_ in getattr(roles, "mem_addr_noseg", []):
            self.by_path[p_] = ("mem_addr_noseg", 0)
        self.by_path[roles.instruction_operand] = ("operand", 0)
        self.by_path[roles.instruction_operands_2] = ("operands2", 0)
        for p, n in roles.flag_setters.items():
            self.by_path[p] = ("set_flags", n)
        for p, v in roles.tracers.items():
            self.by_path[p] = ("trace", v)

    def operand_value(self, path, k):
        spec = self.operands.get(k)
        if spec is None:
            return None
        if spec[0] == "R":
            return ("agg", OPERAND, OP_REGISTER, (("opreg", k),))
        if spec[0] == "M":
            return ("agg", OPERAND, OP_MEMORY, (("opmem", k),))
        if spec[0] == "I":
            data = W(("opimm", k), 64)
            return ("agg", OPERAND, OP_IMMEDIATE, (data, INT(spec[1], 8)))
        if spec[0] == "IC":
            return ("agg", OPERAND, OP_IMMEDIATE, (INT(spec[2], 64), INT(spec[1], 8)))
        if spec[0] == "E":
            return "ERR"
        return None

    def iced(self, I, path, frame, t, name, args):
        meth = name[len("iced_x86::Instruction::"):]
        Fx = self.F
        if meth == "code" and self.code is not None:
            ev = Fx.enum_variant_by_name("iced_x86::Code", self.code)
            return [(("agg", "adt:iced_x86::Code", ev[0], ()), path)]
        if meth == "mnemonic" and self.mnemonic is not None:
            ev = Fx.enum_variant_by_name("iced_x86::Mnemonic", self.mnemonic)
            return [(("agg", "adt:iced_x86::Mnemonic", ev[0], ()), path)]
        if self.opkinds is not None:
            if meth == "op_count":
                return [(INT(len(self.opkinds), 32), path)]
            k = None
            if meth in ("op0_kind", "op1_kind", "op2_kind", "op3_kind", "op4_kind"):
                k = int(meth[2])
            elif meth == "op_kind" and len(args) > 1 and is_int(args[1]):
                k = args[1][1]
            if k is not None:
                if k < len(self.opkinds):
                    ev = Fx.enum_variant_by_name("iced_x86::OpKind", self.opkinds[k])
                    return [(("agg", "adt:iced_x86::OpKind", ev[0], ()), path)]
                return [(TOP("opkind-oob"), path)]
        k = None
        if meth in ("op0_register", "op1_register", "op2_register", "op3_register"):
            k = int(meth[2])
        elif meth == "op_register" and len(args) > 1 and is_int(args[1]):
            k = args[1][1]
        if k is not None:
            path.events.append(("iced_op_register", k))
            return [(("iopreg", k), path)]
        return None

    def intercept(self, I, path, frame, t, name, args):
        if name.startswith("iced_x86::Instruction::"):
            return self.iced(I, path, frame, t, name, args)
        if (name.endswith("::into") or name.endswith("::from")) and args and args[0][0] == "iopreg":
            g = t["f"].get("gargs", [])
            if "state::registers::SupportedRegister" in g:
                return [(("opreg", args[0][1]), path)]
        r = self.by_path.get(name)
        if r is None:
            return None
        kind, n = r
        ev = path.events
        rv = path.tags.get("regver", 0)
        mv = path.tags.get("memver", 0)
        site = (frame.body["path"], t["sp"])
        if kind == "reg_read":
            reg = args[1]
            ev.append(("reg_read", n, reg, site))
            val = W(("reg", n, reg, rv), 128 if n == 128 else 64)
            if n < 64:
                path.maxbits[val] = n
                path.maxbits[val[1]] = n
            return [(OK(val), path)]
        if kind == "reg_write":
            reg, v = args[1], args[2]
            ev.append(("reg_write", n, reg, v, site))
            path.tags["regver"] = rv + 1
            return [(OK(UNIT), path)]
        if kind == "mem_read":
            addr = args[1]
            ev.append(("mem_read", n, addr, site))
            val = W(("mem", n, addr, mv), 128 if n == 128 else 64)
            if n < 64:
                path.maxbits[val] = n
                path.maxbits[val[1]] = n
            outs = [(OK(val), path)]
            if self.mem_fail_paths:
                p2 = path.copy()
                p2.events.append(("mem_fault", "read", n, addr, site))
                outs.append((ERR(("memerr", addr)), p2))
            return outs
        if kind == "mem_write":
            addr, v = args[1], args[2]
            outs = []
            if self.mem_fail_paths:
                p2 = path.copy()
                p2.events.append(("mem_fault", "write", n, addr, site))
                outs.append((ERR(("memerr", addr)), p2))
            ev.append(("mem_write", n, addr, v, site))
            path.tags["memver"] = mv + 1
            outs.insert(0, (OK(UNIT), path))
            return outs
        if kind == "mem_read_bytes":
            outs = []
            if self.mem_fail_paths:
                p2 = path.copy()
                p2.events.append(("mem_fault", "read", "bytes", args[1], site))
                outs.append((ERR(("memerr", args[1])), p2))
            if getattr(self, "normalize_le", True) and is_int(args[2]) and args[2][1] in (1, 2, 4, 8, 16):
                # a whole little-endian integer fetched as bytes: the same load as mem_read_N, handed out byte by byte
                nb = args[2][1] * 8
                ev.append(("mem_read", nb, args[1], site))
                val = W(("mem", nb, args[1], mv), 128 if nb == 128 else 64)
                if nb < 64:
                    path.maxbits[val] = nb
                    path.maxbits[val[1]] = nb
                wv = 128 if nb == 128 else 64
                bs = tuple(I.cast(I.binop(path, "Shr", val, ("int", 8 * i, 32), wv) if i else val, wv, False, 8)
                           for i in range(nb // 8))
                return [(OK(("agg", "array", None, bs)), path)] + outs
            ev.append(("mem_read", "bytes", args[1], args[2], site))
            return [(OK(W(("membytes", args[1], args[2], mv), 64)), path)] + outs
        if kind == "mem_write_bytes":
            outs = []
            if self.mem_fail_paths:
                p2 = path.copy()
                p2.events.append(("mem_fault", "write", "bytes", args[1], site))
                outs.append((ERR(("memerr", args[1])), p2))
            data = I._deref_all(path, args[2])
            whole = le_value(data) if getattr(self, "normalize_le", True) else None
            if whole is not None:
                # the little-endian bytes of one integer, all of them in order: the same store as mem_write_N(value)
                ev.append(("mem_write", whole[1], args[1], whole[0], site))
            else:
                ev.append(("mem_write", "bytes", args[1], data, site))
            path.tags["memver"] = mv + 1
            return [(OK(UNIT), path)] + outs
        if kind == "mem_addr":
            if self.inline_mem_addr:
                return None
            m = args[1]
            ev.append(("mem_addr", m, site))
            return [(W(("addr", m, rv), 64), path)]
        if kind == "mem_addr_noseg":
            # the segment-less effective address (LEA): a primitive like mem_addr, whichever of the two functions holds
            # the actual computation
            if self.inline_mem_addr:
                return None
            m = args[1]
            ev.append(("mem_addr", m, site))
            return [(W(("addr", ("noseg", m), rv), 64), path)]
        if kind == "operand":
            kidx = args[2]
            if not is_int(kidx):
                return [(OK(("agg", OPERAND, None, ())), path)]
            v = self.operand_value(path, kidx[1])
            ev.append(("operand", kidx[1], site))
            if v is None:
                return [("panic", "NOOP", "operand %d not provided by the decoder for this form" % kidx[1], path)]
            if v == "ERR":
                return [(ERR(("operr", kidx[1])), path)]
            return [(OK(v), path)]
        if kind == "operands2":
            a = self.operand_value(path, 0)
            b = self.operand_value(path, 1)
            ev.append(("operand", 0, site))
            ev.append(("operand", 1, site))
            if a is None or b is None:
                return [("panic", "NOOP", "instruction has fewer than 2 operands for this form", path)]
            if a == "ERR" or b == "ERR":
                return [(ERR(("operr", 0 if a == "ERR" else 1)), path)]
            return [(OK(("agg", "tuple", None, (a, b))), path)]
        if kind == "set_flags":
            if self.inline_flag_setter:
                return None
            ev.append(("set_flags", n, args[1], args[2], args[3], site))
            path.tags["flagver"] = path.tags.get("flagver", 0) + 1
            return [(UNIT, path)]
        if kind == "trace":
            ev.append(("trace", n, args[2], site))
            return [(OK(UNIT), path)]
        return None


def self_ref(mut=True):
    return ("ref", (("H", "self"), ()), mut)


INSTR = ("init", "instr", 0)


def le_value(data):
    """(x, 8n) when `data` is the array [x as u8, (x >> 8) as u8, ..., (x >> 8(n-1)) as u8] for n in 1, 2, 4, 8, 16"""
    while data[0] == "deref" and isinstance(data[1], tuple):
        data = data[1]
    if data[0] != "agg" or data[1] != "array" or len(data[3]) not in (1, 2, 4, 8, 16):
        return None
    src = None
    for i, b in enumerate(data[3]):
        if b[0] != "cast" or b[-1] != 8:
            return None
        inner = b[1]
        if i == 0:
            x = inner
        else:
            if not (inner[0] == "bin" and inner[1] in ("Shr", "ShrUnchecked") and inner[3][0] == "int" and inner[3][1] == 8 * i):
                return None
            x = inner[2]
        if src is None:
            src = x
        elif x != src:
            return None
    n = 8 * len(data[3])
    from .absint import width_of, W as W_
    if width_of(src) == n:
        return src, n
    return ("cast", src, width_of(src), False, n), n
