"""A9 (path form): triage of arithmetic asserts met on interpreter paths.

Reporting criterion (DESIGN §3 A9): an overflow/shift/division assert is reported only when it is
*evidently failing*: an operand leaf is tainted (API parameter, guest value, input byte, area field)
and no comparison earlier on the path mentions that leaf, and no local discharge applies.
"""
from . import absint as A
from . import hmodel as H


def strip_all(t):
    while t[0] in ("w", "cast"):
        t = t[1]
    return t


def leaves_of(t):
    return H.leaves(t)


def mentioned(path_conds, upto, leaf):
    """an *order* comparison (or an equality assumed true) on the leaf earlier on the path"""
    for c in path_conds[:upto]:
        t = c[0]
        if not H.mentions(t, leaf):
            continue
        if t[0] == "bin" and t[1] in ("Lt", "Le", "Gt", "Ge"):
            return True
        if t[0] == "bin" and t[1] == "Eq" and ((c[2] == 1) if c[1] == "==" else True):
            return True
        if t[0] == "bin" and t[1] == "Ne" and c[1] == "==" and c[2] == 0:
            return True
        if t[0] == "bin" and t[1] in ("AddOvf", "SubOvf", "MulOvf"):
            return True  # an earlier overflow check on the same quantity passed
    return False


def relational_discharge(path, ev):
    """d1-style local arguments on the path's own facts."""
    kind, op, ops = ev[1], ev[2], ev[3]
    a, b = ops.get("a"), ops.get("b")
    if kind == "Overflow" and op == "Sub" and a is not None and b is not None:
        sa, sb = strip_all(a), strip_all(b)
        for t, rel, val in path.conds:
            if t[0] != "bin" or t[1] not in A.CMP_OPS:
                continue
            x, y = strip_all(t[2]), strip_all(t[3])
            truth = (val == 1) if rel == "==" else True
            o = t[1]
            # b <= a  (any form)
            if truth and ((o in ("Le", "Lt", "Eq") and x == sb and y == sa) or (o in ("Ge", "Gt", "Eq") and x == sa and y == sb)):
                return "guarded by %s" % o
            if (not truth) and ((o in ("Gt",) and x == sb and y == sa) or (o in ("Lt",) and x == sa and y == sb)):
                return "guarded by !%s" % o
        # x - const where x != smaller constants... not attempted
    if kind == "Overflow" and op == "Sub" and a is not None and b is not None and A.is_int(strip_all(b)):
        # len(X) - k inside a loop over X that has already yielded k elements on this path
        sa = strip_all(a)
        if sa[0] == "len":
            vec = sa[1]
            n_yield = 0
            for e in path.events:
                if e is ev:
                    break
                if e[0] == "iter_next" and e[1] == "some" and len(e) > 2 and same_vector(e[2], vec):
                    n_yield += 1
            if n_yield >= strip_all(b)[1] >= 1:
                return "inside a loop over the same vector (%d elements seen)" % n_yield
    if kind == "BoundsCheck":
        ln, ix = ops.get("len"), ops.get("index")
        if ln is not None and ix is not None and A.is_int(ix):
            f = path.facts.get(ln) or path.facts.get(strip_all(ln))
            if f is not None and f[0] == "eq" and f[1] > ix[1]:
                return "length known to be %d" % f[1]
    if kind == "Overflow" and op == "Add" and a is not None and b is not None:
        sa, sb = strip_all(a), strip_all(b)
        # (p - q) + l cannot overflow when p + l was already asserted not to
        if sa[0] == "bin" and sa[1] == "Sub":
            p = strip_all(sa[2])
            for e in path.events:
                if e is ev:
                    break
                if e[0] == "assert" and e[1] == "Overflow" and e[2] == "Add":
                    ea, eb = strip_all(e[3].get("a", ("?",))), strip_all(e[3].get("b", ("?",)))
                    if ea == p and eb == sb:
                        return "smaller than an already checked sum"
    return None


def same_vector(it_base, vec):
    """is the iterated base (`('refto', loc)` or a value) the vector whose length is taken?"""
    def fields(t, acc):
        if isinstance(t, tuple):
            if t and t[0] == "f" and len(t) >= 3:
                acc.append(t[2])
            if t and t[0] == "field" and len(t) >= 3:
                fields(t[1], acc)
                acc.append(t[2])
                return
            for x in t:
                if isinstance(x, tuple):
                    fields(x, acc)
    fa, fb = [], []
    fields(it_base, fa)
    fields(vec, fb)
    return bool(fa) and fa == fb


def triage(path, tainted_pred, const_small=True):
    """yield (event, verdict, reason) for every assert event on the path;
    verdict in {'discharged', 'reported', 'not-reported'}"""
    for ev in path.events:
        if ev[0] != "assert":
            continue
        kind, op, ops, site, bodyp, cond, ncond = ev[1], ev[2], ev[3], ev[4], ev[5], ev[6], ev[7]
        macros = ev[8] if len(ev) > 8 else ""
        r = relational_discharge(path, ev)
        if r:
            yield ev, "discharged", r
            continue
        lv = set()
        for o in ops.values():
            lv |= leaves_of(o)
        tainted = [x for x in lv if tainted_pred(x)]
        if not tainted:
            yield ev, "discharged", "operands untainted"
            continue
        unguarded = [x for x in tainted if not mentioned(path.conds, ncond, x)]
        if unguarded:
            yield ev, "reported", "no comparison on %s before the check" % A.show(unguarded[0])
        else:
            yield ev, "not-reported", "operand compared earlier on the path"


def describe(ev):
    kind, op, ops = ev[1], ev[2], ev[3]
    if kind == "Overflow":
        return "%s overflow on %s %s %s" % (op, A.show(strip_all(ops.get("a", ("?",)))), op, A.show(strip_all(ops.get("b", ("?",)))))
    return "%s on %s" % (kind, ", ".join(A.show(strip_all(v)) for v in ops.values()))
