"""Abstract model of the ELF loader: from_binary interpreted with the `elf` crate's entry points and
the memory API as primitives. Every header field is an opaque (tainted) leaf."""
from . import absint as A
from . import facts as F
from . import prims as P

AXE = "axecutor::Axecutor"
SEG = ("seg",)
SYM = ("sym",)
ELF = ("elf",)


def loader_body(facts):
    return facts.method(AXE, "from_binary")


class ElfPrims:
    def __init__(self, ctx, inline_round_up=True):
        facts = ctx.facts
        self.F = facts
        self.hp = P.HandlerPrims(facts, ctx.roles)
        m = lambda n: facts.method(AXE, n)["path"]
        self.mem = {m("mem_init_area_named"): "init_area", m("mem_init_zero_named"): "init_zero", m("mem_prot"): "prot",
                    m("mem_get_area"): "get_area", m("write_fs"): "write_fs", m("read_fs"): "read_fs"}
        self.mem_write_bytes = ctx.roles.mem_write_bytes
        self.empty = ctx.roles.hook_roles()[4]
        self.elf_entry_points = set()

    def intercept(self, I, path, frame, t, name, args):
        ev = path.events
        short = name.rsplit("::", 1)[1] if "::" in name else name
        if name.startswith("elf::"):
            self.elf_entry_points.add(name)
        if name == self.empty:
            return [(("ref_axe",), path)]
        if short in ("push", "insert", "contains_key", "get", "entry") and args and args[0][0] == "ref":
            names = [p_[2] for p_ in args[0][1][1] if isinstance(p_, tuple) and p_[0] == "f"]
            ev.append(("coll", short, tuple(names), tuple(I.norm_arg(path, a) for a in args[1:])))
            if short in ("push", "insert"):
                return None
        if name.startswith("elf::elf::elf::ElfBytes") and short == "minimal_parse":
            p2 = path.copy()
            return [(A.OK(ELF), path), (A.ERR(("parse_err",)), p2)]
        if name.startswith("elf::elf::elf::ElfBytes") and short == "segments":
            p2 = path.copy()
            return [(A.SOME(("segtable",)), path), (A.NONE, p2)]
        if name.startswith("elf::elf::elf::ElfBytes") and short == "segment_data":
            p2 = path.copy()
            ev.append(("segment_data", I._deref_all(path, args[1])))
            return [(A.OK(("segdata", I._deref_all(path, args[1]))), path), (A.ERR(("parse_err",)), p2)]
        if name.startswith("elf::elf::elf::ElfBytes") and short == "symbol_table":
            p2, p3 = path.copy(), path.copy()
            return [(A.OK(A.SOME(("agg", "tuple", None, (("symtab",), ("strtab",))))), path), (A.OK(A.NONE), p2),
                    (A.ERR(("parse_err",)), p3)]
        # lazy adaptor chains over the parsed tables: filter / filter_map / map build a pipeline, `extend` / `for_each`
        # push one generic element through it (the widened form of the equivalent `for` loop)
        isdef = "Iterator" in (t["f"].get("def") or name)
        if short in ("filter", "filter_map", "map") and isdef and len(args) == 2:
            src = I._deref_all(path, args[0])
            if src[0] in ("iter", "lazy"):
                stages = src[2] if src[0] == "lazy" else ()
                base = src[1] if src[0] == "lazy" else src
                return [(("lazy", base, stages + ((short, args[1]),)), path)]
        if short in ("collect", "into_iter", "to_vec") and len(args) == 1:
            src = I._deref_all(path, args[0])
            if src[0] == "lazy":
                # collecting the pipeline into a vector keeps the pipeline: whoever consumes the vector sees its one
                # generic element
                return [(src, path)]
        if short in ("extend", "for_each") and len(args) == 2:
            it = I._deref_all(path, args[1] if short == "extend" else args[0])
            if it[0] in ("lazy", "iter"):
                base = it[1] if it[0] == "lazy" else it
                stages = it[2] if it[0] == "lazy" else ()
                inner = base
                while inner[0] == "iter":
                    inner = inner[1]
                elem = SYM if inner == ("symtab",) or "sym" in repr(inner) else SEG
                outs = []
                p_empty = path.copy()
                p_empty.events.append(("next", "sym" if elem == SYM else "seg", "none", len(p_empty.conds)))
                outs.append((A.UNIT, p_empty))
                path.events.append(("next", "sym" if elem == SYM else "seg", "some", len(path.conds)))
                states = [(path, elem)]
                for kind, clos in stages:
                    nxt = []
                    for p, v in states:
                        if kind == "filter":
                            tmp = ("L", ("lazy-arg", frame.fid, t["sp"], len(p.events)), 0)
                            p.store[tmp] = v
                            carg = ("ref", (tmp, ()), False)
                        else:
                            carg = v
                        res = I._call_closure_value(p, frame, t, clos, [carg], frame.depth, kind)
                        if res is None:
                            return None
                        for o in res:
                            if o.kind != "return":
                                outs.append(("panic", o.cls, o.msg or "adaptor closure", o.path))
                                continue
                            if kind == "map":
                                nxt.append((o.path, o.value))
                            elif kind == "filter":
                                d = I.decide(o.path, o.value)
                                alts = [(d, o.path)] if d is not None else None
                                if alts is None:
                                    p2 = o.path.copy()
                                    I.assume_cond(o.path, o.value, 1)
                                    I.assume_cond(p2, o.value, 0)
                                    alts = [(1, o.path), (0, p2)]
                                for dv, pp in alts:
                                    if dv:
                                        nxt.append((pp, v))
                                    else:
                                        outs.append((A.UNIT, pp))
                            else:
                                for vi, payload, p3 in I.split_result(o.path, o.value, A.OPTION):
                                    if vi == 1:
                                        nxt.append((p3, payload))
                                    else:
                                        outs.append((A.UNIT, p3))
                    states = nxt
                for p, v in states:
                    if short == "extend" and args[0][0] == "ref":
                        names = [p_[2] for p_ in args[0][1][1] if isinstance(p_, tuple) and p_[0] == "f"]
                        kv = v[3] if v[0] == "agg" and len(v[3]) == 2 else (v, ("?",))
                        p.events.append(("coll", "insert", tuple(names), tuple(I.norm_arg(p, a) for a in kv)))
                        outs.append((A.UNIT, p))
                    elif short == "for_each":
                        res = I._call_closure_value(p, frame, t, args[1], [v], frame.depth, "for_each")
                        if res is None:
                            return None
                        for o in res:
                            outs.append((A.UNIT, o.path) if o.kind == "return" else ("panic", o.cls, o.msg or "for_each closure", o.path))
                    else:
                        outs.append((A.UNIT, p))
                return outs
        if (short == "into_iter" or (short == "iter" and name.startswith("elf::"))) and args and \
                I._deref_all(path, args[0])[0] not in ("citer",) and not (I._deref_all(path, args[0])[0] == "agg" and I._deref_all(path, args[0])[1] == "array"):
            v = args[0]
            return [(("iter", I._deref_all(path, v)), path)]
        if short == "next" and args and I._deref_all(path, args[0])[0] in ("lazy",) or \
                (short == "next" and args and I._deref_all(path, args[0])[0] == "iter" and I._deref_all(path, args[0])[1][0] == "lazy"):
            # `for x in table.iter().filter(..).map(..)`: one generic element that passes the pipeline, or the end. An element
            # the pipeline drops is followed by another generic element or by the end, which these two outcomes cover.
            it = I._deref_all(path, args[0])
            if it[0] == "iter":
                it = it[1]
            base, stages = it[1], it[2]
            inner = base
            while inner[0] == "iter":
                inner = inner[1]
            elem = SYM if inner == ("symtab",) or "sym" in repr(inner) else SEG
            what = "sym" if elem == SYM else "seg"
            outs = []
            p_end = path.copy()
            p_end.events.append(("next", what, "none", len(p_end.conds)))
            outs.append((A.NONE, p_end))
            path.events.append(("next", what, "some", len(path.conds)))
            states = [(path, elem)]
            for kind, clos in stages:
                nxt = []
                for p, v in states:
                    if kind == "filter":
                        tmp = ("L", ("lazy-arg", frame.fid, t["sp"], len(p.events)), 0)
                        p.store[tmp] = v
                        carg = ("ref", (tmp, ()), False)
                    else:
                        carg = v
                    res = I._call_closure_value(p, frame, t, clos, [carg], frame.depth, kind)
                    if res is None:
                        return None
                    for o in res:
                        if o.kind != "return":
                            outs.append(("panic", o.cls, o.msg or "adaptor closure", o.path))
                            continue
                        if kind == "map":
                            nxt.append((o.path, o.value))
                        elif kind == "filter":
                            d = I.decide(o.path, o.value)
                            if d is None:
                                I.assume_cond(o.path, o.value, 1)
                                d = 1
                            if d:
                                nxt.append((o.path, v))
                        else:
                            for vi, payload, p3 in I.split_result(o.path, o.value, A.OPTION):
                                if vi == 1:
                                    nxt.append((p3, payload))
                states = nxt
            for p, v in states:
                outs.append((A.SOME(v), p))
            return outs
        if short == "next" and "ParsingIterator" in name:
            g = " ".join(t["f"].get("gargs", []))
            p2 = path.copy()
            what = "seg" if "ProgramHeader" in g else "sym"
            path.events.append(("next", what, "some", len(path.conds)))
            p2.events.append(("next", what, "none", len(path.conds)))
            return [(A.SOME(SEG if what == "seg" else SYM), path), (A.NONE, p2)]
        if name.endswith("Symbol::is_undefined"):
            p2 = path.copy()
            path.events.append(("undefined", 1))
            p2.events.append(("undefined", 0))
            return [(A.INT(1, 8), path), (A.INT(0, 8), p2)]
        if name.endswith("StringTable::<'data>::get") or (name.startswith("elf::") and short == "get" and "StringTable" in name):
            p2 = path.copy()
            return [(A.OK(("strname", args[1])), path), (A.ERR(("parse_err",)), p2)]
        if name.endswith("p_type_to_str"):
            p2 = path.copy()
            return [(A.SOME(("str", "ptype")), path), (A.NONE, p2)]
        # ---- slices and byte vectors: bounds obligations (evaluated by C16.arith) + a sequence value
        d = t["f"].get("def") or name
        if short in ("index", "index_mut") and ("ops::Index" in name) and len(args) == 2:
            base = I._deref_all(path, args[0])
            rg = I._deref_all(path, args[1])
            ev.append(("slice", base, rg, F.site_str(frame.body, t["sp"]), len(path.conds)))
            return [(("slice", base, rg), path)]
        if name == "std::vec::from_elem" and len(args) == 2:
            ev.append(("vec_alloc", args[1], F.site_str(frame.body, t["sp"])))
            return [(("filled", args[0], args[1]), path)]
        if short == "copy_from_slice" and len(args) == 2:
            dst, src = I._deref_all(path, args[0]), I._deref_all(path, args[1])
            ev.append(("copy", dst, src, F.site_str(frame.body, t["sp"]), len(path.conds)))
            return [(A.UNIT, path)]
        if short == "len" and ("slice" in name or "Vec" in name) and len(args) == 1:
            return [(seq_len(I._deref_all(path, args[0])), path)]
        k = self.mem.get(name)
        if k == "init_area":
            ev.append(("init_area", args[1], args[2], args[3]))
            p2 = path.copy()
            return [(A.OK(A.UNIT), path), (A.ERR(("mem_err",)), p2)]
        if k == "init_zero":
            ev.append(("init_zero", args[1], args[2], args[3]))
            p2 = path.copy()
            return [(A.OK(A.UNIT), path), (A.ERR(("mem_err",)), p2)]
        if k == "prot":
            ev.append(("prot", args[1], args[2]))
            p2 = path.copy()
            return [(A.OK(A.UNIT), path), (A.ERR(("mem_err",)), p2)]
        if k == "get_area":
            p2 = path.copy()
            return [(A.SOME(("area_clone", args[1])), path), (A.NONE, p2)]
        if k == "write_fs":
            ev.append(("write_fs", args[1]))
            return [(A.UNIT, path)]
        if k == "read_fs":
            return [(A.W(("fs",), 64), path)]
        if name == self.mem_write_bytes:
            ev.append(("write_bytes", args[1], I._deref_all(path, args[2])))
            p2 = path.copy()
            return [(A.OK(A.UNIT), path), (A.ERR(("mem_err",)), p2)]
        if name.endswith("MemoryArea::len"):
            return [(A.W(("area_len", I._deref_all(path, args[0])), 64), path)]
        if short == "to_vec":
            return [(("to_vec", I._deref_all(path, args[0])), path)]
        if short == "to_string":
            return [(("to_string", I._deref_all(path, args[0])), path)]
        return self.hp.intercept(I, path, frame, t, name, args)


def seq_len(v):
    """length term of a byte-sequence value. Library fact (elf crate, ElfBytes::segment_data): the slice returned for a
    program header is file[p_offset .. p_offset + p_filesz], i.e. exactly p_filesz bytes long."""
    while v[0] in ("w", "deref"):
        v = v[1]
    if v[0] == "segdata":
        return A.W(("field", v[1], "p_filesz"), 64)
    if v[0] == "filled":
        return v[2]
    if v[0] == "to_vec":
        return seq_len(v[1])
    if v[0] == "slice":
        base, rg = v[1], v[2]
        if rg[0] == "agg":
            kind = rg[1].rsplit("::", 1)[1]
            if kind == "RangeTo":
                return rg[3][0]
            if kind == "RangeFrom":
                return ("bin", "Sub", seq_len(base), rg[3][0], 64)
            if kind == "Range":
                return ("bin", "Sub", rg[3][1], rg[3][0], 64)
            if kind == "RangeFull":
                return seq_len(base)
    return A.LEN(v)


def norm_len(t):
    """normalise `len(x)` spellings inside a term"""
    if not isinstance(t, tuple):
        return t
    if t and t[0] == "len" and len(t) == 2 and isinstance(t[1], tuple):
        r = seq_len(t[1])
        if r != t:
            return norm_len(r)
        return t
    if t and t[0] == "w":
        return norm_len(t[1])
    if t and t[0] == "cast" and t[4] >= t[2] and not t[3]:
        return norm_len(t[1])
    if t and t[0] == "cast" and t[4] == t[2]:
        return norm_len(t[1])
    return tuple(norm_len(x) if isinstance(x, tuple) else x for x in t)


def implies_le(path, x, y, upto=None, strict=False):
    """does the path establish x <= y (x < y when strict)? 'yes' with a reason, or None"""
    nx, ny = norm_len(x), norm_len(y)
    if A.is_int(nx) and A.is_int(ny):
        return "constants" if (nx[1] < ny[1] or (nx[1] == ny[1] and not strict)) else None
    if nx == ny and not strict:
        return "same quantity"
    if not strict and nx[0] == "ret" and nx[1] == "min" and any(norm_len(a) == ny for a in nx[2]):
        return "min() with the length"
    if A.is_int(nx) and nx[1] == 0 and not strict:
        return "zero"
    conds = path.conds if upto is None else path.conds[:upto]
    for t, rel, val in conds:
        if t[0] != "bin" or t[1] not in A.CMP_OPS:
            continue
        a, b = norm_len(t[2]), norm_len(t[3])
        truth = (val == 1) if rel == "==" else None
        if rel != "==":
            continue
        o = t[1]
        if truth:
            if (a, b) == (nx, ny) and (o in ("Lt",) or (o in ("Le", "Eq") and not strict)):
                return "guarded by %s" % o
            if (a, b) == (ny, nx) and (o in ("Gt",) or (o in ("Ge", "Eq") and not strict)):
                return "guarded by %s" % o
        else:
            if (a, b) == (nx, ny) and (o == "Ge" or (o == "Gt" and not strict)):
                return "guarded by !%s" % o
            if (a, b) == (ny, nx) and (o == "Le" or (o == "Lt" and not strict)):
                return "guarded by !%s" % o
    return None


def slice_obligations(path):
    """(description, x, y, strict, site, upto) obligations x <= y of the slice / copy events on a path"""
    out = []
    for e in path.events:
        if e[0] == "slice":
            _, base, rg, site, upto = e
            ln = seq_len(base)
            if rg[0] == "agg":
                kind = rg[1].rsplit("::", 1)[1]
                if kind == "RangeTo":
                    out.append(("slice end", rg[3][0], ln, False, site, upto))
                elif kind == "RangeFrom":
                    out.append(("slice start", rg[3][0], ln, False, site, upto))
                elif kind == "Range":
                    out.append(("slice start <= end", rg[3][0], rg[3][1], False, site, upto))
                    out.append(("slice end", rg[3][1], ln, False, site, upto))
                elif kind == "RangeInclusive" and len(rg[3]) >= 2:
                    out.append(("slice end (inclusive)", rg[3][1], ln, True, site, upto))
            else:
                out.append(("index", rg, ln, True, site, upto))
        elif e[0] == "copy":
            _, dst, src, site, upto = e
            a, b = seq_len(dst), seq_len(src)
            out.append(("copy_from_slice: destination not longer", a, b, False, site, upto))
            out.append(("copy_from_slice: source not longer", b, a, False, site, upto))
    return out


def run_loader(ctx):
    facts = ctx.facts
    body = loader_body(facts)
    ep = ElfPrims(ctx)
    I = A.Interp(facts, intercept=ep.intercept, max_paths=300000)
    outs = list(I.run(body, [("binary",)], A.Path()))
    return outs, I, body, ep


def header_leaf(x):
    """tainted: anything read from the parsed file"""
    if x in (SEG, SYM, ELF, ("binary",)):
        return True
    if x[0] in ("field", "vfield", "deref"):
        b = x
        while b[0] in ("field", "vfield", "deref", "w"):
            b = b[1]
        return b in (SEG, SYM, ELF, ("binary",)) or b[0] in ("segdata", "strname")
    if x[0] in ("segdata", "len", "area_len", "strname"):
        return True
    return False
