"""Abstract model of the ELF loader: from_binary interpreted with the `elf` crate's entry points and
the memory API as primitives. Every header field is an opaque (tainted) leaf."""
from . import absint as A
from . import facts as F
from . import prims as P

AXE = "axecutor::Axecutor"
SEG = ("seg",)
SYM = ("sym",)
ELF = ("elf",)


def loader_body(facts):
    return facts.method(AXE, "from_binary")


class ElfPrims:
    def __init__(self, ctx, inline_round_up=True):
        facts = ctx.facts
        self.F = facts
        self.hp = P.HandlerPrims(facts, ctx.roles)
        m = lambda n: facts.method(AXE, n)["path"]
        self.mem = {m("mem_init_area_named"): "init_area", m("mem_init_zero_named"): "init_zero", m("mem_prot"): "prot",
                    m("mem_get_area"): "get_area", m("write_fs"): "write_fs", m("read_fs"): "read_fs"}
        self.mem_write_bytes = ctx.roles.mem_write_bytes
        self.empty = m("empty")
        self.elf_entry_points = set()

    def intercept(self, I, path, frame, t, name, args):
        ev = path.events
        short = name.rsplit("::", 1)[1] if "::" in name else name
        if name.startswith("elf::"):
            self.elf_entry_points.add(name)
        if name == self.empty:
            return [(("ref_axe",), path)]
        if short in ("push", "insert") and args and args[0][0] == "ref":
            names = [p_[2] for p_ in args[0][1][1] if isinstance(p_, tuple) and p_[0] == "f"]
            ev.append(("coll", short, tuple(names), tuple(I.norm_arg(path, a) for a in args[1:])))
            return None
        if name.startswith("elf::elf::elf::ElfBytes") and short == "minimal_parse":
            p2 = path.copy()
            return [(A.OK(ELF), path), (A.ERR(("parse_err",)), p2)]
        if name.startswith("elf::elf::elf::ElfBytes") and short == "segments":
            p2 = path.copy()
            return [(A.SOME(("segtable",)), path), (A.NONE, p2)]
        if name.startswith("elf::elf::elf::ElfBytes") and short == "segment_data":
            p2 = path.copy()
            ev.append(("segment_data", I._deref_all(path, args[1])))
            return [(A.OK(("segdata", I._deref_all(path, args[1]))), path), (A.ERR(("parse_err",)), p2)]
        if name.startswith("elf::elf::elf::ElfBytes") and short == "symbol_table":
            p2, p3 = path.copy(), path.copy()
            return [(A.OK(A.SOME(("agg", "tuple", None, (("symtab",), ("strtab",))))), path), (A.OK(A.NONE), p2),
                    (A.ERR(("parse_err",)), p3)]
        if short == "into_iter" or (short == "iter" and name.startswith("elf::")):
            v = args[0]
            return [(("iter", I._deref_all(path, v)), path)]
        if short == "next" and "ParsingIterator" in name:
            g = " ".join(t["f"].get("gargs", []))
            p2 = path.copy()
            what = "seg" if "ProgramHeader" in g else "sym"
            path.events.append(("next", what, "some"))
            p2.events.append(("next", what, "none"))
            return [(A.SOME(SEG if what == "seg" else SYM), path), (A.NONE, p2)]
        if name.endswith("Symbol::is_undefined"):
            p2 = path.copy()
            path.events.append(("undefined", 1))
            p2.events.append(("undefined", 0))
            return [(A.INT(1, 8), path), (A.INT(0, 8), p2)]
        if name.endswith("StringTable::<'data>::get") or (name.startswith("elf::") and short == "get" and "StringTable" in name):
            p2 = path.copy()
            return [(A.OK(("strname", args[1])), path), (A.ERR(("parse_err",)), p2)]
        if name.endswith("p_type_to_str"):
            p2 = path.copy()
            return [(A.SOME(("str", "ptype")), path), (A.NONE, p2)]
        k = self.mem.get(name)
        if k == "init_area":
            ev.append(("init_area", args[1], args[2], args[3]))
            p2 = path.copy()
            return [(A.OK(A.UNIT), path), (A.ERR(("mem_err",)), p2)]
        if k == "init_zero":
            ev.append(("init_zero", args[1], args[2], args[3]))
            p2 = path.copy()
            return [(A.OK(A.UNIT), path), (A.ERR(("mem_err",)), p2)]
        if k == "prot":
            ev.append(("prot", args[1], args[2]))
            p2 = path.copy()
            return [(A.OK(A.UNIT), path), (A.ERR(("mem_err",)), p2)]
        if k == "get_area":
            p2 = path.copy()
            return [(A.SOME(("area_clone", args[1])), path), (A.NONE, p2)]
        if k == "write_fs":
            ev.append(("write_fs", args[1]))
            return [(A.UNIT, path)]
        if k == "read_fs":
            return [(A.W(("fs",), 64), path)]
        if name == self.mem_write_bytes:
            ev.append(("write_bytes", args[1], I._deref_all(path, args[2])))
            p2 = path.copy()
            return [(A.OK(A.UNIT), path), (A.ERR(("mem_err",)), p2)]
        if name.endswith("MemoryArea::len"):
            return [(A.W(("area_len", I._deref_all(path, args[0])), 64), path)]
        if short == "to_vec":
            return [(("to_vec", I._deref_all(path, args[0])), path)]
        if short == "to_string":
            return [(("to_string", I._deref_all(path, args[0])), path)]
        return self.hp.intercept(I, path, frame, t, name, args)


def run_loader(ctx):
    facts = ctx.facts
    body = loader_body(facts)
    ep = ElfPrims(ctx)
    I = A.Interp(facts, intercept=ep.intercept, max_paths=300000)
    outs = list(I.run(body, [("binary",)], A.Path()))
    return outs, I, body, ep


def header_leaf(x):
    """tainted: anything read from the parsed file"""
    if x in (SEG, SYM, ELF, ("binary",)):
        return True
    if x[0] in ("field", "vfield", "deref"):
        b = x
        while b[0] in ("field", "vfield", "deref", "w"):
            b = b[1]
        return b in (SEG, SYM, ELF, ("binary",)) or b[0] in ("segdata", "strname")
    if x[0] in ("segdata", "len", "area_len", "strname"):
        return True
    return False
