"""Congruence abstraction (Granger): evaluation of a value term modulo 2^K.

Z/2^64 -> Z/2^K is a ring homomorphism, so for terms built from + - * & | ^ ~, left shifts by constants and
width casts (all widths >= K) the low K bits of the result depend only on the low K bits of the leaves. Enumerating
all residues of the operand leaves therefore decides, for *all* 64-bit operand values at once, whether the value a
handler writes is congruent to the architectural result modulo 2^K. Right shifts, divisions and comparisons leave
the domain: the term is then undecided (never a violation)."""
from . import absint as A

K = 4
MOD = 1 << K


class Undecided(Exception):
    pass


def eval_mod(t, env, I=None, path=None, depth=0):
    if depth > 60:
        raise Undecided("depth")
    k = t[0]
    if k == "int":
        return t[1] % MOD
    if t in env:
        return env[t]
    if k == "w":
        return eval_mod(t[1], env, I, path, depth + 1)
    if k == "cast":
        _, a, fb, fs, tb = t
        if fb < K or tb < K:
            raise Undecided("narrow cast")
        return eval_mod(a, env, I, path, depth + 1)
    if k == "un":
        x = eval_mod(t[2], env, I, path, depth + 1)
        if t[1] == "Not":
            if A.width_of(t[2]) == 8 and t[2][0] == "bin" and t[2][1] in A.CMP_OPS:
                return (1 - x) % MOD
            return (~x) % MOD
        if t[1] == "Neg":
            return (-x) % MOD
        raise Undecided("unop " + t[1])
    if k == "bin":
        op = t[1]
        if op in A.CMP_OPS:
            # comparisons are outside the domain unless the class assumption decides them
            if I is not None and path is not None:
                d = I.decide(path, t)
                if d is not None:
                    return d % MOD
            raise Undecided("comparison")
        if op in ("Add", "Sub", "Mul", "BitAnd", "BitOr", "BitXor", "AddUnchecked", "SubUnchecked", "MulUnchecked"):
            a = eval_mod(t[2], env, I, path, depth + 1)
            b = eval_mod(t[3], env, I, path, depth + 1)
            if op.startswith("Add"):
                return (a + b) % MOD
            if op.startswith("Sub"):
                return (a - b) % MOD
            if op.startswith("Mul"):
                return (a * b) % MOD
            if op == "BitAnd":
                return a & b
            if op == "BitOr":
                return a | b
            return a ^ b
        if op in ("Shl", "ShlUnchecked"):
            c = t[3]
            if not A.is_int(c):
                if I is not None and path is not None:
                    d = I.decide(path, c)
                    if d is not None:
                        return (eval_mod(t[2], env, I, path, depth + 1) << d) % MOD
                raise Undecided("variable shift")
            return (eval_mod(t[2], env, I, path, depth + 1) << c[1]) % MOD
        raise Undecided("binop " + op)
    raise Undecided("leaf %s" % (A.show(t)[:40],))


def eval_k(t, env, k_bits, I=None, path=None, depth=0):
    """t modulo 2^k_bits with the leaves' residues given in env; narrowing and widening casts are followed exactly (a value
    truncated to n < k_bits bits is known completely), so a sign- or zero-extension of a narrow immediate shows in the
    bits above it. Raises Undecided outside the domain (right shifts, divisions, undecided comparisons)."""
    mod = 1 << k_bits
    if depth > 60:
        raise Undecided("depth")
    k = t[0]
    if k == "int":
        return t[1] % mod
    if t in env:
        return env[t] % mod
    if k == "w":
        return eval_k(t[1], env, k_bits, I, path, depth + 1)
    if k == "cast":
        _, a, fb, fs, tb = t
        x = eval_k(a, env, k_bits, I, path, depth + 1)
        if isinstance(fb, int) and fb < k_bits:
            x %= 1 << fb
            if fs and isinstance(tb, int) and tb > fb and (x >> (fb - 1)) & 1:
                x |= (mod - 1) & ~((1 << fb) - 1)
        if isinstance(tb, int) and tb < k_bits:
            x %= 1 << tb
        return x % mod
    if k == "un":
        x = eval_k(t[2], env, k_bits, I, path, depth + 1)
        if t[1] == "Not":
            if A.width_of(t[2]) == 8 and t[2][0] == "bin" and t[2][1] in A.CMP_OPS:
                return (1 - x) % mod
            w = A.width_of(t[2])
            r = (~x) % mod
            return r % (1 << w) if w and w < k_bits else r
        if t[1] == "Neg":
            w = A.width_of(t[2])
            r = (-x) % mod
            return r % (1 << w) if w and w < k_bits else r
        raise Undecided("unop " + t[1])
    if k == "bin":
        op = t[1]
        if op in A.CMP_OPS:
            if I is not None and path is not None:
                d = I.decide(path, t)
                if d is not None:
                    return d % mod
            raise Undecided("comparison")
        if op in ("Add", "Sub", "Mul", "BitAnd", "BitOr", "BitXor", "AddUnchecked", "SubUnchecked", "MulUnchecked"):
            a = eval_k(t[2], env, k_bits, I, path, depth + 1)
            b = eval_k(t[3], env, k_bits, I, path, depth + 1)
            w = t[4] if len(t) > 4 and isinstance(t[4], int) else None
            if op.startswith("Add"):
                r = a + b
            elif op.startswith("Sub"):
                r = a - b
            elif op.startswith("Mul"):
                r = a * b
            elif op == "BitAnd":
                r = a & b
            elif op == "BitOr":
                r = a | b
            else:
                r = a ^ b
            r %= mod
            return r % (1 << w) if w and w < k_bits else r
        if op in ("Shl", "ShlUnchecked") and A.is_int(t[3]):
            w = t[4] if len(t) > 4 and isinstance(t[4], int) else None
            r = (eval_k(t[2], env, k_bits, I, path, depth + 1) << t[3][1]) % mod
            return r % (1 << w) if w and w < k_bits else r
        raise Undecided("binop " + op)
    raise Undecided("leaf %s" % (A.show(t)[:40],))
