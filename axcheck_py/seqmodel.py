"""Abstract byte sequences and keyed maps (used by C14; independent of how the code spells its Vec / HashMap calls).

Sequence values
    ('sqatom', name)                 an opaque byte string (a map entry's entry value)
    ('membytes', addr, n, ver)       n bytes read from the guest (prims.HandlerPrims)
    ('sqempty',)
    ('sqcat', a, b)
    ('sqslice', base, lo, hi)        base[lo..hi]; lo/hi terms, hi None = to the end
Normal form: a list of segments (atom, lo, hi) with affine bounds; segments with lo == hi are dropped.

Map model: a field listed in `maps` is an abstract map. The entry for key term k lives at the store root
('L', ('mapent', field, k), 0); its presence is a per-path fact that forks on first use. All of get / get_mut /
contains_key / insert / remove / entry().and_modify().or_insert*() read and write that root, so the *final* value
of the root is the map's content for that key whatever combination of calls produced it.
"""
from . import absint as A
from . import facts as F
from . import hutil as U

ABSENT = ("absent",)
EMPTY = ("sqempty",)


def fieldnames(loc):
    return [p[2] for p in loc[1] if isinstance(p, tuple) and p[0] == "f"]


def strip(v):
    while v[0] in ("w", "deref"):
        v = v[1]
    return v


ZERO = ("sqzero",)


def is_seq(v, atom_pred=None):
    v = strip(v)
    if v[0] in ("sqatom", "membytes", "sqempty", "sqcat", "sqslice", "sqfill"):
        return True
    return bool(atom_pred and atom_pred(v))


def seq_len(v):
    v = strip(v)
    if v[0] == "sqempty":
        return A.INT(0, 64)
    if v[0] == "membytes":
        return v[2]
    if v[0] == "sqcat":
        return ("bin", "Add", seq_len(v[1]), seq_len(v[2]), 64)
    if v[0] == "sqslice":
        hi = v[3] if v[3] is not None else seq_len(v[1])
        if A.is_int(v[2]) and v[2][1] == 0:
            return hi
        return ("bin", "Sub", hi, v[2], 64)
    if v[0] == "sqfill":
        return v[2]
    return A.W(A.LEN(v), 64)


def mk_slice(base, lo, hi):
    return ("sqslice", strip(base), lo if lo is not None else A.INT(0, 64), hi)


def range_bounds(rg):
    """(lo, hi) of a std range aggregate, or None"""
    if rg[0] != "agg":
        return None
    kind = rg[1].rsplit("::", 1)[1]
    f = rg[3]
    if kind == "RangeTo":
        return A.INT(0, 64), f[0]
    if kind == "RangeFrom":
        return f[0], None
    if kind == "Range":
        return f[0], f[1]
    if kind == "RangeFull":
        return A.INT(0, 64), None
    return None


def subst(t, sub):
    if not sub or not isinstance(t, tuple):
        return t
    if t in sub:
        return sub[t]
    return tuple(subst(x, sub) if isinstance(x, tuple) else x for x in t)


def normal_form(v, sub=None):
    """list of (atom, lo_affine, hi_affine) or None when a slice of a concatenation cannot be resolved"""
    v = strip(v)
    if v[0] == "sqempty":
        return []
    if v[0] == "sqfill":
        if not (A.is_int(v[1]) and v[1][1] == 0):
            return None
        return _merge_zero(_drop_empty([(ZERO, list(U.affine_norm(A.INT(0, 64))), list(U.affine_norm(subst(v[2], sub))))]))
    if v[0] in ("sqatom", "membytes") or v[0] == "field":
        return _drop_empty([(v, list(U.affine_norm(A.INT(0, 64))), list(U.affine_norm(subst(seq_len(v), sub))))])
    if v[0] == "sqcat":
        a, b = normal_form(v[1], sub), normal_form(v[2], sub)
        if a is None or b is None:
            return None
        return _merge_zero(a + b)
    if v[0] == "sqslice":
        inner = normal_form(v[1], sub)
        if inner is None:
            return None
        lo = U.affine_norm(subst(v[2], sub))
        if not inner:
            return []
        if len(inner) != 1:
            return None
        atom, L, H = inner[0]
        nlo = aff_add(L, lo)
        nhi = aff_add(L, U.affine_norm(subst(v[3], sub))) if v[3] is not None else H
        return _merge_zero(_drop_empty([(atom, nlo, nhi)]))
    return None


def _merge_zero(segs):
    """zero segments carry no position: shift each to start at 0 and merge neighbours"""
    out = []
    for a, lo, hi in segs:
        if a == ZERO:
            ln = aff_add(hi, [{k: -c for k, c in lo[0].items()}, (-lo[1]) % (1 << 64)])
            if out and out[-1][0] == ZERO:
                ln = aff_add(out[-1][2], ln)
                out.pop()
            if not ln[0] and ln[1] == 0:
                continue
            out.append((ZERO, [{}, 0], ln))
        else:
            out.append((a, lo, hi))
    return out


def aff_add(a, b):
    co = dict(a[0])
    for k, c in b[0].items():
        co[k] = co.get(k, 0) + c
        if co[k] == 0:
            del co[k]
    return [co, (a[1] + b[1]) % (1 << 64)]


def _drop_empty(segs):
    return [s for s in segs if not (s[1][0] == s[2][0] and s[1][1] == s[2][1])]


def show_nf(nf):
    if nf is None:
        return "?"
    if not nf:
        return "(empty)"
    return " ++ ".join("%s[%s .. %s]" % (A.show(s[0])[:30], show_aff(s[1]), show_aff(s[2])) for s in nf)


def show_aff(a):
    parts = []
    for k, c in sorted(a[0].items(), key=repr):
        cs = c
        parts.append(("%+d*" % cs if cs not in (1,) else "+") + A.show(k)[:24])
    k = a[1] if a[1] < (1 << 63) else a[1] - (1 << 64)
    if k or not parts:
        parts.append("%+d" % k)
    return "".join(parts).lstrip("+")


def _position_call(t, depth=0):
    while t[0] in ("w", "vfield", "deref", "cast") and depth < 8:
        t = t[1]
        depth += 1
    if t[0] == "ret" and isinstance(t[1], str):
        short = t[1].rsplit("::", 1)[1].split("::<")[0] if "::" in t[1] else t[1]
        if short in ("position", "rposition"):
            return short
    return None


_in_rec = {}


def implies_le(path, x, y, upto=None, strict=False, norm=None):
    """does the path establish x <= y (x < y when strict)? a reason, or None. Terms are compared after `norm`; a
    comparison a <= b on the path also discharges x <= y when y - x and b - a are the same affine form (both sides
    shifted by the same amount; wrap-around is the overflow checks' business, not this rule's)."""
    norm = norm or (lambda t: t)
    nx, ny = norm(x), norm(y)
    sx, sy = U.strip(nx), U.strip(ny)
    if A.is_int(sx) and A.is_int(sy):
        return "constants" if (sx[1] < sy[1] or (sx[1] == sy[1] and not strict)) else None
    if U.affine_eq(nx, ny) and not strict:
        return "same quantity"
    if not strict and sx[0] == "ret" and sx[1] == "min" and any(U.affine_eq(norm(a), ny) for a in sx[2]):
        return "min() with the length"
    if A.is_int(sx) and sx[1] == 0 and not strict:
        return "zero"
    # x <= min(p, q) when x <= p and x <= q; saturating_sub(a, b) <= y when a <= y
    if sy[0] == "ret" and sy[1] == "min" and isinstance(sy[2], tuple) and len(sy[2]) == 2 and not _in_rec.get("d", 0) > 3:
        _in_rec["d"] = _in_rec.get("d", 0) + 1
        try:
            rs = [implies_le(path, x, a_, upto, strict, norm) for a_ in sy[2]]
        finally:
            _in_rec["d"] -= 1
        if all(rs):
            return "below both operands of the min()"
    if sx[0] == "ret" and sx[1] == "saturating_sub" and isinstance(sx[2], tuple) and len(sx[2]) == 2 and not _in_rec.get("d", 0) > 3:
        _in_rec["d"] = _in_rec.get("d", 0) + 1
        try:
            r_ = implies_le(path, sx[2][0], y, upto, False, norm)
        finally:
            _in_rec["d"] -= 1
        if r_ and not strict:
            return "saturating_sub of a quantity that is below"
    # library fact: partition_point / binary_search over v return a position in 0..=len(v); one less than a non-zero
    # such position is an index of v (the subtraction itself is guarded by the overflow check)
    def _pp(t_):
        t_ = U.strip(t_)
        if t_[0] == "ret" and str(t_[1]).rsplit("::", 1)[-1].split("::<")[0] in (
                "partition_point", "binary_search", "binary_search_by", "binary_search_by_key") and t_[2]:
            return t_[2][0]
        if t_[0] in ("vfield",) and isinstance(t_[1], tuple):
            return _pp(t_[1])  # the usize inside Ok(i) / Err(i) of a binary search
        return None
    if sy[0] == "len":
        v_ = _pp(sx)
        if v_ is not None and not strict and U.strip(norm(("len", v_))) == sy:
            return "partition point of the same vector"
        if strict and sx[0] == "bin" and sx[1] == "Sub" and A.is_int(U.strip(sx[3])) and U.strip(sx[3])[1] >= 1:
            v_ = _pp(sx[2])
            if v_ is not None and U.strip(norm(("len", v_))) == sy:
                return "one below a partition point of the same vector"
    if strict:
        # an index found by position()/rposition() over the indexed vector is below its length
        pos = _position_call(sx)
        if pos is not None:
            return "index found by %s()" % pos
    diff = U.affine_norm(("bin", "Sub", ny, nx, 64))
    if not diff[0] and diff[1] < (1 << 63) and (diff[1] > 0 or not strict):
        return "differs by the constant %d" % diff[1]
    conds = path.conds if upto is None else path.conds[:upto]
    for t, rel, val in conds:
        if t[0] != "bin" or t[1] not in A.CMP_OPS:
            continue
        if rel == "!=":
            if 0 not in val:
                continue
            val = 1  # a boolean known to differ from 0
        a, b = norm(t[2]), norm(t[3])
        o = t[1]
        if val == 0:
            o = {"Lt": "Ge", "Le": "Gt", "Gt": "Le", "Ge": "Lt", "Eq": "Ne", "Ne": "Eq"}[o]
        # bring to the form  lo (<|<=) hi
        if o in ("Lt", "Le"):
            lo, hi, st = a, b, o == "Lt"
        elif o in ("Gt", "Ge"):
            lo, hi, st = b, a, o == "Gt"
        elif o == "Eq":
            for lo, hi in ((a, b), (b, a)):
                d2 = U.affine_norm(("bin", "Sub", hi, lo, 64))
                if d2[0] == diff[0] and d2[1] == diff[1] and not strict:
                    return "guarded by =="
            continue
        else:
            continue
        d2 = U.affine_norm(("bin", "Sub", hi, lo, 64))
        if d2[0] == diff[0] and d2[1] == diff[1] and (st or not strict):
            return "guarded by %s" % t[1]
        # lo < hi  implies  lo + 1 <= hi
        if st and not strict and d2[0] == diff[0] and (d2[1] - 1) % (1 << 64) == diff[1]:
            return "guarded by %s (strict)" % t[1]
    return None


def as_view(a):
    """a mutable sub-slice view handed out by index_mut (possibly reborrowed)"""
    for _ in range(3):
        if a[0] == "sqview":
            return a
        if a[0] == "ref" and a[1][0][0] == "D" and not a[1][1]:
            a = a[1][0][1]
            continue
        return None
    return None


class SeqMapPrims:
    def __init__(self, facts, maps, seq_maps, chain=None, atom_pred=None):
        self.F = facts
        self.maps = set(maps)
        self.seq_maps = set(seq_maps)
        self.chain = chain
        self.atom_pred = atom_pred
        self.unmodelled = []

    # ------------------------------------------------------------------ map helpers
    def map_of(self, I, path, recv):
        if recv[0] == "ref":
            fn = fieldnames(recv[1])
            if fn and fn[-1] in self.maps:
                return fn[-1]
        return None

    def root(self, M, k):
        return ("L", ("mapent", M, k), 0)

    def key(self, I, path, a):
        return U.strip(I._deref_all(path, a))

    def presence(self, path, M, k):
        """[(present, path)]: forks when the entry's presence is not yet known on this path"""
        cur = path.tags.get(("pres", M, k))
        if cur is not None:
            return [(cur, path)]
        p2 = path.copy()
        path.tags[("pres", M, k)] = True
        path.store[self.root(M, k)] = ("sqatom", (M, k)) if M in self.seq_maps else A.W(("mapval", M, k), 64)
        path.events.append(("map", "entry-state", M, k, True))
        p2.tags[("pres", M, k)] = False
        p2.store[self.root(M, k)] = ABSENT
        p2.events.append(("map", "entry-state", M, k, False))
        return [(True, path), (False, p2)]

    def set(self, path, M, k, v):
        path.tags[("pres", M, k)] = True
        path.store[self.root(M, k)] = v
        path.events.append(("map", "set", M, k, v))

    def call_closure(self, I, path, frame, t, clos, cargs):
        """run a closure value; yields outcomes"""
        if clos[0] != "agg" or not clos[1].startswith("closure:"):
            return None
        cb = self.F.bodies.get(clos[1][8:])
        if cb is None:
            return None
        l1 = cb["locals"][1]
        if isinstance(l1, list) and l1[0] == "ref":
            envl = ("L", ("clos-env", frame.fid, t["sp"], len(path.events)), 0)
            path.store[envl] = clos
            env = ("ref", (envl, ()), True)
        else:
            env = clos
        return list(I.call_body(cb, [env] + list(cargs), path, frame, frame.depth + 1))

    # ------------------------------------------------------------------ intercept
    def intercept(self, I, path, frame, t, name, args):
        r = self._intercept(I, path, frame, t, name, args)
        if r is not None:
            return r
        if self.chain is not None:
            return self.chain(I, path, frame, t, name, args)
        return None

    def _intercept(self, I, path, frame, t, name, args):
        short = name.rsplit("::", 1)[1] if "::" in name else name
        short = short.split("::<")[0]
        # ---- abstract maps
        if args and ("HashMap" in name or "BTreeMap" in name):
            M = self.map_of(I, path, args[0])
            if M is not None:
                if short in ("get", "get_mut", "contains_key", "remove") and len(args) == 2:
                    k = self.key(I, path, args[1])
                    outs = []
                    for pres, p in self.presence(path, M, k):
                        if short == "contains_key":
                            outs.append((A.INT(int(pres), 8), p))
                        elif short == "remove":
                            old = p.store.get(self.root(M, k))
                            if pres:
                                p.tags[("pres", M, k)] = False
                                p.store[self.root(M, k)] = ABSENT
                                p.events.append(("map", "remove", M, k))
                                outs.append((A.SOME(old), p))
                            else:
                                outs.append((A.NONE, p))
                        else:
                            outs.append((A.SOME(("ref", (self.root(M, k), ()), short == "get_mut")) if pres else A.NONE, p))
                    return outs
                if short == "insert" and len(args) == 3:
                    k = self.key(I, path, args[1])
                    self.set(path, M, k, args[2])
                    return [(("ret", "insert-old", (), len(path.events)), path)]
                if short == "entry" and len(args) == 2:
                    return [(("mapentry", M, self.key(I, path, args[1])), path)]
                if short in ("index", "index_mut") and len(args) == 2:
                    # map[&key]: the entry, or a panic when the key is missing
                    k = self.key(I, path, args[1])
                    outs = []
                    for pres, p in self.presence(path, M, k):
                        if pres:
                            outs.append((("ref", (self.root(M, k), ()), short == "index_mut"), p))
                        else:
                            outs.append(("panic", "X", "map index with a missing key", p))
                    return outs
                self.unmodelled.append(name)
                return None
        if args and args[0][0] == "mapentry":
            _, M, k = args[0]
            if short == "and_modify" and len(args) == 2:
                outs = []
                for pres, p in self.presence(path, M, k):
                    if not pres:
                        outs.append((args[0], p))
                        continue
                    res = self.call_closure(I, p, frame, t, args[1], [("ref", (self.root(M, k), ()), True)])
                    if res is None:
                        self.unmodelled.append(name + " (closure)")
                        return None
                    for o in res:
                        if o.kind == "return":
                            outs.append((args[0], o.path))
                        else:
                            outs.append(("panic", o.cls, o.msg or "and_modify closure", o.path))
                return outs
            if short in ("or_insert", "or_default", "or_insert_with"):
                outs = []
                for pres, p in self.presence(path, M, k):
                    if not pres:
                        if short == "or_insert":
                            v = args[1]
                        elif short == "or_default":
                            v = EMPTY if M in self.seq_maps else A.INT(0, 64)
                        else:
                            res = self.call_closure(I, p, frame, t, args[1], [])
                            if not res or len(res) != 1 or res[0].kind != "return":
                                self.unmodelled.append(name + " (closure)")
                                return None
                            v, p = res[0].value, res[0].path
                        self.set(p, M, k, v)
                    outs.append((("ref", (self.root(M, k), ()), True), p))
                return outs
            self.unmodelled.append(name)
            return None
        # ---- byte sequences
        if name.startswith("std::vec::Vec") and short in ("new", "with_capacity") and "u8" in " ".join(t["f"].get("gargs", [])):
            return [(EMPTY, path)]
        if name == "std::vec::from_elem" and len(args) == 2 and "u8" in " ".join(t["f"].get("gargs", [])):
            path.events.append(("vec_alloc", args[1], F.site_str(frame.body, t["sp"])))
            return [(("sqfill", args[0], args[1]), path)]
        if not args:
            return None
        a0 = args[0]
        tgt = a0
        if short in ("copy_from_slice", "clone_from_slice") and len(args) == 2 and as_view(a0) is not None:
            _, vloc, lo, hi = as_view(a0)
            base = strip(I.read_loc(path, vloc))
            src = strip(I._deref_all(path, args[1]))
            if not (is_seq(base, self.atom_pred) and is_seq(src, self.atom_pred)):
                self.unmodelled.append(name)
                return None
            path.events.append(("copy", mk_slice(base, lo, hi), src, F.site_str(frame.body, t["sp"]), len(path.conds)))
            end = ("bin", "Add", lo, seq_len(src), 64)
            new = ("sqcat", ("sqcat", mk_slice(base, None, lo), src), mk_slice(base, end, None))
            I.write_loc(path, vloc, new)
            path.events.append(("seqstore", vloc, new))
            return [(A.UNIT, path)]
        # ---- element-wise copy loops: for (d, s) in dst.iter_mut().zip(src.iter()) { *d = *s }
        if short == "iter_mut" and len(args) == 1 and is_seq(strip(I._deref_all(path, a0)), self.atom_pred):
            l_ = self.loc_of(I, path, a0)
            if l_ is not None:
                return [(("sqitermut", l_), path)]
        if short == "zip" and len(args) == 2:
            za, zb = I._deref_all(path, args[0]), I._deref_all(path, args[1])
            if za[0] == "sqitermut" and is_seq(strip(zb), self.atom_pred):
                return [(("sqzip", za, strip(zb)), path)]
            if za[0] == "sqitermut" or zb[0] == "sqitermut":
                self.unmodelled.append(name + " (zip shape)")
                return None
        if short == "into_iter" and a0[0] == "sqzip":
            return [(a0, path)]
        if short == "next" and args and I._deref_all(path, a0)[0] == "sqzip":
            z = I._deref_all(path, a0)
            xloc, y0 = z[1][1], z[2]
            key = ("zipst", xloc)
            st = path.tags.get(key)
            # exhausted: dst[..m] = src[..m] with m = min(len dst, len src), provided the body copied the paired element
            # (and did nothing else that depends on it); without an iteration m = 0 and the formula leaves dst as it is
            p2 = path.copy()
            x0 = strip(I.read_loc(p2, xloc))
            copied = True
            if st is not None:
                ta, ea, eb, nc = st
                cur = strip(I.read_loc(p2, (ta, ())))
                if cur == eb and len(p2.conds) == nc:
                    copied = True
                elif cur == ea and len(p2.conds) == nc:
                    copied = False
                else:
                    self.unmodelled.append("element-wise loop over a zip that is not a plain copy")
                    copied = False
            if copied:
                m = I.minmax(p2, "min", seq_len(x0), seq_len(y0), 64, False)
                new = ("sqcat", mk_slice(y0, None, m), mk_slice(x0, m, None))
                I.write_loc(p2, xloc, new)
                p2.events.append(("seqstore", xloc, new))
            outs = [(A.NONE, p2)]
            if st is None:
                n_ = len(path.events)
                ea, eb = ("sqelem", "dst", n_), ("sqelem", "src", n_)
                ta = ("L", ("zip-dst", frame.fid, t["sp"], n_), 0)
                tb = ("L", ("zip-src", frame.fid, t["sp"], n_), 0)
                path.store[ta] = A.W(ea, 8)
                path.store[tb] = A.W(eb, 8)
                path.tags[key] = (ta, ea, eb, len(path.conds))
            else:
                ta = st[0]
                tb = ("L", ("zip-src",) + ta[1][1:], 0)
            outs.append((A.SOME(("agg", "tuple", None, (("ref", (ta, ()), True), ("ref", (tb, ()), False)))), path))
            return outs
        v0 = I._deref_all(path, a0)
        if not is_seq(v0, self.atom_pred):
            if short in ("take",) and name.startswith("std::mem::") and a0[0] == "ref" and is_seq(I.read_loc(path, a0[1])):
                pass
            else:
                return None
        v0 = strip(v0)
        if short in ("deref_mut", "as_mut_slice", "as_mut", "borrow_mut") and len(args) == 1 and a0[0] == "ref" and self.loc_of(I, path, a0) is not None:
            return [(a0, path)]  # a mutable view of the same storage: keeps the location
        if short in ("clone", "to_vec", "to_owned", "as_slice", "as_ref", "deref", "deref_mut", "borrow", "into", "from",
                     "as_mut_slice", "iter", "into_iter", "copied", "cloned", "collect", "into_boxed_slice", "as_mut"):
            return [(v0, path)]
        if short == "len" and len(args) == 1:
            return [(seq_len(v0), path)]
        if short == "is_empty" and len(args) == 1:
            return [(I.binop(path, "Eq", seq_len(v0), A.INT(0, 64), 8), path)]
        if short in ("index", "index_mut") and len(args) == 2:
            rg = I._deref_all(path, args[1])
            b = range_bounds(rg)
            if b is None:
                self.unmodelled.append(name)
                return None
            path.events.append(("slice", v0, rg, F.site_str(frame.body, t["sp"]), len(path.conds)))
            if short == "index_mut":
                vloc = self.loc_of(I, path, tgt)
                if vloc is not None:
                    return [(("sqview", vloc, b[0], b[1]), path)]
            return [(mk_slice(v0, b[0], b[1]), path)]
        if short == "split_at" and len(args) == 2:
            rg = ("agg", "adt:std::ops::RangeTo", None, (args[1],))
            path.events.append(("slice", v0, rg, F.site_str(frame.body, t["sp"]), len(path.conds)))
            return [(("agg", "tuple", None, (mk_slice(v0, None, args[1]), mk_slice(v0, args[1], None))), path)]
        if short in ("first", "last", "get") and len(args) <= 2:
            pass
        # mutations through a reference
        loc = self.loc_of(I, path, tgt)
        if loc is None:
            if short in ("extend_from_slice", "truncate", "drain", "split_off", "clear", "append", "push", "extend"):
                self.unmodelled.append(name + " (receiver not a location)")
            return None
        if short == "extend_from_slice" and len(args) == 2:
            I.write_loc(path, loc, ("sqcat", v0, strip(I._deref_all(path, args[1]))))
            return [(A.UNIT, path)]
        if short == "extend" and len(args) == 2 and is_seq(I._deref_all(path, args[1])):
            I.write_loc(path, loc, ("sqcat", v0, strip(I._deref_all(path, args[1]))))
            return [(A.UNIT, path)]
        if short == "append" and len(args) == 2:
            oloc = self.loc_of(I, path, args[1])
            ov = I._deref_all(path, args[1])
            if oloc is None or not is_seq(ov):
                self.unmodelled.append(name)
                return None
            I.write_loc(path, loc, ("sqcat", v0, strip(ov)))
            I.write_loc(path, oloc, EMPTY)
            return [(A.UNIT, path)]
        if short == "resize" and len(args) == 3:
            if not (A.is_int(args[2]) and args[2][1] == 0):
                self.unmodelled.append(name + " (non-zero fill)")
                return None
            ln = seq_len(v0)
            m = I.minmax(path, "min", args[1], ln, 64, False)
            new = ("sqcat", mk_slice(v0, None, m), ("sqfill", A.INT(0, 8), ("bin", "Sub", args[1], m, 64)))
            path.events.append(("vec_alloc", args[1], F.site_str(frame.body, t["sp"])))
            I.write_loc(path, loc, new)
            path.events.append(("seqstore", loc, new))
            return [(A.UNIT, path)]
        if short == "truncate" and len(args) == 2:
            n = I.minmax(path, "min", args[1], seq_len(v0), 64, False)
            I.write_loc(path, loc, mk_slice(v0, None, n))
            return [(A.UNIT, path)]
        if short == "clear" and len(args) == 1:
            I.write_loc(path, loc, EMPTY)
            return [(A.UNIT, path)]
        if short == "split_off" and len(args) == 2:
            I.write_loc(path, loc, mk_slice(v0, None, args[1]))
            path.events.append(("slice", v0, ("agg", "adt:std::ops::RangeFrom", None, (args[1],)), F.site_str(frame.body, t["sp"]), len(path.conds)))
            return [(mk_slice(v0, args[1], None), path)]
        if short == "drain" and len(args) == 2:
            rg = I._deref_all(path, args[1])
            b = range_bounds(rg)
            if b is None:
                self.unmodelled.append(name)
                return None
            path.events.append(("slice", v0, rg, F.site_str(frame.body, t["sp"]), len(path.conds)))
            lo, hi = b
            rest_hi = EMPTY if hi is None else mk_slice(v0, hi, None)
            rest = rest_hi if (A.is_int(lo) and lo[1] == 0) else ("sqcat", mk_slice(v0, None, lo), rest_hi)
            I.write_loc(path, loc, rest)
            return [(mk_slice(v0, lo, hi), path)]
        if short == "take" and name.startswith("std::mem::"):
            I.write_loc(path, loc, EMPTY)
            return [(v0, path)]
        if short == "replace" and name.startswith("std::mem::") and len(args) == 2:
            I.write_loc(path, loc, args[1])
            return [(v0, path)]
        if short == "push" and len(args) == 2:
            I.write_loc(path, loc, ("sqcat", v0, ("sqatom", ("byte", args[1]))))
            return [(A.UNIT, path)]
        return None

    def loc_of(self, I, path, a):
        """the location a (possibly nested) reference argument designates"""
        for _ in range(4):
            if a[0] != "ref":
                return None
            inner = I.read_loc(path, a[1])
            if inner[0] == "ref":
                a = inner
                continue
            return a[1]
        return None
