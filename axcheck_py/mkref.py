"""Authoring-time only: freeze the reference tables from the pinned tree.
Never run by a check."""
import json
import os
import subprocess
import sys

from . import dispatch
from . import facts as F


def main():
    facts = F.load()
    d = dispatch.Dispatch(facts)
    head = subprocess.run(["git", "-C", F.REPO, "rev-parse", "HEAD"], capture_output=True, text=True).stdout.strip()
    ref = {
        "pinned_commit": head,
        "mnemonics": sorted(d.mnemonics),
        "bound": sorted(d.codes),
        "implemented": sorted(d.implemented()),
    }
    os.makedirs(os.path.join(F.VERIF, "reference"), exist_ok=True)
    with open(os.path.join(F.VERIF, "reference", "forms.json"), "w") as fh:
        json.dump(ref, fh, indent=0)
    print("forms.json: %d mnemonics, %d bound, %d implemented" % (
        len(ref["mnemonics"]), len(ref["bound"]), len(ref["implemented"])))


if __name__ == "__main__":
    main()
