"""A4 over the finite shift-count domain (all 256 values of the imm8 / CL count).

For every implemented shift form, operand shape and count value the handler is interpreted with the
count fixed; everything else (destination value, flags) stays symbolic. Result per (Code, shape):
  aborts   {description: [counts]}
  flags    {description: [counts]}   flag handling vs the architectural masked count
  amount   {description: [counts]}   shifted amount vs the architectural masked count
The sweep is shared by C01 (.count), C02 (.count) and C06 (.spurious) and cached per tree hash.
"""
import json
import os

from . import absint as A
from . import facts as F
from . import flags as FL
from . import hutil as U
from . import prims as P

SHIFT_MNEMONICS = ("Shl", "Shr", "Sar", "Sal")


def is_err(o):
    v = o.value
    return v is not None and v[0] == "agg" and v[1] == A.RESULT and v[2] == 1


def short_msg(m):
    m = m or ""
    for k in ("assert_ne", "assert_eq", "assert", "panic", "unreachable", "unwrap", "expect", "fatal_error"):
        if k in m:
            return k
    return m[:30]


def run_with(ctx, code, shape, assume=None):
    hm = ctx.hmodel
    d = hm.D.codes[code]
    h = hm.F.bodies[d.get("dispatcher") or d["handler"]]  # from the dispatcher, like HandlerModel.run
    label, kinds, spec = shape
    pr = P.HandlerPrims(hm.F, hm.R, spec, code=code, mnemonic=d["mnemonic"], opkinds=kinds)
    I = A.Interp(hm.F, intercept=pr.intercept)
    path = A.Path()
    if assume:
        path.assume = assume
    outs = list(I.run(h, [P.self_ref(), P.INSTR], path))
    return outs, I


def shift_codes(ctx):
    O, D, hm = ctx.oracle, ctx.dispatch, ctx.hmodel
    return sorted(c for c in D.implemented() if O["codes"][c]["mnemonic"] in SHIFT_MNEMONICS and hm.producible(c)
                  and ("imm8" in O["codes"][c]["kinds"] or "cl" in O["codes"][c]["kinds"]))


_ck_hash = None


def checker_hash():
    """the sweep's result depends on the checker's own code as much as on the tree: both key the cache"""
    global _ck_hash
    if _ck_hash is None:
        import glob
        import hashlib
        h = hashlib.sha1()
        here = os.path.dirname(os.path.abspath(__file__))
        for fp in sorted(glob.glob(os.path.join(here, "*.py")) + glob.glob(os.path.join(here, "rules", "*.py"))):
            with open(fp, "rb") as fh:
                h.update(fh.read())
        _ck_hash = h.hexdigest()[:12]
    return _ck_hash


def sweep(ctx):
    cache = os.path.join(F.CACHE, "sweeps")
    os.makedirs(cache, exist_ok=True)
    cp = os.path.join(cache, "shift-%s-%s.json" % (ctx.facts.tree, checker_hash()))
    if os.path.exists(cp):
        with open(cp) as fh:
            return json.load(fh)
    res = compute(ctx)
    tmp = cp + ".tmp%d" % os.getpid()
    with open(tmp, "w") as fh:
        json.dump(res, fh)
    os.replace(tmp, cp)
    return res


def compute(ctx):
    from .rules import C02
    facts, O, D, hm = ctx.facts, ctx.oracle, ctx.dispatch, ctx.hmodel
    ss = FL.SetterSummaries(facts, ctx.roles)
    out = {"evaluations": 0, "forms": {}}
    for code in shift_codes(ctx):
        oc = O["codes"][code]
        width = oc["opsize"] if oc["opsize"] else 8
        cmask = 0x3F if width == 64 else 0x1F
        is_cl = "cl" in oc["kinds"]
        for shape in hm.shapes(code):
            label, kinds, spec = shape
            aborts, flagbad, amount = {}, {}, {}
            for c in range(256):
                out["evaluations"] += 1
                if is_cl:
                    leaf = ("reg", 8, ("opreg", 1), 0)
                    outs, I = run_with(ctx, code, shape, assume={leaf: [(c >> i) & 1 for i in range(64)]})
                else:
                    spec2 = dict(spec)
                    spec2[1] = ("IC", 1, c)
                    outs, I = run_with(ctx, code, (label, kinds, spec2))
                masked = c & cmask
                for o in outs:
                    if o.kind == "panic":
                        aborts.setdefault("%s abort (%s)" % (o.cls, short_msg(o.msg)), []).append(c)
                        continue
                    if o.kind != "return" or is_err(o):
                        continue
                    eff, why, used = C02.path_flag_effect(ctx, ss, I, o)
                    if eff is not None:
                        touched = [k for k in FL.ARCH_FLAGS if eff[k] != {"old"}]
                        if masked == 0 and touched:
                            flagbad.setdefault("flags modified although the masked count is 0", []).append(c)
                        if masked != 0:
                            for k in ("CF", "PF", "ZF", "SF"):
                                if "old" in eff[k] and not (k == "CF" and masked >= width):
                                    flagbad.setdefault("flag %s left stale for a non-zero masked count" % k, []).append(c)
                    wrote = any((e[0] == "reg_write" and U.reg_name(facts, e[2]) == "op0") or
                                (e[0] == "mem_write" and e[1] != "bytes" and "opmem" in repr(e[2])) for e in o.path.events)
                    if not wrote:
                        if masked != 0:
                            amount.setdefault("destination not written for a non-zero masked count", []).append(c)
                        elif width == 32 and label == "reg":
                            amount.setdefault("32-bit register destination not written for a masked-zero count (the write clears bits 63:32)", []).append(c)
                    for e in o.path.events:
                        if e[0] in ("reg_write", "mem_write") and e[1] != "bytes":
                            # by bit provenance, whatever expression computes it: for SHL / SHR with a masked count m below
                            # the width, result bit i is operand bit i -/+ m (or 0 outside the operand)
                            mn_ = oc["mnemonic"]
                            if mn_ in ("Shl", "Shr", "Sal") and masked < width and \
                                    ((e[0] == "reg_write" and U.reg_name(facts, e[2]) == "op0") or (e[0] == "mem_write" and "opmem" in repr(e[2]))):
                                bv = A.bitvec(e[3], o.path)
                                bv = (bv + [0] * width)[:width]
                                from . import hmodel as H_
                                lv_ = [x for x in H_.leaves(e[3]) if (x[0] == "reg" and x[2] == ("opreg", 0)) or x[0] == "mem"]
                                if None not in bv and len(set(lv_)) == 1:
                                    db = A.bitvec(A.W(lv_[0], 64), o.path)
                                    db = (db + [0] * width)[:width]
                                    exp_ = []
                                    for i_ in range(width):
                                        j_ = i_ + masked if mn_ == "Shr" else i_ - masked
                                        exp_.append(db[j_] if 0 <= j_ < width else 0)
                                    if bv != exp_:
                                        amount.setdefault("shifts by the wrong amount", []).append(c)
                                    continue
                                if None not in bv and not lv_ and all(b_ == 0 for b_ in bv) and masked == 0:
                                    continue
                            v = U.strip(e[3])
                            while v[0] == "cast":
                                v = U.strip(v[1])
                            if v[0] == "bin" and v[1] in ("Shl", "Shr"):
                                k = I.decide(o.path, v[3])
                                if k is not None and k != masked and masked < width:
                                    amount.setdefault("shifts by the wrong amount", []).append(c)
                            elif masked != 0 and masked < width and not A.is_int(v) and v[0] in ("reg", "mem"):
                                amount.setdefault("value unchanged for a non-zero masked count", []).append(c)
            out["forms"]["%s/%s" % (code, label)] = {
                "aborts": {k: sorted(set(v)) for k, v in aborts.items()},
                "flags": {k: sorted(set(v)) for k, v in flagbad.items()},
                "amount": {k: sorted(set(v)) for k, v in amount.items()},
                "width": width, "mask": cmask,
            }
    return out


def compress(cs):
    cs = sorted(set(cs))
    out = []
    i = 0
    while i < len(cs):
        j = i
        while j + 1 < len(cs) and cs[j + 1] == cs[j] + 1:
            j += 1
        out.append("%d" % cs[i] if i == j else "%d-%d" % (cs[i], cs[j]))
        i = j + 1
    return ",".join(out)
