"""Helpers shared by the handler-level rules."""
from . import absint as A
from . import facts as F
from . import prims as P

SREG_ENUM = "state::registers::SupportedRegister"

# SDM Vol.1 App. B condition codes as predicates over a flag class
CC = {
    "o": lambda f: f["OF"] == 1,
    "no": lambda f: f["OF"] == 0,
    "b": lambda f: f["CF"] == 1,
    "ae": lambda f: f["CF"] == 0,
    "e": lambda f: f["ZF"] == 1,
    "ne": lambda f: f["ZF"] == 0,
    "be": lambda f: f["CF"] == 1 or f["ZF"] == 1,
    "a": lambda f: f["CF"] == 0 and f["ZF"] == 0,
    "s": lambda f: f["SF"] == 1,
    "ns": lambda f: f["SF"] == 0,
    "p": lambda f: f["PF"] == 1,
    "np": lambda f: f["PF"] == 0,
    "l": lambda f: f["SF"] != f["OF"],
    "ge": lambda f: f["SF"] == f["OF"],
    "le": lambda f: f["ZF"] == 1 or f["SF"] != f["OF"],
    "g": lambda f: f["ZF"] == 0 and f["SF"] == f["OF"],
}


def reg_name(facts, t):
    """Name of a SupportedRegister term: 'RIP', 'op0' (operand register), or None."""
    if t[0] == "agg" and t[1] == P.SREG:
        ev = facts.enum_variant(SREG_ENUM, t[2])
        return ev[0] if ev else None
    if t[0] == "opreg":
        return "op%d" % t[1]
    if t[0] == "w":
        return reg_name(facts, t[1])
    return None


def strip(t):
    """Remove width annotations and value-preserving casts."""
    while True:
        if t[0] == "w":
            t = t[1]
            continue
        if t[0] == "cast" and t[4] >= t[2] and not t[3]:
            t = t[1]
            continue
        if t[0] == "cast" and t[4] == t[2]:
            t = t[1]
            continue
        return t


def fmt_class(cls):
    return ",".join("%s=%d" % (k, v) for k, v in cls.items())


def ev_of(o, *kinds):
    return [e for e in o.path.events if e[0] in kinds]


EFFECT_KINDS = ("reg_write", "mem_write", "trace", "store", "mutcall", "set_flags")


def effects(o):
    return [e for e in o.path.events if e[0] in EFFECT_KINDS]


def site_of(facts, site):
    """(body path, sp) -> 'file:line'"""
    if site is None:
        return None
    if isinstance(site, str):
        return site
    b = facts.bodies.get(site[0])
    if b is None:
        return None
    return F.site_str(b, site[1])


def handler_where(facts, disp, code):
    h = disp.codes[code]["handler"]
    b = facts.bodies.get(h)
    if b is None:
        return None
    return "%s:%d (%s)" % (b["span"][0], b["span"][1], b["name"])


def show_event(facts, e):
    k = e[0]
    if k == "reg_write":
        return "reg_write_%s(%s, %s)" % (e[1], reg_name(facts, e[2]) or A.show(e[2]), A.show(e[3]))
    if k == "reg_read":
        return "reg_read_%s(%s)" % (e[1], reg_name(facts, e[2]) or A.show(e[2]))
    if k == "mem_write":
        return "mem_write_%s(%s, %s)" % (e[1], A.show(e[2]), A.show(e[3]))
    if k == "mem_read":
        return "mem_read_%s(%s)" % (e[1], A.show(e[2]))
    if k == "set_flags":
        return "set_flags_u%s(set=%s, clear=%s)" % (e[1], A.show(e[2]), A.show(e[3]))
    if k == "trace":
        return "trace_%s(%s)" % (e[1], A.show(e[2]))
    if k == "store":
        return "store %s := %s" % (A.show_loc(e[1]), A.show(e[2]))
    if k == "mutcall":
        return "%s(&mut %s)" % (e[1].split("::")[-1], A.show_loc(e[2]))
    return str(e[0])


# --------------------------------------------------------------------------- A5 affine normal form

def affine_norm(t, scale=1, acc=None):
    """term -> ({leaf: coefficient}, constant) modulo 2^64 for terms built from + - and constants"""
    if acc is None:
        acc = [{}, 0]
    t = strip(t)
    if t[0] == "int":
        acc[1] = (acc[1] + scale * t[1]) % (1 << 64)
        return acc
    if t[0] == "bin" and t[1] in ("Add", "Sub"):
        affine_norm(t[2], scale, acc)
        affine_norm(t[3], scale if t[1] == "Add" else -scale, acc)
        return acc
    acc[0][t] = acc[0].get(t, 0) + scale
    if acc[0][t] == 0:
        del acc[0][t]
    return acc


def affine_eq(a, b):
    x, y = affine_norm(a), affine_norm(b)
    return x[0] == y[0] and x[1] == y[1]


def affine_eq_norm(x, y):
    """equality of two affine normal forms ([coeffs, const])"""
    return dict(x[0]) == dict(y[0]) and x[1] % (1 << 64) == y[1] % (1 << 64)


def eval_term(t, env, path=None):
    """value of a term with every leaf given by env (a class representative); None when some part is not evaluable"""
    if t in env:
        return env[t]
    k = t[0]
    if k == "int":
        return t[1]
    if k == "w":
        return eval_term(t[1], env, path)
    if k == "cast":
        _, a, fb, fs, tb = t
        v = eval_term(a, env, path)
        if v is None:
            return None
        v &= (1 << fb) - 1
        if fs and (v >> (fb - 1)) & 1:
            v -= 1 << fb
        return v & ((1 << tb) - 1)
    if k == "un":
        v = eval_term(t[2], env, path)
        if v is None:
            return None
        bits = t[3] if len(t) > 3 else 64
        if t[1] == "Not":
            return (~v) & ((1 << bits) - 1)
        if t[1] == "Neg":
            return (-v) & ((1 << bits) - 1)
        return None
    if k == "bin":
        a, b = eval_term(t[2], env, path), eval_term(t[3], env, path)
        if a is None or b is None:
            return None
        signed = bool(path.tags.get(("signed", t))) if path is not None else False
        wa = A.width_of(t[2])
        if t[1] in A.CMP_OPS:
            if signed:
                a, b = A.to_signed(a, wa), A.to_signed(b, wa)
            return int({"Eq": a == b, "Ne": a != b, "Lt": a < b, "Le": a <= b, "Gt": a > b, "Ge": a >= b}[t[1]])
        return A.fold(t[1], a, b, wa, signed, t[4])
    if k == "index" and len(t) == 3 and isinstance(t[1], tuple) and t[1][0] == "agg" and t[1][1] == "array" and isinstance(t[2], tuple):
        i = eval_term(t[2], env, path)
        if i is None or i >= len(t[1][3]):
            return None
        return eval_term(t[1][3][i], env, path)
    if k == "ret" and t[1] in ("min", "max") and len(t[2]) == 2:
        a, b = eval_term(t[2][0], env, path), eval_term(t[2][1], env, path)
        if a is None or b is None:
            return None
        return min(a, b) if t[1] == "min" else max(a, b)
    return None


def cond_truth(c):
    """truth value (1 / 0) a recorded branch condition gives its boolean term, or None"""
    if len(c) < 3:
        return None
    if c[1] == "==" and c[2] in (0, 1):
        return c[2]
    if c[1] == "!=" and isinstance(c[2], (tuple, list)) and tuple(c[2]) == (0,):
        return 1
    if c[1] == "!=" and isinstance(c[2], (tuple, list)) and tuple(c[2]) == (1,):
        return 0
    return None
