"""C12 Hooks bracket the instruction, short-circuit, stop and fail cleanly.

C12.order      before-hooks complete before dispatch, dispatch before after-hooks; each runner started at most once per step;
               the hook set is looked up with the decoded instruction's mnemonic and both runners get that set and mnemonic
C12.propagate  a failing hook makes the step fail (and a failing before-hook prevents dispatch)
C12.chain      the vector the before/after registration API pushes to is the vector the runner iterates for that phase
C12.iterate    the runner walks the vector with a slice iterator, one call per element, leaving on Handled / finished / error
C12.pairing    every exit of the runner leaves hooks.running == false
C12.guard      registration (and built-in syscall registration) is refused while hooks.running
"""
from .. import absint as A
from .. import facts as F
from .. import hutil as U
from .. import prims as P
from .. import stepmodel as SM
from .rules_common import is_err

AXE = "axecutor::Axecutor"
HOOK = "state::hooks::Hook"
HOOKRESULT = "adt:state::hooks::HookResult"


def fieldnames(loc):
    return [p[2] for p in loc[1] if isinstance(p, tuple) and p[0] == "f"]


def lookup_key(ctx):
    """C12.lookup: an instruction handler that consults the hook table (SYSCALL, INT, INT1, INT3 insist on having hooks)
    looks up its *own* mnemonic: the key of every hook-table query made while handling a code of mnemonic M is the
    constant M (seeded change S80: INT3 asked for INT's hooks)."""
    PR = P
    ck, facts, O, D, hm = ctx.check, ctx.facts, ctx.oracle, ctx.dispatch, ctx.hmodel
    try:
        table_fn = ctx.roles.hook_roles()[3]
    except Exception:  # noqa
        table_fn = None
    n = 0
    for code, d in sorted(D.implemented().items()):
        if not hm.producible(code):
            continue
        mn = d["mnemonic"]
        h = facts.bodies[d.get("dispatcher") or d["handler"]]
        # only handlers whose cone mentions the hook table at all
        cone = C18_cone(facts, [d["handler"]])
        touches = any(
            (blk["term"]["k"] == "call" and (F.callee_name(blk["term"]) == table_fn)) or
            any(st[0] == "a" and st[2][0] == "ref" and any(isinstance(e, list) and e[0] == "f" and e[2] == "mnemonic_hooks" for e in st[2][2][1])
                for st in blk["s"])
            for k in cone for blk in facts.bodies[k]["blocks"])
        if not touches:
            continue
        keys = []
        for shape in hm.shapes(code):
            label, kinds, spec = shape
            pr = PR.HandlerPrims(facts, ctx.roles, spec, code=code, mnemonic=mn, opkinds=kinds)

            def icpt(I, path, frame, t, name, args, pr=pr, keys=keys):
                short = name.rsplit("::", 1)[1].split("::<")[0] if "::" in name else name
                key = None
                if name == table_fn and len(args) >= 2:
                    key = I._deref_all(path, args[1])
                elif "HashMap" in name and short in ("get", "contains_key", "get_mut", "index", "entry") and len(args) >= 2 and args[0][0] == "ref" and \
                        fieldnames(args[0][1])[-1:] == ["mnemonic_hooks"]:
                    key = I._deref_all(path, args[1])
                if key is not None:
                    keys.append(key)
                    p2 = path.copy()
                    if name == table_fn or short in ("get", "get_mut"):
                        return [(A.SOME(("hookset", key)), path), (A.NONE, p2)]
                    if short == "contains_key":
                        return [(A.INT(1, 8), path), (A.INT(0, 8), p2)]
                    return None
                return pr.intercept(I, path, frame, t, name, args)
            I = A.Interp(facts, intercept=icpt)
            list(I.run(h, [P.self_ref(), P.INSTR], A.Path()))
        if not keys:
            continue
        n += 1
        bad = None
        for key in keys:
            nm = None
            if key[0] == "agg" and str(key[1]).endswith("SupportedMnemonic"):
                ev = facts.enum_variant(str(key[1])[4:], key[2])
                nm = ev[0] if ev else None
            if nm != mn:
                bad = bad or "asks the hook table for %s while handling %s" % (nm or A.show(key)[:40], mn)
        inst = "Code=%s" % code
        if bad:
            ck.violation("C12.lookup", inst, bad, where=U.handler_where(facts, D, code),
                         what="whether the instruction executes depends on another mnemonic's hooks; its own hooks are not what brackets it")
        else:
            ck.ok("C12.lookup", inst, len(keys))
    ck.floor("handlers that consult the hook table", n, 4)


def C18_cone(facts, roots):
    from . import C18
    return C18.cone_of(facts, roots)


def run(ctx):
    order(ctx)
    runner(ctx)
    guard(ctx)
    lookup_key(ctx)


def order(ctx):
    ck, facts = ctx.check, ctx.facts
    outs, I, body = SM.run_step(ctx, hooks=True)
    where = "%s:%d (step)" % (body["span"][0], body["span"][1])
    bad = bad_prop = None
    n = 0
    for o in outs:
        if o.kind != "return":
            continue
        evs = o.path.events
        idx = lambda k: [i for i, e in enumerate(evs) if e[0] == k]
        rb, ra, d = idx("run_before"), idx("run_after"), idx("dispatch")
        look = idx("hook_lookup")
        some = any(e[0] == "hooks" and e[1] == "some" for e in evs)
        if not some:
            if rb or ra:
                bad = bad or "a hook runner starts although no hooks are registered for the mnemonic"
            continue
        n += 1
        if len(rb) > 1 or len(ra) > 1:
            bad = bad or "a hook runner is started %d/%d times in one step" % (len(rb), len(ra))
        if len(look) != 1 or evs[look[0]][1] != ("mnem", ("instr",)):
            bad = bad or "hook set looked up with %s" % (A.show(evs[look[0]][1]) if look else None)
        pb_done = [i for i, e in enumerate(evs) if e[0] == "poll_before" and e[1].startswith("ready")]
        pa_done = [i for i, e in enumerate(evs) if e[0] == "poll_after" and e[1].startswith("ready")]
        if d:
            if not rb or not pb_done or pb_done[0] > d[0]:
                bad = bad or "dispatch is not preceded by the completed before-hooks"
            if pb_done and evs[pb_done[0]][1] == "ready_err":
                bad_prop = bad_prop or "instruction dispatched although a before-hook failed"
            if ra and ra[0] < d[0]:
                bad = bad or "after-hooks start before dispatch"
        if ra and not d:
            bad = bad or "after-hooks run without a dispatch"
        for i in rb + ra:
            e = evs[i]
            hs_ = e[1]
            while hs_[0] in ("deref", "w") and isinstance(hs_[1], tuple):
                hs_ = hs_[1]  # the same hook set seen through a reference (`hooks.as_ref()`)
            if hs_ != ("hookset", ("mnem", ("instr",))) or e[2] != ("mnem", ("instr",)):
                bad = bad or "runner started with %s / %s" % (A.show(e[1]), A.show(e[2]))
        # propagation
        for i in pb_done + pa_done:
            if evs[i][1] == "ready_err" and not is_err(o):
                bad_prop = bad_prop or "a hook error is swallowed (%s)" % evs[i][0][5:]
        # a completed step (Ok) with hooks must have run both runners unless it returned early by error
        if not is_err(o) and d and not (ra and pa_done):
            bad = bad or "after-hooks skipped on a successful step"
    if n == 0:
        bad = bad or "no hooked path found"
    for rule, b in (("C12.order", bad), ("C12.propagate", bad_prop)):
        if b:
            ck.violation(rule, "api=step", b, where=where)
        else:
            ck.ok(rule, "api=step", n)
    ck.sample({"rule": "C12.order", "hooked_paths": n})
    ck.floor("hooked step paths", n, 30)


def run_async(ctx, fn_body, args, intercept, may_inline=None):
    """interpret an `async fn`: the parent builds the coroutine, then its body runs with that environment"""
    facts = ctx.facts
    I = A.Interp(facts, intercept=intercept,
                 may_inline=may_inline or (lambda n, b: (b["kind"] == "Closure" and not b.get("coroutine"))
                                           or (b.get("impl_trait") or "").startswith("std::convert::From<")))
    pouts = [o for o in I.run(fn_body, args, A.Path()) if o.kind == "return"]
    if len(pouts) != 1 or pouts[0].value[0] != "agg" or not pouts[0].value[1].startswith("coroutine:"):
        raise KeyError("async fn %s does not return its coroutine" % fn_body["name"])
    env = pouts[0].value
    cb = facts.bodies[env[1][len("coroutine:"):]]
    outs = list(I.run(cb, [env, ("resume_ctx",)], pouts[0].path))
    return outs, I, cb


def runner_inline(n, b):
    """closures, From impls and the private helpers of the hook module (a piece of the runner moved into a function)"""
    if b.get("coroutine"):
        return False
    return b["kind"] == "Closure" or (b.get("impl_trait") or "").startswith("std::convert::From<") or (
        n.startswith("state::hooks::") and b["vis"] != "pub")


def runner(ctx):
    ck, facts = ctx.check, ctx.facts
    try:
        rfp, rbp, rap, _mh, _em = ctx.roles.hook_roles()
        rf, rb, ra = facts.bodies[rfp], facts.bodies[rbp], facts.bodies[rap]
    except KeyError as e:
        ck.violation("C12.chain", "hook-runner", str(e))
        return
    where = "%s:%d (run_functions)" % (rf["span"][0], rf["span"][1])
    # ---- which constant do run_before / run_after pass?
    phase_const = {}
    for nm, b in (("before", rb), ("after", ra)):
        def icpt(I, path, frame, t, name, args):
            if name == rf["path"]:
                path.events.append(("runner_call", args[1]))
                return [(("future", "rf"), path)]
            if name.endswith("::into_future") or name.endswith("Pin::<Ptr>::new_unchecked"):
                return [(args[0], path)]
            if name == rf["path"] + "::{closure#0}":
                return [(("agg", SM.POLL, 0, (A.OK(A.UNIT),)), path)]
            return None
        try:
            outs, I, cb = run_async(ctx, b, [("hookref",), P.self_ref(True), ("mnem",)], icpt, may_inline=runner_inline)
        except KeyError as e:
            ck.violation("C12.chain", "runner=" + nm, str(e))
            continue
        vals = {e[1] for o in outs for e in o.path.events if e[0] == "runner_call"}
        if len(vals) == 1 and A.is_int(next(iter(vals))):
            phase_const[nm] = next(iter(vals))[1]
        else:
            ck.violation("C12.chain", "runner=" + nm, "passes %s to the runner" % [A.show(v) for v in vals])
    # ---- which vector does the runner iterate / how does it leave, per constant
    iterated = {}
    for bval in (1, 0):
        def icpt2(I, path, frame, t, name, args):
            short = name.rsplit("::", 1)[1] if "::" in name else name
            short = short.split("::<")[0]
            if short in ("deref", "as_slice", "as_ref", "borrow") and len(args) == 1 and ("Vec" in name or "slice" in name):
                return [(args[0], path)]  # a view of the same vector
            if short == "find_map" and len(args) == 2 and I._deref_all(path, args[0])[0] == "iter":
                # lazy search: one generic element is offered to the closure; Some(x) ends the search with x, None goes
                # on to the next element (recorded) and finally to an exhausted iterator
                outs_ = []
                p_none = path.copy()
                p_none.events.append(("next", "none"))
                outs_.append((A.NONE, p_none))
                path.events.append(("next", "some"))
                res = I._call_closure_value(path, frame, t, args[1], [("hookfn",)], frame.depth, "find_map")
                if res is None:
                    return None
                for o_ in res:
                    if o_.kind != "return":
                        outs_.append(("panic", o_.cls, o_.msg or "find_map closure", o_.path))
                        continue
                    for vi, payload, p3 in I.split_result(o_.path, o_.value, A.OPTION):
                        if vi == 1:
                            outs_.append((A.SOME(payload), p3))
                        else:
                            p3.events.append(("next", "continue"))
                            p3.events.append(("next", "none"))
                            outs_.append((A.NONE, p3))
                return outs_
            if short in ("into_iter", "iter") and args and ("slice" in name or "Vec" in name or "IntoIterator" in name or "[T]" in name):
                v = args[0]
                tgt = v
                if v[0] == "ref":
                    tgt = ("loc",) + (tuple(fieldnames(v[1])),)
                    inner = I.read_loc(path, v[1])
                    if inner[0] == "ref":
                        tgt = ("loc", tuple(fieldnames(inner[1])))
                path.events.append(("iterate", tgt, " ".join(t["f"].get("gargs", []))))
                return [(("iter", tgt), path)]
            if short == "next" and "Iterator" in (t["f"].get("def") or ""):
                p2 = path.copy()
                path.events.append(("next", "some"))
                p2.events.append(("next", "none"))
                return [(A.SOME(("hookfn",)), path), (A.NONE, p2)]
            return None
        I = A.Interp(facts, intercept=icpt2, may_inline=runner_inline)
        # Hook value: opaque struct behind a reference
        hookref = ("ref", (("H", "hook"), ()), False)
        try:
            pouts = [o for o in I.run(rf, [hookref, A.INT(bval, 8), P.self_ref(True), ("mnem",)], A.Path()) if o.kind == "return"]
            env = pouts[0].value
            cb = facts.bodies[env[1][len("coroutine:"):]]
            outs = list(I.run(cb, [env, ("resume_ctx",)], pouts[0].path))
        except (KeyError, IndexError) as e:
            ck.violation("C12.iterate", "hook-runner", "cannot interpret: %s" % e, where=where)
            return
        its = {e[1] for o in outs for e in o.path.events if e[0] == "iterate"}
        iterated[bval] = its
        rets = [o for o in outs if o.kind == "return"]
        # ---- pairing
        leaves_true = []
        for o in rets:
            st = [e for e in o.path.events if e[0] == "store" and fieldnames(e[1])[-1:] == ["running"]]
            if not st:
                leaves_true.append("no store to running")
                continue
            if not (A.is_int(st[0][2]) and st[0][2][1] == 1):
                leaves_true.append("first store is not `true`")
            last = st[-1][2]
            if not (A.is_int(last) and last[1] == 0):
                how = "error exit (`?` on the hook result)" if is_err(o) else "success exit"
                leaves_true.append(how)
        inst = "hook-runner,before=%d" % bval
        if leaves_true:
            ck.violation("C12.pairing", inst, "running stays set on: %s" % sorted(set(leaves_true))[0], where=where,
                         witness={"exits": sorted(set(leaves_true))},
                         what="hooks.running is left true after a failed hook: no hook can be registered afterwards")
        else:
            ck.ok("C12.pairing", inst, len(rets))
        # ---- iterate: calls per element, exits
        bad = None
        for o in rets:
            evs = o.path.events
            calls = [i for i, e in enumerate(evs) if e[0] in ("unknown_closure_call", "indirect_call")]
            nexts = [i for i, e in enumerate(evs) if e[0] == "next" and e[1] == "some"]
            widened = any(e[0] == "loop_widened" for e in evs)
            if not widened and len(calls) > len(nexts):
                bad = bad or "more hook calls than elements taken from the iterator"
        # exit conditions, per class of what the hook returned and whether execution finished meanwhile: the runner is
        # interpreted with the hook call answering Handled / Unhandled / Err and `finished` read afterwards as a constant
        HR = "state::hooks::HookResult"
        hv, uv = facts.enum_variant_by_name(HR, "Handled"), facts.enum_variant_by_name(HR, "Unhandled")
        FIN = ("field", ("field", ("init", "self", 0), "state"), "finished")
        for cls, val in (("Handled", A.OK(("agg", "adt:" + HR, hv[0], ()))), ("Unhandled", A.OK(("agg", "adt:" + HR, uv[0], ()))),
                         ("Err", A.ERR(("hook_error",)))):
            for fin in (0, 1):
                def icpt3(I, path, frame, t, name, args, val=val):
                    if (t["f"].get("def") or "").startswith("std::ops::Fn") and "dyn" in " ".join(t["f"].get("gargs", [])):
                        path.events.append(("hook_call",))
                        return [(val, path)]
                    return icpt2(I, path, frame, t, name, args)
                I3 = A.Interp(facts, intercept=icpt3, may_inline=runner_inline)
                I3.intercept_fn_calls = True
                p0 = A.Path()
                p0.assume = {FIN: [fin] + [0] * 7}
                try:
                    po = [o for o in I3.run(rf, [hookref, A.INT(bval, 8), P.self_ref(True), ("mnem",)], p0) if o.kind == "return"]
                    outs3 = list(I3.run(facts.bodies[po[0].value[1][len("coroutine:"):]], [po[0].value, ("resume_ctx",)], po[0].path))
                except (KeyError, IndexError) as e:
                    bad = bad or "cannot interpret the runner per class: %s" % e
                    continue
                for o in outs3:
                    if o.kind != "return":
                        continue
                    evs = o.path.events
                    ci = [i for i, e in enumerate(evs) if e[0] == "hook_call"]
                    if not ci:
                        continue
                    after = evs[ci[0] + 1:]
                    went_on = any(e[0] == "next" for e in after) or any(e[0] == "hook_call" for e in after)
                    if cls == "Err":
                        if went_on or not is_err(o):
                            bad = bad or "a failing hook does not end the chain with its error"
                    elif cls == "Handled" or fin:
                        if went_on:
                            bad = bad or "the chain goes on after %s" % ("Handled" if cls == "Handled" else "execution finished")
                        elif is_err(o):
                            bad = bad or "%s ends the chain with an error" % cls
                    else:
                        if not went_on and not any(e[0] == "loop_widened" for e in after):
                            bad = bad or "an Unhandled result ends the chain although execution goes on"
        if not any(e[0] == "iterate" for o in outs for e in o.path.events):
            bad = bad or "the runner does not iterate a Vec/slice"
        if bad:
            ck.violation("C12.iterate", inst, bad, where=where)
        else:
            ck.ok("C12.iterate", inst)
    # ---- registration APIs push to which vector?
    pushed = {}
    for nm, api in (("before", "hook_before_mnemonic_native"), ("after", "hook_after_mnemonic_native")):
        try:
            b = facts.method(AXE, api)
        except KeyError as e:
            ck.violation("C12.chain", "api=" + api, str(e))
            continue
        # the vector(s) a registration ends up pushing to: the API is interpreted (private helpers inline) and every
        # Vec::push / insert / extend on a field of a Hook record is collected
        fields = set()

        def icpt_reg(I, path, frame, t, name, args, fields=fields):
            short = name.rsplit("::", 1)[1].split("::<")[0] if "::" in name else name
            if short in ("push", "insert", "extend", "append", "push_back") and name.startswith("std::vec::Vec") and args and args[0][0] == "ref":
                fn = fieldnames(args[0][1])
                if fn:
                    fields.add(fn[-1])
                return [(A.UNIT, path)]
            return None
        try:
            Ir = A.Interp(facts, intercept=icpt_reg)
            rargs = [P.self_ref(True)] + [("param", i) for i in range(2, b["argc"] + 1)]
            list(Ir.run(b, rargs, A.Path()))
        except Exception as e:  # noqa
            fields.add("?%s" % e)
        if not fields:
            for blk in b["blocks"]:
                for st in blk["s"]:
                    if st[0] == "a" and st[2][0] == "ref" and st[2][1] == "mut":
                        fn = [e[2] for e in st[2][2][1] if isinstance(e, list) and e[0] == "f" and e[3] == HOOK]
                        if fn:
                            fields.add(fn[-1])
        pushed[nm] = fields
    for nm in ("before", "after"):
        inst = "phase=" + nm
        c = phase_const.get(nm)
        if c is None:
            continue
        its = iterated.get(c, set())
        itf = {x[1][-1] for x in its if x[0] == "loc" and x[1]}
        pf = pushed.get(nm, set())
        if len(itf) == 1 and itf == pf:
            ck.ok("C12.chain", inst)
        else:
            ck.violation("C12.chain", inst, "registration pushes to %s, runner(%s) iterates %s" % (sorted(pf), c, sorted(itf)),
                         where=where, what="hooks registered for one phase run in the other (or never)")
    if phase_const.get("before") == phase_const.get("after") and phase_const:
        ck.violation("C12.chain", "phase constants", "run_before and run_after pass the same selector")
    ck.floor("runner phases", len(phase_const), 2)


def guard(ctx):
    """bodies that mutate hooks.mnemonic_hooks, and handle_syscalls_impl: refuse while running"""
    ck, facts = ctx.check, ctx.facts
    targets = []
    for k, b in facts.bodies.items():
        if b["glue"] or b["kind"] == "Closure":
            continue
        mut = False
        for blk in b["blocks"]:
            for st in blk["s"]:
                if st[0] == "a" and st[2][0] == "ref" and st[2][1] == "mut":
                    fn = [(e[2], e[3]) for e in st[2][2][1] if isinstance(e, list) and e[0] == "f"]
                    if fn and fn[-1] == ("mnemonic_hooks", "state::hooks::HookProcessor"):
                        mut = True
        if mut:
            # judged at the functions the rest of the crate can call: a module-private helper holding the mutation is
            # reached through them (and interpreted inline there)
            from . import C10
            for ek in C10.push_entries(facts, k):
                if facts.bodies[ek] not in targets:
                    targets.append(facts.bodies[ek])
    try:
        hs = facts.method(AXE, "handle_syscalls_impl")
        if hs not in targets:
            targets.append(hs)
    except KeyError as e:
        ck.violation("C12.guard", "api=handle_syscalls_impl", str(e))
    RUNNING = ("field", ("field", ("init", "self", 0), "hooks"), "running")
    for b in targets:
        inst = "api=%s" % b["name"]
        where = "%s:%d" % (b["span"][0], b["span"][1])
        res = {}
        for val in (1, 0):
            def icpt(I, path, frame, t, name, args):
                if name in facts.bodies and facts.bodies[name].get("impl_self") == AXE and name != b["path"] \
                        and facts.bodies[name]["kind"] != "Closure":
                    l1 = facts.bodies[name]["locals"][1] if facts.bodies[name]["argc"] >= 1 else None
                    if isinstance(l1, list) and l1[0] == "ref" and not l1[1]:
                        return None  # a `&self` helper cannot mutate: interpreted like inline code (e.g. an extracted guard)
                    if facts.bodies[name]["vis"] != "pub":
                        return None  # a private helper of the registration function: its effects are judged inline
                    path.events.append(("crate_call", name))
                    p2 = path.copy()
                    return [(A.OK(A.UNIT), path), (A.ERR(("e",)), p2)]
                return None
            I = A.Interp(facts, intercept=icpt)
            path = A.Path()
            path.assume = {RUNNING: [val] + [0] * 7}
            args = [P.self_ref(True)] + [("arg%d" % i,) for i in range(1, b["argc"])]
            outs = list(I.run(b, args, path))
            effects = [o for o in outs if any(e[0] in ("mutcall", "crate_call") or (e[0] == "store") for e in o.path.events)]
            oks = [o for o in outs if o.kind == "return" and not is_err(o)]
            res[val] = (bool(effects), bool(oks), len(outs))
        if res[1][0] or res[1][1]:
            ck.violation("C12.guard", inst, "while hooks are running: %s" % ("mutates hook/syscall state" if res[1][0] else "returns Ok"),
                         where=where, what="registration is possible from inside a running hook")
        elif not res[0][1]:
            ck.violation("C12.guard", inst, "never succeeds even when no hook is running", where=where)
        else:
            ck.ok("C12.guard", inst)
    ck.floor("guarded registration functions", len(targets), 3)
