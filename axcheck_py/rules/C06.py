"""C06 A step fails exactly when the real CPU would fault (guard structure; no shape/count dependent aborts).

C06.divzero   every Div/Rem in a DIV/IDIV handler is preceded by `divisor == 0 -> Err`
C06.quotient  per class of the quotient (fits / too large; IDIV: fits / above / below) -- and, for DIV r/m16/32/64, of the
              high half of the dividend against the divisor (hi<d / hi=d / hi>d) -- the handler is interpreted with every
              comparison over the quotient or over (hi, d) answered by the class: a fitting quotient has a success
              path, a quotient that does not fit has none. Independent of how the handler spells its range test.
C06.mem       a failing guest memory access makes the handler return that error (every handler, every shape)
C06.align     16-byte memory operands of alignment-checking SSE forms test `addr & 0xf` and can fail
C06.spurious  no abort (panic / failed assertion / overflow check) for a legal operand value: operand-shape aborts,
              value-dependent aborts in result closures, and -- exhaustively -- every shift count 0..255
"""
from .. import absint as A
from .. import facts as F
from .. import flags as FL
from .. import hmodel as H
from .. import hutil as U
from .. import panics as PN
from .. import prims as P
from .rules_common import is_err

UNALIGNED_OK = ("Movups", "Movupd", "Movdqu", "Lddqu", "Movd", "Movq", "Movss", "Movsd")
OS_MNEMONICS = ("Syscall", "Int", "Int1", "Int3", "Cpuid")
QUICK_COUNTS = (0, 1, 2, 3, 7, 8, 9, 15, 16, 17, 31, 32, 33, 40, 63, 64, 65, 96, 127, 128, 129, 255)


def guest_tainted(x):
    return x[0] in ("reg", "mem", "opimm", "membytes") or (x[0] == "ret" and "immediate" in x[1])


def run(ctx):
    div(ctx)
    mem_and_spurious(ctx)
    align(ctx)
    shift_counts(ctx)


# --------------------------------------------------------------------------- DIV / IDIV

def div(ctx):
    ck, facts, O, D, hm = ctx.check, ctx.facts, ctx.oracle, ctx.dispatch, ctx.hmodel
    codes = sorted(c for c in D.implemented() if O["codes"][c]["mnemonic"] in ("Div", "Idiv") and hm.producible(c))
    for code in codes:
        oc = O["codes"][code]
        where = U.handler_where(facts, D, code)
        for shape in hm.shapes(code):
            inst = "Code=%s/%s" % (code, shape[0])
            outs, I = hm.run(code, shape)
            rets = [o for o in outs if o.kind == "return"]
            zbad = qbad = None
            zero_err = False
            ndiv = 0
            for o in rets:
                divs = [e for e in o.path.events if e[0] == "divop"]
                und = [e for e in o.path.events if e[0] == "assert" and e[1] in ("DivisionByZero", "RemainderByZero")]
                if und:
                    zbad = zbad or "division not guarded by a zero test of the divisor"
                for c in o.path.conds:
                    t = c[0]
                    if is_err(o) and t[0] == "bin" and t[1] == "Eq" and A.is_int(t[3]) and t[3][1] == 0 \
                            and ((c[2] == 1) if c[1] == "==" else True):
                        zero_err = True
                if not divs:
                    continue
                ndiv += 1
                # quotient range
                width = {"r8_or_mem": 8, "r16_or_mem": 16, "r32_or_mem": 32, "r64_or_mem": 64}[oc["kinds"][0]]
                qterms = [("bin", "Div", e[2], e[3], e[4]) for e in divs if e[1] == "Div"]
                tested = False
                for q in qterms:
                    for c in o.path.conds:
                        if H.mentions(c[0], q):
                            tested = True
                narrowed = False
                for e in o.path.events:
                    if e[0] == "reg_write":
                        v = e[3]
                        for q in qterms:
                            if H.mentions(v, q) and A.width_of(q) > width:
                                narrowed = True
                if narrowed and not tested and not is_err(o):
                    pass  # decided per class below (quotient_classes)
            qbad = quotient_classes(ctx, code, shape, oc)
            if ndiv == 0:
                zbad = zbad or "no division found"
            if not zero_err:
                zbad = zbad or "no error path for a zero divisor"
            if zbad:
                ck.violation("C06.divzero", inst, zbad, where=where)
            else:
                ck.ok("C06.divzero", inst)
            if qbad:
                ck.violation("C06.quotient", inst, qbad, where=where,
                             what="a quotient that does not fit must raise a divide error, it is silently truncated")
            else:
                ck.ok("C06.quotient", inst)
    ck.floor("DIV/IDIV forms", len(codes), 8)


HI_REG = {16: "DX", 32: "EDX", 64: "RDX"}


def quotient_classes(ctx, code, shape, oc):
    from . import C01
    facts, hm = ctx.facts, ctx.hmodel
    N = {"r8_or_mem": 8, "r16_or_mem": 16, "r32_or_mem": 32, "r64_or_mem": 64}[oc["kinds"][0]]
    signed_q = oc["mnemonic"] == "Idiv"
    if signed_q:
        classes = [("quotient fits", (-(1 << (N - 1)), (1 << (N - 1)) - 1), None, True),
                   ("quotient above the signed range", (1 << (N - 1), (1 << (2 * N - 1)) - 1), None, False),
                   ("quotient below the signed range", (-(1 << (2 * N - 1)), -(1 << (N - 1)) - 1), None, False)]
    else:
        fits, over = (0, (1 << N) - 1), (1 << N, (1 << (2 * N)) - 1)
        if N == 8:
            classes = [("quotient fits", fits, None, True), ("quotient too large", over, None, False)]
        else:
            classes = [("quotient fits (hi<d)", fits, {"hi": 0, "d": 1}, True),
                       ("quotient too large (hi=d)", over, {"hi": 1, "d": 1}, False),
                       ("quotient too large (hi>d)", over, {"hi": 2, "d": 1}, False)]

    # boundary points and halves of each class (an off-by-one or a too-strict range test shows up there)
    extra = []
    for cname, iv, ranks, want in classes:
        pts = {iv[0], iv[1]} if want else {iv[0] if iv[0] > 0 else iv[1]}
        for v in sorted(pts):
            extra.append(("%s, quotient = %#x" % (cname, v), (v, v), ranks, want))
        if want:
            mid = (iv[0] + iv[1] + 1) // 2
            extra.append(("%s, lower half" % cname, (iv[0], mid - 1), ranks, want))
            extra.append(("%s, upper half" % cname, (mid, iv[1]), ranks, want))
    classes = classes + extra

    def role(t, path=None):
        t = U.strip(t)
        if t[0] == "reg":
            if C01.operand_of_leaf(facts, t) == 0:
                return "d"
            if N > 8 and U.reg_name(facts, t[2]) == HI_REG[N] and t[1] == N:
                return "hi"
        if t[0] == "mem" and C01.operand_of_leaf(facts, t) == 0:
            return "d"
        if t[0] in ("bin", "cast") and path is not None and N > 8:
            # bit provenance: a term whose bits are exactly those of the high-half register (e.g. dividend >> N)
            bv = A.bitvec(t, path)
            srcs = {b_[0] for b_ in bv[:N] if isinstance(b_, tuple)}
            if len(srcs) == 1 and all(isinstance(bv[i], tuple) and bv[i][1] == i and not bv[i][2] for i in range(N)) \
                    and all(b_ == 0 for b_ in bv[N:]):
                src = U.strip(list(srcs)[0])
                if src[0] == "reg" and U.reg_name(facts, src[2]) == HI_REG[N] and src[1] == N:
                    return "hi"
        return None

    def interval(path, t, sg, iv):
        """mathematical value range of t read as signed (sg) or unsigned, or None"""
        if A.is_int(t):
            w = A.width_of(t)
            v = t[1] & ((1 << w) - 1)
            if sg and v >> (w - 1):
                v -= 1 << w
            return (v, v)
        if t[0] == "bin" and t[1] == "Div":
            if sg == signed_q or iv[0] >= 0:
                return iv if (sg == signed_q or iv[1] < (1 << (A.width_of(t) - 1))) else None
            return None
        if t[0] == "w":
            return interval(path, t[1], sg, iv)
        if t[0] == "cast":
            _, a, fb, fs, tb = t
            r = interval(path, a, bool(fs), iv)
            if r is None:
                return None
            lim = min(fb, tb)
            if 0 <= r[0] and r[1] < (1 << (lim - 1)):
                return r
            if tb >= fb and bool(fs) == sg:
                return r
            return None
        if t[0] == "bin" and t[1] in ("Shr", "ShrUnchecked") and A.is_int(t[3]):
            r = interval(path, t[2], sg, iv)
            if r is not None and r[0] >= 0:
                return (r[0] >> t[3][1], r[1] >> t[3][1])
        return None

    bad = None
    for cname, iv, ranks, want_success in classes:
        def oracle(path, op, a, b, iv=iv, ranks=ranks):
            if ranks is not None:
                ra, rb = role(a, path), role(b, path)
                if ra is not None and rb is not None:
                    x, y = ranks[ra], ranks[rb]
                    return int({"Eq": x == y, "Ne": x != y, "Lt": x < y, "Le": x <= y, "Gt": x > y, "Ge": x >= y}[op])
            if not (H.mentions_op(a, "Div") or H.mentions_op(b, "Div")):
                return None
            sg = bool(path.tags.get(("signed", ("bin", op, a, b, 8))))
            ia, ib = interval(path, a, sg, iv), interval(path, b, sg, iv)
            if ia is None or ib is None:
                return None
            if op == "Lt":
                return 1 if ia[1] < ib[0] else 0 if ia[0] >= ib[1] else None
            if op == "Le":
                return 1 if ia[1] <= ib[0] else 0 if ia[0] > ib[1] else None
            if op == "Gt":
                return 1 if ia[0] > ib[1] else 0 if ia[1] <= ib[0] else None
            if op == "Ge":
                return 1 if ia[0] >= ib[1] else 0 if ia[1] < ib[0] else None
            if op in ("Eq", "Ne"):
                if ia[1] < ib[0] or ib[1] < ia[0]:
                    return int(op == "Ne")
            return None
        outs, I = hm.run(code, shape, cmp_oracle=oracle)
        ok = [o for o in outs if o.kind == "return" and not is_err(o) and any(e[0] == "divop" for e in o.path.events)]
        ctx.check.cov["quotient_class_runs"] = ctx.check.cov.get("quotient_class_runs", 0) + 1
        if want_success and not ok:
            bad = bad or "%s: no success path (a legal division is refused)" % cname
        if not want_success and ok:
            bad = bad or "%s: the step succeeds (the quotient is truncated), the CPU raises #DE" % cname
    return bad


# --------------------------------------------------------------------------- memory faults, spurious aborts

def mem_and_spurious(ctx):
    ck, facts, O, D, hm = ctx.check, ctx.facts, ctx.oracle, ctx.dispatch, ctx.hmodel
    n = nmem = 0
    partial = 0
    for code in sorted(D.implemented()):
        oc = O["codes"][code]
        if not hm.producible(code) or oc["mnemonic"] in OS_MNEMONICS:
            continue
        where = U.handler_where(facts, D, code)
        shapes = hm.shapes(code)
        for shape in shapes:
            inst = "Code=%s/%s" % (code, shape[0]) if len(shapes) > 1 else "Code=%s" % code
            outs, I = hm.run(code, shape, mem_fail_paths=True)
            n += 1
            # ---- faults propagate
            bad = None
            had_fault = False
            for o in outs:
                fl = [i for i, e in enumerate(o.path.events) if e[0] == "mem_fault"]
                if not fl:
                    continue
                had_fault = True
                if o.kind == "return" and not is_err(o):
                    bad = bad or "memory fault ignored: handler returns Ok"
                elif o.kind == "panic" and o.cls != "D":
                    bad = bad or "memory fault turns into a %s abort" % o.cls
                later = [e for e in o.path.events[fl[0]:] if e[0] in ("reg_write", "mem_write", "set_flags")]
                if later:
                    bad = bad or "handler keeps going after a failed access (%s)" % U.show_event(facts, later[0])
                if [e for e in o.path.events[:fl[0]] if e[0] in ("reg_write", "set_flags", "mem_write")]:
                    partial += 1
            if had_fault:
                nmem += 1
                if bad:
                    ck.violation("C06.mem", inst, bad, where=where, what="a faulting access must make the step fail")
                else:
                    ck.ok("C06.mem", inst)
            # ---- value dependent aborts
            rets = [o for o in outs if o.kind == "return" and not is_err(o)]
            if not rets:
                continue  # shape rejected outright: C01.operands
            reported = {}
            shiftform = oc["mnemonic"] in ("Shl", "Shr", "Sar", "Sal") and ("imm8" in oc["kinds"] or "cl" in oc["kinds"])
            for o in outs:
                if shiftform:
                    break
                if o.kind == "panic" and o.cls in ("X", "D", "DA") and not any(e[0] == "mem_fault" for e in o.path.events):
                    cond = abort_condition(facts, o)
                    key = "%s abort (%s) when %s" % (o.cls, short_msg(o.msg), cond)
                    reported.setdefault(key, o)
                if o.kind in ("return", "panic"):
                    for ev, verdict, reason in PN.triage(o.path, guest_tainted):
                        if verdict == "reported" and "{closure" in ev[5]:
                            reported.setdefault(PN.describe(ev) + " unchecked", o)
            if reported:
                for key, o in sorted(reported.items()):
                    ck.violation("C06.spurious", inst, key, where=o.site or where,
                                 what="a legal operand value aborts the emulator instead of completing")
            else:
                ck.ok("C06.spurious", inst)
    ck.cov["handler_shapes"] = n
    ck.cov["shapes_with_memory_access"] = nmem
    ck.cov["fault_paths_with_partial_effects_before_fault"] = partial
    ck.floor("handler shapes", n, 490)
    ck.floor("shapes with memory access", nmem, 200)


def is_shift_count_site(oc):
    return False


def short_msg(m):
    m = m or ""
    for k in ("assert_ne", "assert_eq", "assert", "panic", "unreachable", "unwrap", "expect", "fatal_error"):
        if k in m:
            return k
    return m[:30]


def abort_condition(facts, o):
    """the last guest-value condition on the path, rendered"""
    for t, op, val in reversed(o.path.conds):
        lv = H.leaves(t)
        if any(guest_tainted(x) for x in lv):
            s = A.show(U.strip(t) if t[0] != "bin" else t)
            s = s.replace("(opimm1 as u8)", "imm8").replace("opimm1", "imm")
            return "%s %s %s" % (s[:70], op, val if not isinstance(val, tuple) else list(val))
    return "?"


# --------------------------------------------------------------------------- alignment

def align(ctx):
    ck, facts, O, D, hm = ctx.check, ctx.facts, ctx.oracle, ctx.dispatch, ctx.hmodel
    n = 0
    for code in sorted(D.implemented()):
        oc = O["codes"][code]
        if not hm.producible(code) or oc["mem_size_bytes"] != 16 or "mem" not in oc["inst"]:
            continue
        if oc["mnemonic"] in UNALIGNED_OK:
            continue
        n += 1
        where = U.handler_where(facts, D, code)
        shape = [s for s in hm.shapes(code) if s[0] == "mem"][0]
        # the address term of the memory operand, from a plain run
        outs, I = hm.run(code, shape)
        addrs = set()
        for o in outs:
            for e in o.path.events:
                if e[0] in ("mem_read", "mem_write") and e[1] == 128:
                    addrs.add(e[2])
        inst = "Code=%s" % code
        if len(addrs) != 1:
            ck.violation("C06.align", inst, "%d distinct 128-bit access addresses" % len(addrs), where=where)
            continue
        addr = list(addrs)[0]
        inner = addr[1] if addr[0] == "w" else addr
        bad = None
        # per class of the address modulo 16: the low four bits are assumed, every test on them is decided
        for r in range(16):
            bits = [(r >> i) & 1 for i in range(4)] + [(inner, i, False) for i in range(4, 64)]
            outs, I = hm.run(code, shape, assume={inner: bits})
            ok_ = [o for o in outs if o.kind == "return" and not is_err(o) and
                   any(e[0] in ("mem_read", "mem_write") and e[1] == 128 for e in o.path.events)]
            err_ = [o for o in outs if o.kind == "return" and is_err(o)]
            if r == 0 and not ok_:
                bad = bad or "an aligned operand has no success path"
            if r != 0 and ok_:
                bad = bad or "address = %d (mod 16): the access succeeds, the CPU raises #GP" % r
            if r != 0 and not err_ and not ok_:
                bad = bad or "address = %d (mod 16): neither success nor error" % r
        if bad:
            ck.violation("C06.align", inst, bad, where=where,
                         what="a misaligned 128-bit operand of an alignment-checking instruction must fault")
        else:
            ck.ok("C06.align", inst, 16)
    ck.cov["aligned_sse_forms"] = n


# --------------------------------------------------------------------------- shift counts, exhaustively

def shift_counts(ctx):
    """aborts found by the exhaustive count sweep (shiftsweep.py): all 256 counts x every shift form/shape"""
    from .. import shiftsweep as SS
    ck, facts, D = ctx.check, ctx.facts, ctx.dispatch
    res = SS.sweep(ctx)
    for form, r in sorted(res["forms"].items()):
        code = form.split("/")[0]
        where = U.handler_where(facts, D, code)
        if r["aborts"]:
            for desc, cs in sorted(r["aborts"].items()):
                ck.violation("C06.spurious", "Code=" + form, "%s for shift counts %s" % (desc, SS.compress(cs)), where=where,
                             witness={"counts": cs},
                             what="a legal shift count aborts the emulator (hardware masks the count and completes)")
        else:
            ck.ok("C06.spurious", "Code=%s,counts" % form, 256)
    ck.cov["shift_count_evaluations"] = res["evaluations"]
    ck.cov["shift_counts_exhaustive"] = True
    ck.floor("shift forms x shapes", len(res["forms"]), 32)
