"""C01 Instruction results match hardware (structural necessary conditions); the form set does not shrink.

C01.forms     implemented set >= frozen reference; sibling tables agree (enum, TryFrom, dispatch; discriminants = iced)
C01.operands  every decoder-producible operand shape has a success path in the bound handler
C01.access    operand 0 / implicit registers are written iff the architecture writes them; nothing else is
C01.width     accessor widths used on operands and fixed registers equal the architectural operand sizes
C01.cond      CMOVcc / SETcc act exactly under the architectural condition (64 flag classes)
C01.writes    non-control-flow handlers touch only registers, memory and flags
C01.imm       the operand builder's immediate table (source accessor, size) matches the OpKind
C01.count     shift forms mask the count with 0x1f / 0x3f as the operand size requires
C01.extend    widening forms extend with the architectural kind (zero / sign)
"""
from .. import absint as A
from .. import facts as F
from .. import hmodel as H
from .. import hutil as U
from .. import prims as P

CONTROL_FLOWS = ("ConditionalBranch", "UnconditionalBranch", "IndirectBranch", "Call", "IndirectCall", "Return")
OS_MNEMONICS = ("Syscall", "Int", "Int1", "Int3", "Cpuid")
STACK_MNEMONICS = ("Push", "Pop")
WRITE_ACC = ("Write", "ReadWrite", "CondWrite", "ReadCondWrite")
MUST_WRITE_ACC = ("Write", "ReadWrite")

KIND_BITS = {
    "r8_or_mem": 8, "r16_or_mem": 16, "r32_or_mem": 32, "r64_or_mem": 64, "xmm_or_mem": 128,
    "r8_reg": 8, "r16_reg": 16, "r32_reg": 32, "r64_reg": 64, "xmm_reg": 128,
    "r8_opcode": 8, "r16_opcode": 16, "r32_opcode": 32, "r64_opcode": 64,
    "r16_rm": 16, "r32_rm": 32, "r64_rm": 64, "xmm_rm": 128,
    "al": 8, "cl": 8, "ax": 16, "dx": 16, "eax": 32, "rax": 64,
}

# the registers tools/axoracle picks for explicit operands (and the memory base)
EXPLICIT_FULL = ("R8", "R9", "R10", "R11", "R12", "ZMM8", "ZMM9", "ZMM10", "ZMM11", "MM1", "MM2", "MM3", "MM4")
FIXED_KIND_REG = {"al": "AL", "ax": "AX", "eax": "EAX", "rax": "RAX", "cl": "CL", "dx": "DX"}

IMM_TABLE = {
    "Immediate8": ("immediate8", 1), "Immediate8_2nd": ("immediate8_2nd", 1), "Immediate16": ("immediate16", 2),
    "Immediate32": ("immediate32", 4), "Immediate64": ("immediate64", 8), "Immediate8to16": ("immediate8to16", 2),
    "Immediate8to32": ("immediate8to32", 4), "Immediate8to64": ("immediate8to64", 8),
    "Immediate32to64": ("immediate32to64", 8),
}


def is_err(o):
    v = o.value
    return v is not None and v[0] == "agg" and v[1] == A.RESULT and v[2] == 1


def role_of_panic(o):
    """stable description of where a path aborted: the innermost body's role (trait impl / fn name)"""
    top = (o.stack or ["?"])[0]
    return top.split("::{closure")[0]


def run(ctx):
    forms(ctx)
    tables(ctx)
    dispatch_purity(ctx)
    handlers(ctx)
    imm_table(ctx)
    shift_amount(ctx)
    ring(ctx)


def dispatch_purity(ctx):
    """C01.dispatch: for every mnemonic the top-level function is interpreted with `i.mnemonic()` as that constant: every
    path makes exactly one call -- to the dispatcher bound to it --, returns that call's result and touches no machine
    state itself (the step model treats the top-level function as one primitive, so code in front of its `match` would
    escape every analysis). At the second level the handler analyses themselves start at the mnemonic's dispatcher with
    `i.code()` as the constant, so whatever a dispatcher does around the handler call is judged as part of the
    instruction; here only the binding is checked: every success path calls exactly the handler bound to the Code."""
    ck, facts, O, D, hm = ctx.check, ctx.facts, ctx.oracle, ctx.dispatch, ctx.hmodel
    handlers_ = {d["handler"] for d in D.codes.values() if d["handler"]}
    dispatchers = {d for d in D.mnemonics.values() if d}
    EFFECTS = ("reg_read", "reg_write", "mem_read", "mem_write", "set_flags", "store", "mutcall", "operand", "mem_addr", "trace")

    def judge(outs, expect, what):
        bad = None
        for o in outs:
            if o.kind == "panic":
                if o.cls not in ("D", "DA"):
                    bad = bad or "%s abort before dispatch (%s)" % (o.cls, o.msg)
                continue
            if o.kind != "return":
                continue
            calls = [e for e in o.path.events if e[0] == "dispatch_call"]
            eff = [e for e in o.path.events if e[0] in EFFECTS]
            if eff and what != "dispatcher":
                bad = bad or "the %s itself touches machine state (%s)" % (what, eff[0][0])
            if what == "dispatcher":
                # early exits around the handler are the handler analyses' business; the binding must be right
                if len(calls) > 1 or (calls and calls[0][1] != expect):
                    bad = bad or "dispatches to %s" % ", ".join(c[1].rsplit("::", 1)[1] for c in calls)
                continue
            if len(calls) != 1:
                bad = bad or "a path returns after %d dispatch calls" % len(calls)
            elif calls[0][1] != expect:
                bad = bad or "dispatches to %s" % calls[0][1].rsplit("::", 1)[1]
            elif o.value != calls[0][2]:
                bad = bad or "does not return the result of the call it dispatched to"
        return bad
    n = 0
    for code in sorted(D.implemented()):
        d = D.codes[code]
        if not hm.producible(code):
            continue
        db = facts.bodies[d["dispatcher"]]
        shape = hm.shapes(code)[0]
        pr = P.HandlerPrims(facts, ctx.roles, shape[2], code=code, mnemonic=d["mnemonic"], opkinds=shape[1])

        def icpt(I, path, frame, t, name, args, pr=pr):
            if name in handlers_:
                p2 = path.copy()
                k = len(path.events)
                v1, v2 = A.OK(("handler_ok", k)), A.ERR(("handler_err", k))
                path.events.append(("dispatch_call", name, v1))
                p2.events.append(("dispatch_call", name, v2))
                return [(v1, path), (v2, p2)]
            return pr.intercept(I, path, frame, t, name, args)
        I = A.Interp(facts, intercept=icpt)
        outs = list(I.run(db, [P.self_ref(), P.INSTR], A.Path()))
        bad = judge(outs, d["handler"], "dispatcher")
        n += 1
        if bad:
            ck.violation("C01.dispatch", "Code=%s" % code, bad, where="%s:%d (%s)" % (db["span"][0], db["span"][1], db["name"]),
                         what="work done outside the handler: the instruction's behaviour is no longer what its handler computes")
        else:
            ck.ok("C01.dispatch", "Code=%s" % code)
    top = D.top
    for mname, disp in sorted(D.mnemonics.items()):
        if not disp or disp not in facts.bodies:
            continue
        pr = P.HandlerPrims(facts, ctx.roles, (), code=None, mnemonic=mname, opkinds=())

        def icpt2(I, path, frame, t, name, args, pr=pr):
            if name in dispatchers:
                p2 = path.copy()
                k = len(path.events)
                v1, v2 = A.OK(("handler_ok", k)), A.ERR(("handler_err", k))
                path.events.append(("dispatch_call", name, v1))
                p2.events.append(("dispatch_call", name, v2))
                return [(v1, path), (v2, p2)]
            return pr.intercept(I, path, frame, t, name, args)
        I = A.Interp(facts, intercept=icpt2)
        outs = list(I.run(top, [P.self_ref(), P.INSTR], A.Path()))
        bad = judge(outs, disp, "top-level dispatcher")
        n += 1
        if bad:
            ck.violation("C01.dispatch", "Mnemonic=%s" % mname, bad, where="%s:%d (%s)" % (top["span"][0], top["span"][1], top["name"]))
        else:
            ck.ok("C01.dispatch", "Mnemonic=%s" % mname)
    ck.floor("dispatch instances", n, 360)


# architectural results of the ring-operation forms, modulo 2^K (d = destination operand, s = source, c = carry in)
RING_REF = {
    "Add": lambda d, s, c: d + s, "Sub": lambda d, s, c: d - s, "And": lambda d, s, c: d & s, "Or": lambda d, s, c: d | s,
    "Xor": lambda d, s, c: d ^ s, "Adc": lambda d, s, c: d + s + c, "Sbb": lambda d, s, c: d - s - c,
    "Inc": lambda d, s, c: d + 1, "Dec": lambda d, s, c: d - 1, "Neg": lambda d, s, c: -d, "Not": lambda d, s, c: ~d,
    "Mov": lambda d, s, c: s, "Movzx": lambda d, s, c: s, "Movsxd": lambda d, s, c: s, "Movsx": lambda d, s, c: s,
    "Movups": lambda d, s, c: s, "Movd": lambda d, s, c: s, "Movq": lambda d, s, c: s, "Xorps": lambda d, s, c: d ^ s,
    "Imul": lambda d, s, c: d * s,
}
UNARY = ("Inc", "Dec", "Neg", "Not")


def operand_of_leaf(facts, x):
    """operand index a value leaf belongs to, or None"""
    if x[0] == "reg":
        r = x[2]
        if r[0] == "opreg":
            return r[1]
        return None
    if x[0] == "mem":
        a = U.strip(x[2])
        if a[0] == "addr":
            m_ = a[1]
            if m_[0] == "opmem":
                return m_[1]
            if m_[0] == "agg":
                for sub in H.leaves(m_):
                    if sub[0] == "field" and sub[1][0] == "opmem":
                        return sub[1][1]
        return None
    if x[0] == "opimm":
        return x[1]
    return None


def write_elided_unchanged(facts, o, label, width):
    """A success path without a write to operand 0 is equivalent to one with the write iff the value that would be
    written is the operand's own entry value: the result the path hands to the flag setter is the unmodified read of
    operand 0 at the operand's width. Never for a 32-bit register destination (the write is what clears bits 63:32)."""
    if width is None or (label == "reg" and width == 32):
        return False
    sf = [e for e in o.path.events if e[0] == "set_flags"]
    if not sf or sf[-1][1] != width:
        return False
    t = sf[-1][4]
    while True:
        if t[0] == "w" and t[2] >= width:
            t = t[1]
        elif t[0] == "cast" and t[2] >= width and t[4] >= width:
            t = t[1]
        else:
            break
    return t[0] in ("reg", "mem") and t[1] == width and operand_of_leaf(facts, t) == 0 and (len(t) < 4 or t[3] == 0)


def ring(ctx):
    """C01.ring: for the ring-operation forms the written value is congruent to the architectural result modulo 2^K for
    every residue of the operands (congruence abstraction; decides the low K bits of the result for all operand values)."""
    from .. import congruence as CG
    ck, facts, O, D, hm = ctx.check, ctx.facts, ctx.oracle, ctx.dispatch, ctx.hmodel
    impl = D.implemented()
    n = und = 0
    for code in sorted(impl):
        oc = O["codes"][code]
        mn = oc["mnemonic"]
        if mn not in RING_REF or not hm.producible(code):
            continue
        nops = len(oc["kinds"])
        if mn == "Imul" and nops == 1:
            continue
        ref = RING_REF[mn]
        where = U.handler_where(facts, D, code)
        for shape in hm.shapes(code):
            inst = "Code=%s/%s" % (code, shape[0])
            classes = [{"CF": 0}, {"CF": 1}] if mn in ("Adc", "Sbb") else [None]
            bad = None
            decided = 0
            why_und = None
            for cls in classes:
                outs, I = hm.run(code, shape, flags=cls)
                rets = [o for o in outs if o.kind == "return" and not is_err(o)]
                for o in rets:
                    ws = [e for e in o.path.events if (e[0] == "reg_write" and U.reg_name(facts, e[2]) == "op0")
                          or (e[0] == "mem_write" and e[1] != "bytes" and operand_of_leaf(facts, ("mem", 0, e[2], 0)) == 0)]
                    if len(ws) != 1:
                        continue
                    v = ws[0][3]
                    lv = [x for x in H.leaves(v) if x[0] in ("reg", "mem", "opimm")]
                    roles = {}
                    okl = True
                    for x in lv:
                        k = operand_of_leaf(facts, x)
                        if k is None:
                            okl = False
                        roles[x] = k
                    if not okl:
                        why_und = "value depends on a non-operand leaf"
                        continue
                    # Paths whose conditions constrain the operand values cannot be enumerated over all residues --
                    # unless every success path of this shape writes the very same value term (the conditions then only
                    # select flag outcomes): whatever path is taken, that term is what gets written.
                    if any(any(H.mentions(c[0], x) for x in lv) for c in o.path.conds):
                        allv = set()
                        for o2 in rets:
                            w2 = [e for e in o2.path.events if (e[0] == "reg_write" and U.reg_name(facts, e[2]) == "op0")
                                  or (e[0] == "mem_write" and e[1] != "bytes" and operand_of_leaf(facts, ("mem", 0, e[2], 0)) == 0)]
                            allv.add(w2[0][3] if len(w2) == 1 else None)
                        if allv != {v}:
                            why_und = "data-dependent value (%d distinct terms)" % len(allv)
                            continue
                    src_idx = 1 if nops >= 2 else 0
                    if mn == "Imul" and nops == 3:
                        src_idx = None
                    try:
                        for a in range(CG.MOD):
                            for b in range(CG.MOD):
                                for c3 in (range(CG.MOD) if (mn == "Imul" and nops == 3) else (0,)):
                                    env = {}
                                    for x, k in roles.items():
                                        val = a if k == 0 else (b if k == 1 else c3)
                                        env[x] = val
                                        env[A.W(x, 64)] = val
                                    got = CG.eval_mod(v, env, I, o.path)
                                    cin = cls["CF"] if cls else 0
                                    if mn == "Imul" and nops == 3:
                                        want = (b * c3) % CG.MOD
                                    elif mn in UNARY:
                                        want = ref(a, 0, cin) % CG.MOD
                                    else:
                                        want = ref(a, b, cin) % CG.MOD
                                    if got != want:
                                        bad = bad or "result = %d (mod %d) for d=%d s=%d%s, architecture %d" % (
                                            got, CG.MOD, a, b, (" cf=%d" % cin) if cls else "", want)
                                        raise StopIteration
                        decided += 1
                        # a sign-extended narrow immediate: the bits above it must follow its sign. Evaluated modulo
                        # 2^(N+4) at destination / immediate points on both sides of every boundary
                        sexk = [kd for kd in oc["kinds"] if "sex" in kd]
                        if sexk and mn in RING_REF and not (mn == "Imul"):
                            nb = int(sexk[0][3:sexk[0].index("sex")])
                            kb = nb + 4
                            top = (1 << kb) - 1
                            imms = [1, (1 << (nb - 1)) - 1, top & ~((1 << (nb - 1)) - 1), top, top - 0x54]
                            dsts = [0, 1, (1 << nb) - 1, 1 << nb, 0xABC % (1 << kb), top]
                            for a in dsts:
                                for b in imms:
                                    env = {}
                                    for x, k in roles.items():
                                        val = a if k == 0 else b
                                        env[x] = val
                                        env[A.W(x, 64)] = val
                                    got = CG.eval_k(v, env, kb, I, o.path)
                                    cin = cls["CF"] if cls else 0
                                    want = ref(a, b, cin) % (1 << kb)
                                    ck.cov["sign_extension_points"] = ck.cov.get("sign_extension_points", 0) + 1
                                    if got != want:
                                        bad = bad or ("result = %#x (mod 2^%d) for d=%#x imm=%#x%s, architecture %#x: the immediate is "
                                                      "not sign-extended to the operand size" % (
                                                          got, kb, a, b, (" cf=%d" % cin) if cls else "", want))
                                        raise StopIteration
                    except CG.Undecided as e:
                        why_und = str(e)
                    except StopIteration:
                        pass
            if bad:
                n += 1
                ck.violation("C01.ring", inst, bad, where=where, witness={"modulus": CG.MOD},
                             what="the value written is not the architectural result (low bits wrong for every operand pair in this residue class)")
            elif decided:
                n += 1
                ck.ok("C01.ring", inst, CG.MOD * CG.MOD)
            else:
                und += 1
                ck.undecided_("C01.ring", inst, why_und or "no single destination write")
    ck.cov["ring_forms_decided"] = n
    ck.cov["ring_forms_undecided"] = und
    ck.floor("ring forms decided", n, 150)


def shift_amount(ctx):
    """C01.count from the exhaustive count sweep: the shifted amount is the architecturally masked count"""
    from .. import shiftsweep as SS
    ck = ctx.check
    res = SS.sweep(ctx)
    for form, r in sorted(res["forms"].items()):
        where = U.handler_where(ctx.facts, ctx.dispatch, form.split("/")[0])
        if r["amount"]:
            for desc, cs in sorted(r["amount"].items()):
                ck.violation("C01.count", "Code=" + form, "%s: counts %s" % (desc, SS.compress(cs)), where=where,
                             witness={"counts": cs, "count_mask": hex(r["mask"])},
                             what="shift result uses a count masked with the wrong width mask")
        else:
            ck.ok("C01.count", "Code=" + form, 256)
    ck.cov["shift_count_evaluations"] = res["evaluations"]


# --------------------------------------------------------------------------- forms / tables

def forms(ctx):
    ck, D = ctx.check, ctx.dispatch
    ref = ctx.reference("forms.json")
    if ref is None:
        ck.floor("reference/forms.json", 0, 1)
        return
    impl = D.implemented()
    for p in D.problems:
        ck.violation("C01.forms", "dispatch", p)
    for m in ref["mnemonics"]:
        if m in D.mnemonics and D.mnemonics[m]:
            ck.ok("C01.forms", "Mnemonic=" + m)
        else:
            ck.violation("C01.forms", "Mnemonic=" + m, "no dispatch arm",
                         what="a mnemonic of the reference set is no longer dispatched")
    for c in ref["implemented"]:
        if c in impl:
            ck.ok("C01.forms", "Code=" + c)
        else:
            d = D.codes.get(c)
            ck.violation("C01.forms", "Code=" + c,
                         "no longer implemented (%s)" % ("handler cannot return" if d else "no dispatch arm"),
                         where=U.handler_where(ctx.facts, D, c) if d else None,
                         what="an instruction form that executed on the pinned tree no longer executes")
    ck.cov["implemented_forms"] = len(impl)
    ck.cov["reference_forms"] = len(ref["implemented"])
    ck.cov["new_forms"] = sorted(set(impl) - set(ref["implemented"]))
    ck.floor("implemented forms", len(impl), len(ref["implemented"]))
    ck.sample({"rule": "C01.forms", "mnemonic_arms": len(D.mnemonic_arms), "code_arms": len(D.codes),
               "implemented": len(impl)})


def tables(ctx):
    """enum SupportedMnemonic == TryFrom<Mnemonic> arms == dispatch arms; discriminants = iced's."""
    ck, facts, O, D = ctx.check, ctx.facts, ctx.oracle, ctx.dispatch
    enum = facts.adts.get("auto::generated::SupportedMnemonic")
    if enum is None:
        ck.floor("SupportedMnemonic enum", 0, 1)
        return
    variants = {v["name"]: v["discr"] for v in enum["variants"]}
    disp = set(D.mnemonics)
    for name, discr in sorted(variants.items()):
        inst = "Mnemonic=" + name
        iced = O["mnemonics"].get(name)
        if iced is None or iced != discr:
            ck.violation("C01.tables", inst, "discriminant %s != iced %s" % (discr, iced),
                         what="SupportedMnemonic discriminant differs from iced's Mnemonic value (the JS side passes the number)")
        else:
            ck.ok("C01.tables", inst)
        if name not in disp:
            ck.violation("C01.tables", inst, "enum variant without dispatch arm")
    for m in sorted(disp - set(variants)):
        ck.violation("C01.tables", "Mnemonic=" + m, "dispatch arm without enum variant")
    # TryFrom<Mnemonic> arms
    try:
        tf = facts.trait_impl("std::convert::TryFrom<iced_x86::Mnemonic>", "auto::generated::SupportedMnemonic", "try_from")
    except KeyError as e:
        ck.violation("C01.tables", "impl=TryFrom<Mnemonic> for SupportedMnemonic", str(e))
        return
    from ..dispatch import find_enum_switch  # noqa
    mapped = tryfrom_map(ctx, tf)
    for name in sorted(variants):
        got = mapped.get(name)
        if got == name:
            ck.ok("C01.tables", "TryFrom:" + name)
        else:
            ck.violation("C01.tables", "TryFrom:" + name, "maps to %s" % got,
                         what="TryFrom<Mnemonic> does not map the iced mnemonic to the variant of the same name")
    ck.floor("SupportedMnemonic variants", len(variants), 65)


def tryfrom_map(ctx, tf):
    """iced Mnemonic name -> SupportedMnemonic variant name, by running the conversion on each constant."""
    facts = ctx.facts
    out = {}
    I = A.Interp(facts)
    for name in ctx.dispatch.mnemonics:
        ev = facts.enum_variant_by_name("iced_x86::Mnemonic", name)
        if ev is None:
            continue
        arg = ("agg", "adt:iced_x86::Mnemonic", ev[0], ())
        outs = list(I.run(tf, [arg], A.Path()))
        rets = [o for o in outs if o.kind == "return"]
        if len(rets) == 1 and rets[0].value[0] == "agg" and rets[0].value[2] == 0:
            v = rets[0].value[3][0]
            if v[0] == "agg":
                e2 = facts.enum_variant("auto::generated::SupportedMnemonic", v[2])
                out[name] = e2[0] if e2 else None
        else:
            out[name] = "no-Ok(%s)" % [repr(o) for o in outs][:2]
    return out


# --------------------------------------------------------------------------- per handler

def written_regs(facts, o):
    return [e for e in o.path.events if e[0] == "reg_write"]


def full_reg(O, name):
    r = O["registers"].get(name)
    return r["full"] if r else None


def handlers(ctx):
    ck, facts, O, D, hm = ctx.check, ctx.facts, ctx.oracle, ctx.dispatch, ctx.hmodel
    impl = D.implemented()
    skipped = []
    n = 0
    for code in sorted(impl):
        oc = O["codes"][code]
        if not hm.producible(code):
            skipped.append(code)
            continue
        n += 1
        where = U.handler_where(facts, D, code)
        shapes = hm.shapes(code)
        flow = oc["flow"]
        is_cf = flow in CONTROL_FLOWS
        cond_done = False
        for shape in shapes:
            label, kinds, spec = shape
            inst = "Code=%s/%s" % (code, label) if len(shapes) > 1 else "Code=%s" % code
            outs, I = hm.run(code, shape)
            rets = [o for o in outs if o.kind == "return" and not is_err(o)]
            errs = [o for o in outs if o.kind == "return" and is_err(o)]
            panics = [o for o in outs if o.kind == "panic"]
            cuts = [o for o in outs if o.kind == "cut"]
            for o in cuts:
                ck.undecided_("C01", inst, "analysis cut: %s at %s" % (o.msg, o.site))
            # ---- operands
            if not rets and not (flow == "Return" and errs):
                p = panics[0] if panics else None
                ck.violation("C01.operands", inst,
                             "no success path: %s in %s" % ((p.cls + " abort") if p else "only errors",
                                                            role_of_panic(p) if p else "?"),
                             where=p.site if p else where, construct=D.codes[code]["handler"],
                             witness={"shape": kinds, "outcomes": [repr(o) for o in outs][:6]},
                             what="a decoder-producible operand shape (%s) always aborts" % ",".join(kinds))
                continue
            ck.ok("C01.operands", inst)
            if oc["mnemonic"] in OS_MNEMONICS:
                continue
            inst_o = oc["inst"][label]
            # ---- access / width per success path
            acc = inst_o["op_access"]
            implicit_w = {}
            implicit_all = {}
            explicit = set(EXPLICIT_FULL)
            for kd in oc["kinds"]:
                if kd in FIXED_KIND_REG:
                    explicit.add(full_reg(O, FIXED_KIND_REG[kd]))
            for r, a in inst_o["used_regs"]:
                fr = full_reg(O, r)
                if fr in explicit:
                    continue
                implicit_all[fr] = a
                if a in WRITE_ACC:
                    implicit_w[fr] = a
            acc_bad = None
            width_bad = None
            for o in rets:
                wrote_op0 = False
                for e in o.path.events:
                    if e[0] in ("reg_write", "reg_read"):
                        nbits, reg = e[1], e[2]
                        rn = U.reg_name(facts, reg)
                        if rn is None:
                            width_bad = width_bad or "register operand of unknown provenance %s" % A.show(reg)
                            continue
                        if rn.startswith("op"):
                            k = int(rn[2:])
                            okind = oc["kinds"][k] if k < len(oc["kinds"]) else None
                            eb = KIND_BITS.get(okind)
                            if eb is not None and eb != nbits:
                                width_bad = width_bad or "%s_%d on operand %d of kind %s" % (e[0], nbits, k, okind)
                            if e[0] == "reg_write":
                                a = acc[k] if k < len(acc) else None
                                if a not in WRITE_ACC:
                                    acc_bad = acc_bad or "operand %d written, architecture access %s" % (k, a)
                                if k == 0:
                                    wrote_op0 = True
                        else:
                            rinfo = O["registers"].get(rn)
                            if rinfo is None:
                                width_bad = width_bad or "unknown register %s" % rn
                                continue
                            if rn != "RIP" and rinfo["size"] * 8 != nbits:
                                width_bad = width_bad or "%s_%d on %d-bit register %s" % (e[0], nbits, rinfo["size"] * 8, rn)
                            fr = rinfo["full"]
                            if rn == "RIP":
                                if e[0] == "reg_write" and not is_cf:
                                    acc_bad = acc_bad or "RIP written by a non-control-flow handler"
                                continue
                            if e[0] == "reg_write" and fr not in implicit_w:
                                acc_bad = acc_bad or "fixed register %s written, not in the architectural write set %s" % (
                                    rn, sorted(implicit_w))
                            if e[0] == "reg_read" and fr not in implicit_all:
                                acc_bad = acc_bad or "fixed register %s read, not used by the architecture (%s)" % (
                                    rn, sorted(implicit_all))
                    elif e[0] in ("mem_write", "mem_read") and e[1] != "bytes":
                        nbits, addr = e[1], U.strip(e[2])
                        if addr[0] == "addr" and addr[1][0] == "opmem":
                            k = addr[1][1]
                            mb = inst_o["mem_size_bytes"] * 8
                            if mb and mb != nbits:
                                width_bad = width_bad or "%s_%d on a %d-bit memory operand" % (e[0], nbits, mb)
                            if e[0] == "mem_write":
                                a = acc[k] if k < len(acc) else None
                                if a not in WRITE_ACC:
                                    acc_bad = acc_bad or "memory operand %d written, architecture access %s" % (k, a)
                                if k == 0:
                                    wrote_op0 = True
                        elif oc["mnemonic"] in STACK_MNEMONICS or is_cf:
                            pass  # stack slots: C04
                        else:
                            acc_bad = acc_bad or "%s at a non-operand address %s" % (e[0], A.show(addr))
                if acc and acc[0] in MUST_WRITE_ACC and not wrote_op0 and not is_cf and oc["mnemonic"] not in STACK_MNEMONICS:
                    # conditional forms are judged per flag class below
                    swept = oc["mnemonic"] in ("Shl", "Shr", "Sar", "Sal") and ("imm8" in oc["kinds"] or "cl" in oc["kinds"])
                    # counted shifts: whether a path may skip the write depends on the count class -> C01.count (all 256 counts)
                    if oc["cc"] == "None" and not swept and not write_elided_unchanged(facts, o, label, KIND_BITS.get(oc["kinds"][0])):
                        acc_bad = acc_bad or "operand 0 not written on a success path, architecture access %s" % acc[0]
                # implicit registers that must be written
                if oc["mnemonic"] not in STACK_MNEMONICS and not is_cf:
                    wr = {O["registers"][U.reg_name(facts, e[2])]["full"] for e in o.path.events
                          if e[0] == "reg_write" and U.reg_name(facts, e[2]) in O["registers"]}
                    for fr, a in implicit_w.items():
                        if a in MUST_WRITE_ACC and fr not in wr and not explicit_dest(inst_o, O, fr):
                            acc_bad = acc_bad or "implicit register %s (%s) not written on a success path" % (fr, a)
            if acc_bad:
                ck.violation("C01.access", inst, acc_bad, where=where, what="register/memory write set deviates from the architecture")
            else:
                ck.ok("C01.access", inst)
            if width_bad:
                ck.violation("C01.width", inst, width_bad, where=where, what="operand accessed at the wrong width")
            else:
                ck.ok("C01.width", inst)
            # ---- writes outside registers/memory/flags
            wbad = None
            for o in rets:
                for e in o.path.events:
                    if e[0] == "store":
                        names = [p[2] for p in e[1][1] if isinstance(p, tuple) and p[0] == "f"]
                        if names[-1:] == ["rflags"]:
                            continue
                        if is_cf:
                            continue
                        wbad = wbad or "stores to %s" % ".".join(str(x) for x in names)
                    elif e[0] == "mutcall" and not is_cf:
                        names = [p[2] for p in e[2][1] if isinstance(p, tuple) and p[0] == "f"]
                        wbad = wbad or "%s on %s" % (e[1].split("::")[-1], ".".join(str(x) for x in names))
                    elif e[0] == "trace" and not is_cf:
                        wbad = wbad or "records a trace entry"
            if wbad:
                ck.violation("C01.writes", inst, wbad, where=where,
                             what="a data instruction changes state other than registers, memory and flags")
            else:
                ck.ok("C01.writes", inst)
            # ---- conditional data forms
            if oc["cc"] != "None" and flow == "Next":
                cond_rule(ctx, code, inst, shape, oc, inst_o, where)
            # ---- widening forms
            if oc["mnemonic"] in EXTEND_FIXED or oc["mnemonic"] in EXTEND_MOVES or oc["mnemonic"] == "Idiv":
                extend_rule(ctx, code, inst, shape, oc, rets, where)
    ck.cov["unproducible_skipped"] = skipped
    ck.cov["handlers_checked"] = n
    ck.floor("handlers checked", n, 300)


def explicit_dest(inst_o, O, fr):
    """true when fr is the parent of an explicit register operand (counted by the operand rule)"""
    for r, a in inst_o["used_regs"]:
        pass
    return False


def shift_mask(ctx, code, inst, oc, rets, where):
    ck = ctx.check
    width = oc["opsize"] if oc["opsize"] else 8
    cmask = 0x3F if width == 64 else 0x1F
    seen = set()
    for o in rets:
        for e in o.path.events:
            if e[0] in ("reg_write", "mem_write") and e[1] != "bytes":
                for m in shift_count_masks(e[3]):
                    seen.add(m)
    if not seen:
        ck.undecided_("C01.count", inst, "no shift term found in the written value")
        return
    bad = [m for m in seen if m != cmask]
    if bad:
        ck.violation("C01.count", inst, "shift count masked with %s, architecture %#x" % (
            ",".join(hex(m) for m in sorted(bad)), cmask), where=where,
            what="shift count is masked with the wrong width mask")
    else:
        ck.ok("C01.count", inst)


def shift_count_masks(t, depth=0):
    """masks m in subterms Shl/Shr(x, f(count & m)) of t"""
    out = []
    if not isinstance(t, tuple) or depth > 30 or not t:
        return out
    if t[0] == "bin" and t[1] in ("Shl", "Shr"):
        cnt = t[3]
        bv = A.bitvec(cnt, A.Path())
        m = 0
        okm = True
        for i, b in enumerate(bv):
            if b == 0:
                continue
            if b is None or b == 1 or b[1] != i or b[2]:
                okm = False
                break
            m |= 1 << i
        if okm and m:
            out.append(m)
        out += shift_count_masks(t[2], depth + 1)
        return out
    for x in t[1:]:
        if isinstance(x, tuple):
            out += shift_count_masks(x, depth + 1)
    return out


# mnemonic -> (kind, source register, dest register); SDM Vol.2 CBW/CWDE/CDQE, CWD/CDQ/CQO
EXTEND_FIXED = {
    "Cbw": ("sext", "AL", "AX"), "Cwde": ("sext", "AX", "EAX"), "Cdqe": ("sext", "EAX", "RAX"),
    "Cwd": ("signfill", "AX", "DX"), "Cdq": ("signfill", "EAX", "EDX"), "Cqo": ("signfill", "RAX", "RDX"),
}
EXTEND_MOVES = {"Movzx": "zext", "Movsx": "sext", "Movsxd": "sext"}


def leaf_desc(facts, S):
    if S[0] == "reg":
        return "reg", S[1], U.reg_name(facts, S[2])
    if S[0] == "mem":
        a = U.strip(S[2])
        return "mem", S[1], ("op%d" % a[1][1]) if a[0] == "addr" and a[1][0] == "opmem" else A.show(a)
    return S[0], None, None


def check_extension(facts, path, v, kind, nsrc, ndst, want_src):
    """None if bitvec(v) is `kind`-extension of an nsrc-bit leaf named want_src to ndst bits; else a reason."""
    bv = A.bitvec(v, path)
    if len(bv) < ndst:
        bv = bv + [0] * (ndst - len(bv))
    srcs = set()
    for b in bv[:ndst]:
        if b is not None and b not in (0, 1):
            srcs.add(b[0])
    for (s0, k) in path.bitfacts:
        if s0[0] in ("reg", "mem"):
            srcs.add(s0)
    if any(b is None for b in bv[:ndst]):
        return "value has bits of unknown provenance: %s" % A.show(v)
    if len(srcs) != 1:
        return "value depends on %d sources (%s)" % (len(srcs), ", ".join(A.show(x) for x in list(srcs)[:3]))
    S = next(iter(srcs))
    kindS, wS, nameS = leaf_desc(facts, S)
    if want_src is not None and nameS != want_src:
        return "source is %s, expected %s" % (nameS, want_src)
    if wS != nsrc:
        return "source read at %s bits, expected %d" % (wS, nsrc)

    def sb(i):
        f = path.bitfacts.get((S, i))
        return f if f is not None else (S, i, False)
    for i in range(ndst):
        if kind == "signfill":
            exp = sb(nsrc - 1)
        elif i < nsrc:
            exp = sb(i)
        else:
            exp = sb(nsrc - 1) if kind == "sext" else 0
        if bv[i] != exp:
            how = "zero" if bv[i] == 0 else ("bit %d of source" % bv[i][1] if bv[i] not in (0, 1) else str(bv[i]))
            return "bit %d is %s, %s requires %s" % (i, how, kind, "the sign bit" if i >= nsrc or kind == "signfill" else "source bit %d" % i)
    return None


def extend_rule(ctx, code, inst, shape, oc, rets, where):
    ck, facts, O = ctx.check, ctx.facts, ctx.oracle
    m = oc["mnemonic"]
    label = shape[0]
    problems = []
    n = 0
    for o in rets:
        if m == "Idiv":
            nsrc = KIND_BITS.get(oc["kinds"][0])
            divs = [e for e in o.path.events if e[0] == "divop"]
            for e in divs:
                d = e[3]
                n += 1
                if not e[5]:
                    problems.append("IDIV uses an unsigned %s" % e[1])
                r = check_extension(facts, o.path, d, "sext", nsrc, e[4], "op0")
                if r:
                    problems.append("divisor: " + r)
            continue
        if m in EXTEND_FIXED:
            kind, sreg, dreg = EXTEND_FIXED[m]
            nsrc = O["registers"][sreg]["size"] * 8
            ndst = O["registers"][dreg]["size"] * 8
            ws = [e for e in o.path.events if e[0] == "reg_write" and U.reg_name(facts, e[2]) == dreg]
            want = sreg
        else:
            kind = EXTEND_MOVES[m]
            nsrc = KIND_BITS.get(oc["kinds"][1])
            ndst = KIND_BITS.get(oc["kinds"][0])
            ws = [e for e in o.path.events if e[0] == "reg_write" and U.reg_name(facts, e[2]) == "op0"]
            want = "op1"
            if nsrc == ndst:
                kind = "zext"
        if len(ws) != 1:
            problems.append("%d destination writes on a success path" % len(ws))
            continue
        n += 1
        r = check_extension(facts, o.path, ws[0][3], kind, nsrc, ndst, want)
        if r:
            problems.append(r)
    if problems:
        ck.violation("C01.extend", inst, problems[0], where=where,
                     what="operand widened with the wrong extension (zero vs sign) or from the wrong source")
    elif n:
        ck.ok("C01.extend", inst)
    else:
        ck.undecided_("C01.extend", inst, "no widening site found")


def cond_rule(ctx, code, inst, shape, oc, inst_o, where):
    """CMOVcc / SETcc under all 64 flag classes."""
    ck, facts, hm = ctx.check, ctx.facts, ctx.hmodel
    cc = oc["cc"]
    is_set = oc["mnemonic"].startswith("Set")
    always_writes = inst_o["op_access"][0] in MUST_WRITE_ACC
    wrong = []
    nowrite = []
    for cls in H.flag_classes():
        outs, _ = hm.run(code, shape, flags=cls)
        rets = [o for o in outs if o.kind == "return" and not is_err(o)]
        exp = U.CC[cc](cls)
        for o in rets:
            ws = [e for e in o.path.events if (e[0] == "reg_write" and U.reg_name(facts, e[2]) == "op0")
                  or (e[0] == "mem_write" and U.strip(e[2])[0] == "addr")]
            if is_set:
                if not ws:
                    nowrite.append(cls)
                    continue
                v = U.strip(ws[-1][3])
                val = v[1] if A.is_int(v) else A.bv_value(A.bitvec(ws[-1][3], o.path))
                if val != (1 if exp else 0):
                    wrong.append((cls, A.show(v)))
            else:
                moved = False
                for e in ws:
                    v = U.strip(e[3])
                    lv = H.leaves(v)
                    if any((x[0] == "reg" and x[2] == ("opreg", 1)) or x[0] == "mem" for x in lv):
                        moved = True
                if moved != exp:
                    wrong.append((cls, "moved=%s" % moved))
                if always_writes and not ws:
                    nowrite.append(cls)
        if not rets:
            wrong.append((cls, "no success path"))
    if wrong:
        ck.violation("C01.cond", inst, "%d of 64 flag classes deviate from cc=%s" % (len(wrong), cc), where=where,
                     witness={"first": [U.fmt_class(wrong[0][0]), wrong[0][1]],
                              "classes": [U.fmt_class(w[0]) for w in wrong]},
                     what="conditional move/set acts under the wrong flag condition")
    else:
        ck.ok("C01.cond", inst, 64)
    if nowrite:
        ck.violation("C01.cond.write", inst, "destination not written in %d of 64 flag classes" % len(nowrite),
                     where=where, witness={"classes": [U.fmt_class(c) for c in nowrite]},
                     what="destination must be written on both outcomes (SETcc writes 0/1; CMOVcc r32 zero-extends)")
    else:
        ck.ok("C01.cond.write", inst)


# --------------------------------------------------------------------------- operand builder

def imm_table(ctx):
    """Run instruction_operand with op_kind = each immediate OpKind; check (accessor, size)."""
    ck, facts, R = ctx.check, ctx.facts, ctx.roles
    body = facts.bodies[R.instruction_operand]
    n = 0
    for kind, (acc, size) in sorted(IMM_TABLE.items()):
        ev = facts.enum_variant_by_name("iced_x86::OpKind", kind)
        if ev is None:
            continue
        kv = ("agg", "adt:iced_x86::OpKind", ev[0], ())

        def icpt(I, path, frame, t, name, args, kv=kv):
            if name == "iced_x86::Instruction::op_kind":
                return [(kv, path)]
            if name == "iced_x86::Instruction::op_count":
                return [(A.INT(5, 32), path)]
            return None
        I = A.Interp(facts, intercept=icpt)
        outs = list(I.run(body, [P.self_ref(False), P.INSTR, A.INT(0, 32)], A.Path()))
        rets = [o for o in outs if o.kind == "return"]
        inst = "OpKind=" + kind
        n += 1
        if len(rets) != 1 or rets[0].value[0] != "agg" or rets[0].value[2] != 0:
            ck.violation("C01.imm", inst, "operand builder does not return Ok for this kind",
                         witness=[repr(o) for o in outs][:4])
            continue
        v = rets[0].value[3][0]
        if v[0] != "agg" or v[2] != P.OP_IMMEDIATE:
            ck.violation("C01.imm", inst, "not built as Operand::Immediate")
            continue
        data, sz = v[3][0], v[3][1]
        while data[0] in ("cast", "w"):  # either extension keeps the low `size` bytes the consumers use
            data = data[1]
        src = data
        # accept value-preserving widening of the accessor result only
        got_acc = src[1].split("::")[-1] if src[0] == "ret" else None
        sign_ok = True
        raw = v[3][0]
        # a sign-extending accessor returns iN already widened; any cast on top must be same-width or zero-extension of a full value
        if got_acc != acc:
            ck.violation("C01.imm", inst, "data from %s, expected %s()" % (got_acc or A.show(data), acc),
                         what="immediate taken from the wrong iced accessor (extension kind / width)")
        elif not A.is_int(sz) or sz[1] != size:
            ck.violation("C01.imm", inst, "size %s, expected %d" % (A.show(sz), size))
        else:
            ck.ok("C01.imm", inst)
    ck.floor("immediate kinds", n, 9)
