"""C05 Effective addresses of memory operands equal the CPU's for every addressing form.

C05.formula  mem_addr == base + index*scale + displacement (+ fs | gs), wrapping, for all 24 presence/segment classes
C05.total    mem_addr has no overflow-checked arithmetic and no abort for any producible base/index register class
C05.plumb    the operand builder copies iced's base/index/scale/displacement64/segment field for field
C05.lea      LEA writes the (truncated) address and does not depend on a segment base
"""
from .. import absint as A
from .. import facts as F
from .. import hmodel as H
from .. import hutil as U
from .. import prims as P

MEMOP = "helpers::operand::MemOperand"
SEGREG = "helpers::operand::SupportedSegmentRegister"


def memop(facts, **kw):
    adt = facts.adts[MEMOP]
    names = [f["name"] for f in adt["variants"][0]["fields"]]
    return ("agg", "adt:" + MEMOP, 0, tuple(kw[n] for n in names))


def deep_strip(t):
    """width annotations and value-preserving (zero-extending / same-width) casts removed everywhere in a term, so that
    `scale as u64`, `u64::from(scale)` with scale: u32 or u8 are the same addend; factors of a product in a fixed order"""
    t = U.strip(t)
    if t[0] == "bin":
        a, b = deep_strip(t[2]), deep_strip(t[3])
        if t[1] in ("Mul", "Add", "BitAnd", "BitOr", "BitXor") and repr(a) > repr(b):
            a, b = b, a
        return ("bin", t[1], a, b, t[4])
    if t[0] == "cast":
        return ("cast", deep_strip(t[1])) + t[2:]
    return t


def addends(t):
    """flatten a wrapping sum into a sorted list of stripped addends"""
    t = U.strip(t)
    if t[0] == "bin" and t[1] == "Add":
        return addends(t[2]) + addends(t[3])
    if A.is_int(t) and t[1] == 0:
        return []
    return [deep_strip(t)]


def trunc32_inner(p):
    """x when p is x truncated to 32 bits and zero-extended again: `x & 0xffff_ffff`, `x as u32 as u64`, `u64::from(x as u32)`"""
    p = U.strip(p)
    if p[0] == "bin" and p[1] == "BitAnd" and A.is_int(p[3]) and p[3][1] == 0xFFFFFFFF:
        return p[2]
    if p[0] == "cast" and p[2] == 64 and p[4] == 32:
        return p[1]
    return None


def seg_variant(facts, name):
    ev = facts.enum_variant_by_name(SEGREG, name)
    return ("agg", "adt:" + SEGREG, ev[0], ())


def run(ctx):
    formula(ctx)
    base_classes(ctx)
    plumbing(ctx)
    lea(ctx)


def iced_reg_predicates(ctx):
    facts, O = ctx.facts, ctx.oracle

    def icpt(I, path, frame, t, name, args):
        if name.startswith("iced_x86::Register::is_") and args:
            a = I._deref_all(path, args[0])
            if a[0] == "agg" and a[1] == "adt:iced_x86::Register":
                rn = facts.enum_variant("iced_x86::Register", a[2])[0]
                key = {"is_gpr8": "gpr8", "is_gpr16": "gpr16", "is_gpr32": "gpr32", "is_gpr64": "gpr64",
                       "is_ip": "ip", "is_xmm": "xmm", "is_gpr": "gpr"}.get(name.rsplit("::", 1)[1])
                if key:
                    return [(A.INT(1 if O["registers"][rn][key] else 0, 8), path)]
        return None
    return icpt


def run_mem_addr(ctx, m):
    facts, R = ctx.facts, ctx.roles
    pr = P.HandlerPrims(facts, R, {}, inline_mem_addr=True)
    pred = iced_reg_predicates(ctx)

    def icpt(I, path, frame, t, name, args):
        r = pred(I, path, frame, t, name, args)
        if r is not None:
            return r
        return pr.intercept(I, path, frame, t, name, args)
    I = A.Interp(facts, intercept=icpt)
    body = facts.bodies[R.mem_addr]
    outs = list(I.run(body, [P.self_ref(False), m], A.Path()))
    return outs, I


def sreg(facts, name):
    ev = facts.enum_variant_by_name(U.SREG_ENUM, name)
    return ("agg", P.SREG, ev[0], ())


# representative (base, index) register pairs per address-size class; the class decides the formula
ADDR_CLASSES = {
    "a64": ("RBX", "RSI", 64),
    "a64-ext": ("R13", "R12", 64),
    "a32(67h)": ("EBX", "ESI", 32),
    "a32-ext(67h)": ("R13D", "R12D", 32),
}


def formula(ctx):
    ck, facts = ctx.check, ctx.facts
    scale = A.W(("scale",), 32)
    disp = A.W(("disp",), 64)
    fs = ("field", ("field", ("init", "self", 0), "state"), "fs")
    gs = ("field", ("field", ("init", "self", 0), "state"), "gs")
    n = 0
    for cname, (breg, ireg, abits) in ADDR_CLASSES.items():
        BASE, INDEX = sreg(facts, breg), sreg(facts, ireg)
        for hb in (False, True):
            for hi in (False, True):
                if not hb and not hi and cname != "a64":
                    continue
                for seg in (None, "DS", "ES", "SS", "FS", "GS"):
                    m = memop(facts, base=A.SOME(BASE) if hb else A.NONE, index=A.SOME(INDEX) if hi else A.NONE,
                              segment=A.SOME(seg_variant(facts, seg)) if seg else A.NONE, scale=scale, displacement=disp)
                    outs, I = run_mem_addr(ctx, m)
                    inst = "class=%s,base=%s,index=%s,segment=%s" % (cname, int(hb), int(hi), seg)
                    rets = [o for o in outs if o.kind == "return"]
                    bad = [o for o in outs if o.kind != "return"]
                    n += 1
                    if len(rets) != 1:
                        ck.violation("C05.formula" if not bad else "C05.total", inst,
                                     "%d result paths%s" % (len(rets), (", %s abort: %s" % (bad[0].cls, bad[0].msg)) if bad else ""),
                                     where=bad[0].site if bad else None, witness=[repr(o) for o in outs][:5],
                                     what="the address computation aborts for this register class" if bad else None)
                        continue
                    val = rets[0].value
                    segadd = []
                    body_t = val
                    if abits == 32:
                        # (base + index*scale + disp) & 0xffffffff, then the segment base
                        parts = addends(val)
                        inner = [p_ for p_ in parts if trunc32_inner(p_) is not None]
                        rest = [p_ for p_ in parts if p_ not in inner]
                        if len(inner) != 1:
                            ck.violation("C05.formula", inst, "32-bit effective address is not truncated to 32 bits: %s" % A.show(val),
                                         what="address-size override: the sum must wrap at 2^32 before the segment base is added")
                            continue
                        got = sorted(map(repr, addends(trunc32_inner(inner[0])))) + sorted(map(repr, rest))
                    else:
                        got = sorted(map(repr, addends(val)))
                    exp = []
                    if hb:
                        exp.append(("reg", abits, BASE, 0))
                    if hi:
                        exp.append(("bin", "Mul", A.W(("reg", abits, INDEX, 0), 64), ("cast", scale, 32, False, 64), 64))
                    exp.append(("disp",))
                    exp = [deep_strip(x) for x in exp]
                    exps = sorted(map(repr, exp))
                    segs = []
                    if seg == "FS":
                        segs.append(fs)
                    if seg == "GS":
                        segs.append(gs)
                    exps = exps + sorted(map(repr, segs)) if abits == 32 else sorted(map(repr, exp + segs))
                    if got != exps:
                        ck.violation("C05.formula", inst, "address = %s" % A.show(val),
                                     witness={"got": got, "expected": exps},
                                     what="effective address is not base + index*scale + displacement + segment base")
                    else:
                        ck.ok("C05.formula", inst)
                    ovf = [e for e in rets[0].path.events if e[0] == "assert"]
                    if ovf or bad:
                        ck.violation("C05.total", inst, "overflow-checked arithmetic or abort in the address computation",
                                     witness=[str(e[1:3]) for e in ovf] + [repr(o) for o in bad])
                    else:
                        ck.ok("C05.total", inst)
    ck.sample({"rule": "C05.formula", "classes": n, "example": "base+index*scale+disp (+fs|gs), wrapping at 2^32 with a 67h prefix"})
    ck.floor("address classes", n, 78)


def reg_accessor_accepts(ctx, accessor, regname):
    """does reg_read_N return Ok for the constant SupportedRegister `regname`? (runs the accessor's own body)"""
    facts = ctx.facts
    ev = facts.enum_variant_by_name(U.SREG_ENUM, regname)
    if ev is None:
        return None, "no SupportedRegister::%s" % regname
    O = ctx.oracle

    from . import C07
    try:
        c07 = C07.make_intercept(ctx, {"r2q": {}, "high": set(C07.HIGH)})
    except Exception:  # noqa
        c07 = None

    def icpt(I, path, frame, t, name, args):
        # iced Register predicates evaluated from the oracle register table
        if name.startswith("iced_x86::Register::is_") and args:
            a = I._deref_all(path, args[0])
            if a[0] == "agg" and a[1] == "adt:iced_x86::Register":
                rn = facts.enum_variant("iced_x86::Register", a[2])[0]
                key = {"is_gpr8": "gpr8", "is_gpr16": "gpr16", "is_gpr32": "gpr32", "is_gpr64": "gpr64",
                       "is_ip": "ip", "is_xmm": "xmm", "is_gpr": "gpr"}.get(name.rsplit("::", 1)[1])
                if key:
                    return [(A.INT(1 if O["registers"][rn][key] else 0, 8), path)]
        # register-file lookups: key presence is C07.tables' obligation, assumed here
        if "HashMap" in name and name.endswith("::get"):
            return [(A.SOME(("ret", "HashMap::get", tuple(I.norm_arg(path, a) for a in args[1:]), 0)), path)]
        # membership tests against the register module's own tables (a width check spelled as a table lookup)
        if c07 is not None and (name.rsplit("::", 1)[1] in ("contains", "contains_key", "deref", "as_slice") or " as std::ops::Deref>::deref" in name):
            return c07(I, path, frame, t, name, args)
        return None
    I = A.Interp(facts, intercept=icpt)
    body = facts.bodies[accessor]
    arg = ("agg", P.SREG, ev[0], ())
    outs = []
    for o in I.run(body, [P.self_ref(False), arg], A.Path()):
        outs.append(o)
        if len(outs) > 50:
            break
    rets = [o for o in outs if o.kind == "return"]
    pan = [o for o in outs if o.kind == "panic" and o.cls in ("D", "X")]
    if rets and not pan:
        return True, None
    if pan and not rets:
        return False, "%s abort (%s)" % (pan[0].cls, pan[0].msg)
    if pan:
        return False, "may abort: %s (%s)" % (pan[0].cls, pan[0].msg)
    return None, "undecided: %s" % [repr(o) for o in outs][:3]


def base_classes(ctx):
    """Every register the 64-bit decoder can report as memory base/index (64-bit GPRs; 32-bit GPRs with a 67h
    prefix) must yield an address, not an abort: mem_addr is interpreted with each register in each position,
    the register accessors evaluated on their own bodies."""
    ck, facts, O, R = ctx.check, ctx.facts, ctx.oracle, ctx.roles
    body = facts.bodies[R.mem_addr]
    classes = {
        "gpr64": [r for r, i in O["registers"].items() if i["gpr64"]],
        "gpr32(67h prefix)": [r for r, i in O["registers"].items() if i["gpr32"]],
    }
    scale = A.W(("scale",), 32)
    disp = A.W(("disp",), 64)
    for cname, regs in classes.items():
        rejected = []
        for r in sorted(regs):
            if facts.enum_variant_by_name(U.SREG_ENUM, r) is None:
                rejected.append((r, "not a SupportedRegister"))
                continue
            width = 64 if cname == "gpr64" else 32
            okr, why = reg_accessor_accepts(ctx, R.reg_read[width], r)
            for pos in ("base", "index"):
                m = memop(facts, base=A.SOME(sreg(facts, r)) if pos == "base" else A.NONE,
                          index=A.SOME(sreg(facts, r)) if pos == "index" else A.NONE,
                          segment=A.NONE, scale=scale, displacement=disp)
                outs, I = run_mem_addr(ctx, m)
                bad = [o for o in outs if o.kind != "return"]
                used = {e[1] for o in outs for e in o.path.events if e[0] == "reg_read"}
                if bad or not outs:
                    rejected.append((r, "%s: %s abort (%s)" % (pos, bad[0].cls, bad[0].msg) if bad else "no result"))
                elif used != {width}:
                    # mem_addr unwraps the accessor's result: the accessor must accept the register
                    rejected.append((r, "%s: read with the %s-bit accessor (%s)" % (pos, sorted(used), why)))
                elif okr is not True:
                    rejected.append((r, "%s: accessor rejects it (%s), result unwrapped" % (pos, why)))
        inst = "base/index class=%s" % cname
        if rejected:
            ck.violation("C05.total", inst, "%d of %d registers abort the address computation (first: %s %s)" % (
                len({x[0] for x in rejected}), len(regs), rejected[0][0], rejected[0][1]),
                where="%s:%d" % (body["span"][0], body["span"][1]), witness={"rejected": rejected[:6]},
                what="address-size override (32-bit base/index) aborts instead of computing the address")
        else:
            ck.ok("C05.total", inst, len(regs) * 2)
    eip_path(ctx)


def eip_path(ctx):
    ck, facts, R = ctx.check, ctx.facts, ctx.roles
    outs = run_operand_builder(ctx, base="EIP")
    inst = "base=EIP(67h rip-relative)"
    rets = [o for o in outs if o.kind == "return"]
    pan = [o for o in outs if o.kind == "panic"]
    if not rets:
        ck.violation("C05.total", inst, "operand builder aborts: %s" % (pan[0].msg if pan else "?"),
                     where=pan[0].site if pan else None)
        return
    v = rets[0].value
    mo = v[3][0][3][0] if v[0] == "agg" and v[2] == 0 and v[3][0][0] == "agg" else None
    if mo is None:
        ck.undecided_("C05.total", inst, "operand builder result not an Operand::Memory")
        return
    names = [f["name"] for f in facts.adts[MEMOP]["variants"][0]["fields"]]
    base = mo[3][names.index("base")]
    if base == A.NONE:
        ck.ok("C05.total", inst)
        return
    # base = Some(EIP): then mem_addr reads it with the 64-bit accessor
    okr, why = reg_accessor_accepts(ctx, R.reg_read[64], "EIP")
    if okr is True:
        # reading EIP as a base would double-count next_ip (displacement64 already contains it)
        ck.violation("C05.formula", inst, "EIP kept as base register although displacement64 already includes it")
    else:
        ck.violation("C05.total", inst, "EIP kept as base, reg_read_64(EIP): %s, result unwrapped in mem_addr" % why,
                     what="EIP-relative operand (67h prefix) aborts the emulator")


def run_operand_builder(ctx, base="RAX", index="None", segment="DS"):
    facts, R = ctx.facts, ctx.roles

    def reg(n):
        ev = facts.enum_variant_by_name("iced_x86::Register", n)
        return ("agg", "adt:iced_x86::Register", ev[0], ())
    kv = facts.enum_variant_by_name("iced_x86::OpKind", "Memory")
    kind = ("agg", "adt:iced_x86::OpKind", kv[0], ())

    def icpt(I, path, frame, t, name, args):
        if name == "iced_x86::Instruction::op_kind":
            return [(kind, path)]
        if name == "iced_x86::Instruction::op_count":
            return [(A.INT(5, 32), path)]
        if name == "iced_x86::Instruction::memory_base":
            return [(reg(base) if base != "?" else ("ibase",), path)]
        if name == "iced_x86::Instruction::memory_index":
            return [(reg(index) if index != "?" else ("iindex",), path)]
        if name == "iced_x86::Instruction::memory_segment":
            return [(reg(segment) if segment != "?" else ("iseg",), path)]
        if (name.endswith("::from") or name.endswith("::into")) and args and args[0] in (("ibase",), ("iindex",)):
            return [(("sreg_of", args[0]), path)]
        return None
    I = A.Interp(facts, intercept=icpt)
    body = facts.bodies[R.instruction_operand]
    return list(I.run(body, [P.self_ref(False), P.INSTR, A.INT(0, 32)], A.Path()))


def plumbing(ctx):
    ck, facts, R = ctx.check, ctx.facts, ctx.roles
    names = [f["name"] for f in facts.adts[MEMOP]["variants"][0]["fields"]]

    def field(outs, fname):
        # the fields that are not fixed by this case are opaque and may fork the builder; the field under test must
        # come out the same on every success path
        rets = [o for o in outs if o.kind == "return" and not (o.value[0] == "agg" and o.value[1] == A.RESULT and o.value[2] == 1)]
        if not rets:
            return None, "no success path"
        vals = set()
        for o in rets:
            v = o.value
            if not (v[0] == "agg" and v[2] == 0 and v[3][0][0] == "agg" and v[3][0][2] == P.OP_MEMORY):
                return None, "not Ok(Operand::Memory)"
            mo = v[3][0][3][0]
            vals.add(mo[3][names.index(fname)])
        if len(vals) != 1:
            return None, "%d different values for %s" % (len(vals), fname)
        return vals.pop(), None

    cases = [
        ("base=None", dict(base="None"), "base", A.NONE),
        ("base=RIP", dict(base="RIP"), "base", A.NONE),
        ("base=RBX", dict(base="RBX"), "base", A.SOME(("agg", P.SREG, facts.enum_variant_by_name(U.SREG_ENUM, "RBX")[0], ()))),
        ("base=R13", dict(base="R13"), "base", A.SOME(("agg", P.SREG, facts.enum_variant_by_name(U.SREG_ENUM, "R13")[0], ()))),
        ("index=None", dict(index="None"), "index", A.NONE),
        ("index=R12", dict(index="R12"), "index", A.SOME(("agg", P.SREG, facts.enum_variant_by_name(U.SREG_ENUM, "R12")[0], ()))),
        ("segment=FS", dict(segment="FS"), "segment", A.SOME(seg_variant(facts, "FS"))),
        ("segment=GS", dict(segment="GS"), "segment", A.SOME(seg_variant(facts, "GS"))),
        ("segment=DS", dict(segment="DS"), "segment", A.SOME(seg_variant(facts, "DS"))),
        ("segment=SS", dict(segment="SS"), "segment", A.SOME(seg_variant(facts, "SS"))),
        ("segment=None", dict(segment="None"), "segment", A.NONE),
    ]
    for label, kw, fname, exp in cases:
        outs = run_operand_builder(ctx, **kw)
        got, err = field(outs, fname)
        if err:
            ck.violation("C05.plumb", label, err, witness=[repr(o) for o in outs][:4])
        elif got != exp:
            ck.violation("C05.plumb", label, "%s = %s, expected %s" % (fname, A.show(got), A.show(exp)),
                         what="operand builder mis-translates a memory operand field")
        else:
            ck.ok("C05.plumb", label)
    outs = run_operand_builder(ctx)
    for fname, acc in (("scale", "memory_index_scale"), ("displacement", "memory_displacement64")):
        got, err = field(outs, fname)
        if err:
            ck.violation("C05.plumb", fname, err)
            continue
        g = U.strip(got)
        narrow = 64
        while g[0] in ("cast", "w"):
            if g[0] == "cast":
                narrow = min(narrow, g[4])
            g = U.strip(g[1])
        # the scale is 1, 2, 4 or 8 (iced): any integer type of at least 4 bits holds it; the displacement needs all 64
        if narrow < (4 if fname == "scale" else 64):
            g = ("narrowed", narrow)
        if g[0] == "ret" and g[1] == "iced_x86::Instruction::" + acc and g[2] == (P.INSTR,):
            ck.ok("C05.plumb", fname)
        else:
            ck.violation("C05.plumb", fname, "%s = %s, expected %s()" % (fname, A.show(got), acc),
                         what="operand builder takes %s from the wrong iced accessor" % fname)
    ck.floor("plumbing cases", len(cases) + 2, 13)


def lea(ctx):
    ck, facts, O, D, hm = ctx.check, ctx.facts, ctx.oracle, ctx.dispatch, ctx.hmodel
    impl = D.implemented()
    codes = sorted(c for c in impl if O["codes"][c]["mnemonic"] == "Lea" and hm.producible(c))
    scale = A.W(("scale",), 32)
    disp = A.W(("disp",), 64)
    for code in codes:
        oc = O["codes"][code]
        where = U.handler_where(facts, D, code)
        nbits = {"r16_reg": 16, "r32_reg": 32, "r64_reg": 64}.get(oc["kinds"][0])
        for seg, cname in (("DS", "a64"), ("FS", "a64"), ("GS", "a64"), ("FS", "a32(67h)"), ("DS", "a32(67h)")):
            shape = hm.shapes(code)[0]
            label, kinds, spec = shape
            d = D.codes[code]
            breg, ireg, abits = ADDR_CLASSES[cname]
            m = memop(facts, base=A.SOME(sreg(facts, breg)), index=A.SOME(sreg(facts, ireg)),
                      segment=A.SOME(seg_variant(facts, seg)), scale=scale, displacement=disp)

            class Pr(P.HandlerPrims):
                def operand_value(self, path, k):
                    if k == 1:
                        return ("agg", P.OPERAND, P.OP_MEMORY, (m,))
                    return P.HandlerPrims.operand_value(self, path, k)
            pr = Pr(facts, ctx.roles, spec, code=code, mnemonic=d["mnemonic"], opkinds=kinds, inline_mem_addr=True)
            pred = iced_reg_predicates(ctx)

            def icpt(I_, path, frame, t, name, args, pr=pr, pred=pred):
                r_ = pred(I_, path, frame, t, name, args)
                return r_ if r_ is not None else pr.intercept(I_, path, frame, t, name, args)
            I = A.Interp(facts, intercept=icpt)
            outs = list(I.run(facts.bodies[d["handler"]], [P.self_ref(), P.INSTR], A.Path()))
            rets = [o for o in outs if o.kind == "return"]
            inst = "Code=%s,segment=%s,class=%s" % (code, seg, cname)
            if not rets:
                ck.violation("C05.lea", inst, "no success path", where=where, witness=[repr(o) for o in outs][:4])
                continue
            for o in rets:
                ws = [e for e in o.path.events if e[0] == "reg_write" and U.reg_name(facts, e[2]) == "op0"]
                if len(ws) != 1 or ws[0][1] != nbits:
                    ck.violation("C05.lea", inst, "destination written %d times / at %s bits" % (
                        len(ws), ws[0][1] if ws else None), where=where)
                    continue
                v = ws[0][3]
                lv = H.leaves(v)
                segdep = [x for x in lv if x[0] == "field" and x[2] in ("fs", "gs")]
                if segdep:
                    ck.violation("C05.lea", inst, "result depends on state.%s" % segdep[0][2], where=where,
                                 what="LEA adds the FS/GS base; hardware ignores segment overrides for LEA")
                    continue
                # truncation: low nbits of the address mem_addr yields for this operand (segment ignored), zero above
                m0 = memop(facts, base=A.SOME(sreg(facts, breg)), index=A.SOME(sreg(facts, ireg)),
                           segment=A.NONE, scale=scale, displacement=disp)
                eo, _ = run_mem_addr(ctx, m0)
                er = [x for x in eo if x.kind == "return"]
                bv = A.bitvec(v, o.path)
                fb = A.bitvec(er[0].value, er[0].path) if len(er) == 1 else None
                if fb is None or bv[:nbits] != fb[:nbits] or any(b != 0 for b in bv[nbits:]):
                    ck.violation("C05.lea", inst, "written value is not the low %d bits of the address" % nbits, where=where)
                else:
                    ck.ok("C05.lea", inst)
    ck.floor("LEA forms", len(codes), 3)
