"""C09 Memory permissions are enforced on every access path.

C09.gate    3 raw accessors x 8 permission masks: the area's bytes are touched iff the mask has READ / WRITE / EXEC
C09.denied  a denied access returns Err and touches nothing
C09.who     only the gated accessors, the lifecycle functions, mem_prot and the renderer touch MemoryArea.data/.access;
            nothing hands out a reference into area storage
C09.init    constructor marks code R|X; loader applies elf_flags_to_prot(p_flags); elf_flags_to_prot is the R/W/X permutation
C09.prot    mem_prot stores only `access` of the matching area, after the <= 7 guard
"""
LEVEL = "proof"

from .. import absint as A
from .. import facts as F
from .. import hutil as U
from .. import memmodel as M
from .. import prims as P

AREA_ADT = "state::memory::MemoryArea"
ACCESS = ("field", M.AREA, "access")


def data_events(o):
    out = []
    for e in o.path.events:
        if e[0] in ("refcall", "mutcall") and e[2][0] == M.AREA_ROOT:
            names = [p[2] for p in e[2][1] if isinstance(p, tuple) and p[0] == "f"]
            if "data" in names and not e[1].endswith("::len"):
                out.append(e)
        if e[0] == "store" and e[1][0] == M.AREA_ROOT:
            out.append(e)
    return out


def accessor_specs(ctx):
    R = ctx.roles
    facts = ctx.facts
    return [
        ("mem_read_bytes", facts.bodies[R.mem_read_bytes], 1,
         lambda: [P.self_ref(False), A.W(("address",), 64), A.W(("length",), 64)], [("length",)]),
        ("mem_write_bytes", facts.bodies[R.mem_write_bytes], 2,
         lambda: [P.self_ref(True), A.W(("address",), 64), ("dataslice",)],
         [("len", ("dataslice",))]),
        ("mem_read_executable_bytes", facts.bodies[R.decoders()[2]], 4,
         lambda: [P.self_ref(False), A.W(("address",), 64)], []),
    ]


def run_accessor(ctx, body, args, extents, order=None, mask=None):
    facts = ctx.facts
    roles = M.EndpointRoles(("address",), extents)
    unroled = []
    mp = M.MemPrims(facts)
    I = A.Interp(facts, intercept=mp.intercept, max_paths=200000)
    I.cmp_oracle = M.make_cmp_oracle(roles, unroled)
    path = A.Path()
    if order is not None:
        path.tags["order"] = order
    if mask is not None:
        path.assume = {ACCESS: [(mask >> i) & 1 for i in range(32)]}
    outs = list(I.run(body, args, path))
    return outs, unroled, I


def is_err(o):
    v = o.value
    return v is not None and v[0] == "agg" and v[1] == A.RESULT and v[2] == 1


def run(ctx):
    gates(ctx)
    who(ctx)
    init(ctx)
    prot(ctx)
    resize_keeps_mask(ctx)


def resize_keeps_mask(ctx):
    """C09.prot (resize): resizing an area leaves its permission mask as it was -- the final-value analysis of
    mem_resize_section shared with C10.resize (in place, or removed and re-created)"""
    from . import C10
    ck = ctx.check

    class _Fwd:
        def __init__(self, ck_):
            self.ck, self.cov, self.samples, self.assumptions, self.violations = ck_, {}, [], ck_.assumptions, ck_.violations
            self.hit = False

        def ok(self, rule, instance=None, n=1): pass

        def violation(self, rule, instance, observed, **kw):
            if rule == "C10.resize" and "permission mask" in observed:
                self.hit = True
                self.ck.violation("C09.prot", "api=mem_resize_section", observed, **kw)

        def undecided_(self, *a, **k): pass
        def floor(self, *a, **k): pass
        def sample(self, *a, **k): pass
    sub = type("Sub", (), {})()
    sub.__dict__.update(ctx.__dict__)
    sub.check = _Fwd(ck)
    C10.resize_copy(sub)
    if not sub.check.hit:
        ck.ok("C09.prot", "api=mem_resize_section")


def gates(ctx):
    ck = ctx.check
    n = 0
    for api, body, bit, mkargs, extents in accessor_specs(ctx):
        where = "%s:%d (%s)" % (body["span"][0], body["span"][1], body["name"])
        for mask in range(8):
            outs, _, _ = run_accessor(ctx, body, mkargs(), extents, mask=mask)
            touched = [o for o in outs if o.kind == "return" and not is_err(o) and data_events(o)]
            touched_any = [o for o in outs if data_events(o)]
            inst = "api=%s,mask=%d" % (api, mask)
            want = bool(mask & bit)
            n += 1
            if bool(touched) != want:
                ck.violation("C09.gate", inst, "area bytes %s with mask %d (needs bit %d)" % (
                    "accessed" if touched else "never accessed", mask, bit), where=where,
                    what="permission check missing, inverted or testing the wrong bit")
            else:
                ck.ok("C09.gate", inst)
            if not want:
                bad = [o for o in touched_any]
                okret = [o for o in outs if o.kind == "return" and not is_err(o) and any(e[0] == "find" and e[1] == "some" for e in o.path.events)]
                if bad or okret:
                    ck.violation("C09.denied", inst, "denied access %s" % ("touches area bytes" if bad else "returns Ok"), where=where)
                else:
                    ck.ok("C09.denied", inst)
    ck.sample({"rule": "C09.gate", "classes": n, "accessors": ["mem_read_bytes", "mem_write_bytes", "mem_read_executable_bytes"]})
    ck.floor("gate classes", n, 24)
    ck.cov["exhaustive"] = True  # 3 accessors x 8 masks


def bodies_touching(facts, field):
    """bodies (non-glue) with a place projecting MemoryArea.<field>, with the kind of use"""
    out = {}
    for k, b in facts.bodies.items():
        if b["glue"]:
            continue
        uses = set()

        def scan_place(pl, how):
            for e in pl[1]:
                if isinstance(e, list) and e[0] == "f" and e[2] == field and e[3] == AREA_ADT:
                    uses.add(how)

        def scan_op(op, how):
            if op[0] in ("c", "m"):
                scan_place(op[1], how)
        for blk in b["blocks"]:
            for st in blk["s"]:
                if st[0] != "a":
                    continue
                scan_place(st[1], "store")
                rv = st[2]
                if rv[0] == "use":
                    scan_op(rv[1], "read")
                elif rv[0] == "ref":
                    scan_place(rv[2], "borrow_mut" if rv[1] == "mut" else "borrow")
                elif rv[0] in ("bin",):
                    scan_op(rv[2], "read")
                    scan_op(rv[3], "read")
                elif rv[0] in ("un", "cast"):
                    scan_op(rv[2], "read")
                elif rv[0] == "agg":
                    for o in rv[2]:
                        scan_op(o, "read")
                    if rv[1][0] == "adt" and rv[1][1] == AREA_ADT:
                        uses.add("construct")
                elif rv[0] in ("discr",):
                    scan_place(rv[1], "read")
            t = blk["term"]
            if t["k"] == "call":
                for a in t["args"]:
                    scan_op(a, "read")
        if uses:
            out[k] = uses
    return out


def who(ctx):
    ck, facts, R = ctx.check, ctx.facts, ctx.roles
    gated = {R.mem_read_bytes, R.mem_write_bytes, R.decoders()[2]}
    from . import C10
    lifecycle = {facts.method("axecutor::Axecutor", "mem_resize_section")["path"]} | set(C10.area_pushers(facts))
    for k_, b_ in facts.bodies.items():   # and whatever builds a MemoryArea value
        if not b_["glue"] and any(st[0] == "a" and st[2][0] == "agg" and st[2][1][0] == "adt" and st[2][1][1] == AREA_ADT
                                  for blk in b_["blocks"] for st in blk["s"]):
            lifecycle.add(k_.split("::{closure")[0])
    protf = facts.method("axecutor::Axecutor", "mem_prot")["path"]
    renderer = {k for k in facts.bodies if facts.bodies[k].get("impl_self") == AREA_ADT and not facts.bodies[k]["glue"]}

    def owner(k):
        return k.split("::{closure")[0]
    for field in ("data", "access"):
        users = bodies_touching(facts, field)
        for k, uses in sorted(users.items()):
            o = owner(k)
            inst = "field=%s,fn=%s" % (field, facts.bodies[o]["name"] if o in facts.bodies else o)
            allowed = False
            if o in gated:
                allowed = True
            elif o in lifecycle:
                allowed = True
            elif o == protf and field == "access":
                allowed = True
            elif o in renderer and not (uses & {"store", "borrow_mut"}):
                allowed = True
            elif uses <= {"read", "borrow"} and field == "access":
                # read-only uses of the mask (messages) do not bypass a gate
                allowed = True
            if allowed:
                ck.ok("C09.who", inst)
            else:
                b = facts.bodies[k]
                ck.violation("C09.who", inst, "touches MemoryArea.%s (%s) outside the gated accessors" % (field, ",".join(sorted(uses))),
                             where="%s:%d" % (b["span"][0], b["span"][1]),
                             what="a new access path to area storage bypasses the permission gates")
    # nothing returns a reference into area storage; the type is not nameable from outside
    adt = facts.adts.get(AREA_ADT)
    if adt is None:
        ck.floor("MemoryArea adt", 0, 1)
        return
    if adt["vis"] == "pub":
        ck.violation("C09.who", "type=MemoryArea", "type is public", what="external code could construct or hold areas")
    else:
        ck.ok("C09.who", "type=MemoryArea")
    for fld in adt["variants"][0]["fields"]:
        if fld["vis"] == "pub":
            ck.violation("C09.who", "field=MemoryArea.%s" % fld["name"], "field is public")
        else:
            ck.ok("C09.who", "field=MemoryArea.%s" % fld["name"])
    for k, b in facts.bodies.items():
        if b["glue"] or b["kind"] == "Closure":
            continue
        rt = b["locals"][0]
        s = repr(rt)
        if "MemoryArea" in s and "'ref'" in s and b["vis"] == "pub":
            ck.violation("C09.who", "fn=%s" % b["name"], "public function returns a reference to area storage",
                         where="%s:%d" % (b["span"][0], b["span"][1]))
    ms = facts.adts.get("axecutor::MachineState")
    mem_field = [f_ for f_ in ms["variants"][0]["fields"] if f_["name"] == "memory"] if ms else []
    if mem_field and mem_field[0]["vis"] != "pub":
        ck.ok("C09.who", "field=MachineState.memory")
    else:
        ck.violation("C09.who", "field=MachineState.memory", "public or missing")
    ck.floor("bodies touching data/access", len(bodies_touching(facts, "data")) + len(bodies_touching(facts, "access")), 6)


def init(ctx):
    """constructor: mem_prot(code_start, R|X) on every Ok path; loader: mem_prot(p_vaddr, elf_flags_to_prot(p_flags))."""
    ck, facts = ctx.check, ctx.facts
    # elf_flags_to_prot: A4 over 8 inputs
    try:
        ef = facts.one("elf_flags_to_prot")
    except KeyError as e:
        ck.violation("C09.init", "fn=elf_flags_to_prot", str(e))
        ef = None
    if ef is not None:
        I = A.Interp(facts)
        I.widen_at = 40   # a loop over a three-entry constant table is unrolled exactly
        # all 8 R/W/X combinations, alone and with every other p_flags bit (OS / processor specific bits are legal and
        # must not leak into the permission mask): 8 x (1 + 29 single bits + all of them)
        extras = [0] + [1 << i for i in range(3, 32)] + [0xFFFFFFF8]
        for fl in range(8):
            want = ((fl >> 2) & 1) | (fl & 2) | ((fl & 1) << 2)   # PF_R=4->1, PF_W=2->2, PF_X=1->4
            bad = None
            for ex in extras:
                outs = list(I.run(ef, [A.INT(fl | ex, 32)], A.Path()))
                rets = [o for o in outs if o.kind == "return"]
                if not (len(rets) == 1 and len(outs) == 1 and A.is_int(rets[0].value) and rets[0].value[1] == want):
                    bad = bad or "p_flags=%#x maps to %s, expected %d" % (fl | ex, [A.show(o.value) if o.value else o.kind for o in outs][:3], want)
            inst = "elf_flags=%d" % fl
            if bad is None:
                ck.ok("C09.init", inst, len(extras))
            else:
                ck.violation("C09.init", inst, bad, what="ELF segment flags translated to the wrong permission mask")
    # constructor
    new = [k for k in facts.by_name("new") if facts.bodies[k].get("impl_self") == "axecutor::Axecutor"]
    if len(new) != 1:
        ck.violation("C09.init", "api=new", "anchor matches %d bodies" % len(new))
    else:
        must_call_prot(ctx, facts.bodies[new[0]], "api=new", want_mask=5)
    fb = [k for k in facts.by_name("from_binary") if facts.bodies[k].get("impl_self") == "axecutor::Axecutor"]
    if len(fb) != 1:
        ck.violation("C09.init", "api=from_binary", "anchor matches %d bodies" % len(fb))
    else:
        # the loader: decided on the interpreted paths of from_binary (shared with C15): every loaded segment gets
        # mem_prot(p_vaddr, permutation of its own p_flags), and no other program header changes it afterwards
        from . import C15

        class _Fwd:
            def __init__(self, ck_):
                self.ck, self.cov, self.samples, self.assumptions, self.violations = ck_, {}, [], ck_.assumptions, ck_.violations

            def ok(self, rule, instance=None, n=1):
                if rule in ("C15.perm", "C15.others"):
                    self.ck.ok("C09.init", "api=from_binary,%s" % rule.split(".")[1], n)

            def violation(self, rule, instance, observed, **kw):
                if rule in ("C15.perm", "C15.others"):
                    self.ck.violation("C09.init", "api=from_binary,%s" % rule.split(".")[1], observed, **kw)

            def undecided_(self, *a, **k): pass
            def floor(self, *a, **k): pass
            def sample(self, *a, **k): pass
        sub = type("Sub", (), {})()
        sub.__dict__.update(ctx.__dict__)
        sub.check = _Fwd(ck)
        C15.run(sub)


def must_call_prot(ctx, body, inst, want_mask):
    """every success path of the constructor leaves the code area (the area it adds at the code start address) with
    exactly the wanted permission mask -- whether it is created with it or re-protected afterwards. The constructor is
    interpreted down to the `push` onto the area list (the pushed MemoryArea value carries its initial mask) with
    mem_prot as a primitive."""
    ck, facts = ctx.check, ctx.facts
    protp = facts.method("axecutor::Axecutor", "mem_prot")["path"]
    mp = M.MemPrims(facts)
    adt = facts.adts[AREA_ADT]
    fnames = [f_["name"] for f_ in adt["variants"][0]["fields"]]

    def icpt(I, path, frame, t, name, args):
        short = name.rsplit("::", 1)[1].split("::<")[0] if "::" in name else name
        if short == "push" and "MemoryArea" in " ".join(t["f"].get("gargs", [])) and len(args) == 2:
            path.events.append(("area_pushed", args[1]))
            return [(A.UNIT, path)]
        if short == "insert" and name.startswith("std::vec::Vec") and "MemoryArea" in " ".join(t["f"].get("gargs", [])) and len(args) == 3:
            path.events.append(("area_pushed", args[2]))  # added at a chosen position (a sorted list): still added
            return [(A.UNIT, path)]
        if name == protp:
            path.events.append(("prot", args[1], args[2]))
            p2 = path.copy()
            return [(A.OK(A.UNIT), path), (A.ERR(("e",)), p2)]
        return mp.intercept(I, path, frame, t, name, args)
    I = A.Interp(facts, intercept=icpt, max_paths=20000)
    outs = list(I.run(body, [("codeslice",), A.W(("code_start",), 64), A.W(("initial_rip",), 64)], A.Path()))
    oks = [o for o in outs if o.kind == "return" and not is_err(o)]
    if not oks:
        ck.violation("C09.init", inst, "no success path found", witness=[repr(o) for o in outs][:4])
        return
    bad = None
    START = A.W(("code_start",), 64)
    for o in oks:
        pushed = [e[1] for e in o.path.events if e[0] == "area_pushed"]
        code = []
        for a_ in pushed:
            if a_[0] == "agg" and len(a_[3]) == len(fnames):
                fld = dict(zip(fnames, a_[3]))
                if U.strip(fld["start"]) == U.strip(START):
                    code.append(fld)
        if not code:
            bad = bad or "a success path adds no area at the code start address"
            continue
        mask = I.decide(o.path, code[-1]["access"])
        for e in o.path.events:
            if e[0] == "prot" and U.strip(e[1]) == U.strip(START):
                mask = I.decide(o.path, e[2])
        if mask != want_mask:
            bad = bad or "the code area ends up with permission mask %s, expected %d (READ|EXEC)" % (mask, want_mask)
    if bad:
        ck.violation("C09.init", inst, bad, where="%s:%d" % (body["span"][0], body["span"][1]),
                     what="constructor leaves the code area writable / not executable")
    else:
        ck.ok("C09.init", inst, len(oks))


def loader_prot(ctx, body):
    """In from_binary: a call mem_prot(p_vaddr-term, elf_flags_to_prot(p_flags-term)) post-dominates the
    area creations of the PT_LOAD arm (same block region)."""
    ck, facts = ctx.check, ctx.facts
    protp = facts.method("axecutor::Axecutor", "mem_prot")["path"]
    efp = facts.one("elf_flags_to_prot")["path"]
    creators = {facts.method("axecutor::Axecutor", n)["path"] for n in ("mem_init_area_named", "mem_init_zero_named")}
    bl = body["blocks"]
    prot_blocks = [i for i, b in enumerate(bl) if b["term"]["k"] == "call" and F.callee_name(b["term"]) == protp]
    ef_blocks = [i for i, b in enumerate(bl) if b["term"]["k"] == "call" and F.callee_name(b["term"]) == efp]
    cr_blocks = [i for i, b in enumerate(bl) if b["term"]["k"] == "call" and F.callee_name(b["term"]) in creators]
    inst = "api=from_binary"
    if not prot_blocks or not ef_blocks or not cr_blocks:
        ck.violation("C09.init", inst, "anchors: mem_prot=%d elf_flags_to_prot=%d creators=%d" % (
            len(prot_blocks), len(ef_blocks), len(cr_blocks)),
            what="loader no longer applies the segment's permissions")
        return
    # mask argument of mem_prot is the result of elf_flags_to_prot
    good = False
    for pb in prot_blocks:
        t = bl[pb]["term"]
        m = t["args"][2]
        for eb in ef_blocks:
            d = bl[eb]["term"]["dest"]
            if m[0] in ("c", "m") and m[1][0] == d[0]:
                good = True
                # argument of elf_flags_to_prot must be a p_flags field read
                a = bl[eb]["term"]["args"][0]
                src = field_source(body, eb, a)
                if src != "p_flags":
                    ck.violation("C09.init", inst, "elf_flags_to_prot applied to %s, expected p_flags" % src)
                else:
                    ck.ok("C09.init", inst + ",flags-source")
    if not good:
        ck.violation("C09.init", inst, "mem_prot mask is not elf_flags_to_prot(..)")
        return
    # every creator block reaches a mem_prot block on all paths to the loop back-edge / return without passing Ok-continue
    for cb in cr_blocks:
        if not must_reach(body, cb, set(prot_blocks)):
            ck.violation("C09.init", inst, "a path from segment area creation skips mem_prot",
                         where=F.site_str(body, bl[cb]["term"]["sp"]))
        else:
            ck.ok("C09.init", inst + ",creator@%s" % F.callee_name(bl[cb]["term"]).rsplit("::", 1)[1])


def field_source(body, bb, op):
    """name of the struct field an operand was copied from in block bb (or earlier single-def), else None"""
    if op[0] not in ("c", "m"):
        return None
    pl = op[1]
    names = [e[2] for e in pl[1] if isinstance(e, list) and e[0] == "f"]
    if names:
        return names[-1]
    loc = pl[0]
    for b in body["blocks"]:
        for st in b["s"]:
            if st[0] == "a" and st[1][0] == loc and not st[1][1] and st[2][0] == "use" and st[2][1][0] in ("c", "m"):
                names = [e[2] for e in st[2][1][1][1] if isinstance(e, list) and e[0] == "f"]
                if names:
                    return names[-1]
    return None


def must_reach(body, start, targets):
    """every non-error path from `start` hits a target block before looping back or returning Ok:
    error exits (paths that go through from_residual / Err construction) are exempt."""
    bl = body["blocks"]
    seen = set()
    st = [start]
    first = True
    while st:
        n = st.pop()
        if n in seen:
            continue
        seen.add(n)
        if n in targets and not first:
            continue
        first = False
        t = bl[n]["term"]
        if any(st_[0] == "a" and st_[1] == [0, []] and st_[2][0] == "agg" and st_[2][1][0] == "adt"
               and st_[2][1][1] == "std::result::Result" and st_[2][1][3] == "Err" for st_ in bl[n]["s"]):
            continue  # explicit `return Err(..)`
        if t["k"] == "return":
            return False
        if t["k"] == "call" and "from_residual" in F.callee_name(t):
            continue  # error exit
        nxt = F.succs(bl[n])
        # loop back to an Iterator::next = next segment: a miss
        if t["k"] == "call" and F.callee_name(t).endswith("::next") and n != start:
            return False
        for s in nxt:
            st.append(s)
    return True


def prot(ctx):
    ck, facts = ctx.check, ctx.facts
    body = facts.method("axecutor::Axecutor", "mem_prot")
    mp = M.MemPrims(facts)
    PROT = A.W(("prot",), 32)
    I = A.Interp(facts, intercept=mp.intercept)
    outs = list(I.run(body, [P.self_ref(True), A.W(("section_start",), 64), PROT], A.Path()))
    where = "%s:%d (mem_prot)" % (body["span"][0], body["span"][1])
    bad = None
    nstore = 0
    for o in outs:
        stores = [e for e in o.path.events if e[0] == "store" and e[1][0] == M.AREA_ROOT]
        others = [e for e in o.path.events if e[0] in ("store", "mutcall") and e[1 if e[0] == "store" else 2][0] != M.AREA_ROOT]
        for e in stores:
            nstore += 1
            names = [p[2] for p in e[1][1] if isinstance(p, tuple) and p[0] == "f"]
            if names != ["access"]:
                bad = bad or "stores area.%s" % ".".join(names)
            if U.strip(e[2]) != ("prot",):
                bad = bad or "stores %s, not the requested mask" % A.show(e[2])
            # guard: prot <= 7 assumed on the storing path
            # (however the test is spelled: every bit of the mask above the three permission bits is known to be clear)
            if o.path.maxbits.get(("prot",)) != 3 and o.path.maxbits.get(PROT) != 3 and \
                    any(b_ != 0 for b_ in A.bitvec(PROT, o.path)[3:]):
                bad = bad or "no `prot <= 7` guard before the store"
            # matching area: section_start == area.start assumed
            if not any(c[0][0] == "bin" and c[0][1] == "Eq" and M.is_area_field(c[0][3], "start") or
                       (c[0][0] == "bin" and c[0][1] == "Eq" and M.is_area_field(c[0][2], "start")) for c in o.path.conds):
                bad = bad or "store not guarded by section_start == area.start"
        if others:
            bad = bad or "touches other state: %s" % U.show_event(facts, others[0])
    if nstore == 0:
        bad = bad or "no store to area.access found"
    if bad:
        ck.violation("C09.prot", "api=mem_prot", bad, where=where)
    else:
        ck.ok("C09.prot", "api=mem_prot")
