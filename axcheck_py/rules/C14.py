"""C14 Built-in pipe handler implements FIFO byte streams (necessary structural conditions).

C14.keys         pipe(): the buffer key is the read end, and it is the value recorded for the write end; the two fds
                 reported to the guest are those two ends; read indexes the buffer with fd for get and insert;
                 write indexes it with the value loaded from pipes_write_ends[fd]
C14.split        read delivers buf[..m], keeps buf[m..] with the same m = min(count, len) and returns m;
                 write appends exactly the bytes read from (buf, count) and returns count
C14.passthrough  other syscall numbers / unknown descriptors: Unhandled with nothing touched
Declined: FIFO order over interleavings as such (a property of histories); collisions of the random descriptors.
"""
from .. import absint as A
from .. import facts as F
from .. import hutil as U
from .. import prims as P
from .rules_common import is_err
from . import C13

AXE = "axecutor::Axecutor"


def fieldnames(loc):
    return [p[2] for p in loc[1] if isinstance(p, tuple) and p[0] == "f"]


def strip_all(t):
    while t[0] in ("w", "cast", "deref"):
        t = t[1]
    return t


def map_calls(o, meth, field):
    return [e for e in o.path.events if e[0] in ("mutcall", "refcall") and e[1].rsplit("::", 1)[1] == meth
            and fieldnames(e[2])[-1:] == [field]]


def run(ctx):
    ck, facts = ctx.check, ctx.facts
    try:
        reg = facts.method(AXE, "register_pipe")
    except KeyError as e:
        ck.violation("C14.keys", "pipe hooks", str(e))
        return
    cl = [c for c in facts.closures_of(reg["path"]) if c.count("{closure#") == 1]
    ck.floor("pipe hook closures", len(cl), 3)
    extra_calls = []

    def extra(I, path, frame, t, name, args):
        short = name.rsplit("::", 1)[1] if "::" in name else name
        if short in ("and_modify", "or_insert", "or_insert_with", "extend_from_slice", "or_default"):
            path.events.append(("call", short, tuple(I.norm_arg(path, a) for a in args)))
        return None
    runs = {}
    for c in cl:
        outs, I, b = C13.run_hook_closure(ctx, c, extra)
        rets = [o for o in outs if o.kind == "return"]
        sels = {C13.rax_selector(facts, o)[0] for o in rets if C13.rax_selector(facts, o)}
        for s in sels:
            runs[s] = (outs, I, b)
    want = {22: "pipe", 0: "read", 1: "write"}
    for num, nm in want.items():
        if num not in runs:
            ck.violation("C14.keys", "syscall=%s" % nm, "no hook selects RAX == %d" % num)
    for num, (outs, I, b) in sorted(runs.items()):
        nm = want.get(num)
        if nm is None:
            continue
        where = "%s:%d (%s hook)" % (b["span"][0], b["span"][1], nm)
        rets = [o for o in outs if o.kind == "return"]
        # ---- passthrough
        pbad = None
        for o in rets:
            sel = C13.rax_selector(facts, o)
            res = C13.hook_result(o)
            eff = [e for e in o.path.events if e[0] in ("reg_write", "mem_write", "mutcall", "store")]
            if sel and not sel[1]:
                if res != "unhandled" or eff:
                    pbad = pbad or "other syscall numbers are %s" % ("modified" if eff else "not left Unhandled")
            elif res == "unhandled":
                if eff:
                    pbad = pbad or "Unhandled returned after state was modified"
        if pbad:
            ck.violation("C14.passthrough", "syscall=%s" % nm, pbad, where=where,
                         what="read/write on non-pipe descriptors must be left for other hooks")
        else:
            ck.ok("C14.passthrough", "syscall=%s" % nm)
        handled = [o for o in rets if C13.hook_result(o) == "handled"]
        if not handled:
            ck.violation("C14.keys", "syscall=%s" % nm, "no Handled path", where=where)
            continue
        if nm == "pipe":
            pipe_create(ctx, handled, where)
        elif nm == "read":
            pipe_read(ctx, handled, rets, where)
        else:
            pipe_write(ctx, handled, rets, where)


def pipe_create(ctx, handled, where):
    ck, facts = ctx.check, ctx.facts
    bad = None
    for o in handled:
        r = map_calls(o, "insert", "pipes_read_ends")
        w = map_calls(o, "insert", "pipes_write_ends")
        c = map_calls(o, "insert", "pipe_contents")
        if len(r) != 1 or len(w) != 1 or len(c) != 1:
            bad = bad or "inserts: read_ends=%d write_ends=%d contents=%d" % (len(r), len(w), len(c))
            continue
        R, Wt = r[0][3][1], r[0][3][2]
        Wt2, R2 = w[0][3][1], w[0][3][2]
        K = c[0][3][1]
        if R == Wt:
            bad = bad or "both ends are the same value"
        if not (Wt == Wt2 and R == R2):
            bad = bad or "the two end maps are not inverse of each other"
        if K != R2:
            bad = bad or "buffer keyed by %s, but the write end maps to %s" % (A.show(K), A.show(R2))
        mw = [e for e in o.path.events if e[0] == "mem_write" and e[1] == 64]
        vals = [e[3] for e in mw]
        if len(mw) != 2 or vals[0] != R or vals[1] != Wt:
            bad = bad or "guest receives %s, expected [read end, write end]" % [A.show(v)[:40] for v in vals]
        else:
            a0, a1 = mw[0][2], mw[1][2]
            if not U.affine_eq(a1, ("bin", "Add", a0, A.INT(8, 64), 64)):
                bad = bad or "second descriptor not stored at fd_ptr + 8"
        # a fresh buffer
        newv = c[0][3][2]
        if not (newv[0] == "ret" and newv[1].endswith("::new")):
            bad = bad or "new pipe does not start empty"
    if bad:
        ck.violation("C14.keys", "syscall=pipe", bad, where=where, what="pipe ends and buffer key are inconsistent")
    else:
        ck.ok("C14.keys", "syscall=pipe")


def pipe_read(ctx, handled, rets, where):
    ck, facts = ctx.check, ctx.facts
    kbad = sbad = None
    for o in handled:
        g = map_calls(o, "get", "pipe_contents")
        ins = map_calls(o, "insert", "pipe_contents")
        if len(g) != 1 or len(ins) != 1:
            kbad = kbad or "get=%d insert=%d on the buffer map" % (len(g), len(ins))
            continue
        fd = strip_all(g[0][3][1])
        if not (fd[0] == "reg" and U.reg_name(facts, fd[2]) == "RDI"):
            kbad = kbad or "buffer looked up with %s, not the descriptor in RDI" % A.show(fd)
        if strip_all(ins[0][3][1]) != fd:
            kbad = kbad or "remaining bytes stored under %s, looked up under %s" % (A.show(ins[0][3][1]), A.show(fd))
        # split
        mw = [e for e in o.path.events if e[0] == "mem_write" and e[1] == "bytes"]
        rax = [e for e in o.path.events if e[0] == "reg_write" and U.reg_name(facts, e[2]) == "RAX"]
        if len(mw) != 1 or len(rax) != 1:
            sbad = sbad or "guest writes=%d RAX writes=%d" % (len(mw), len(rax))
            continue
        deliv = strip_all(mw[0][3])
        kept = strip_all(ins[0][3][2])
        if kept[0] == "ret" and kept[1].endswith("::to_vec"):
            kept = strip_all(kept[2][0])
        ok_shape = deliv[0] == "ret" and "::index" in deliv[1] and kept[0] == "ret" and "::index" in kept[1]
        if not ok_shape:
            sbad = sbad or "delivered/kept bytes are not slices of the buffer"
            continue
        X1, r1 = strip_all(deliv[2][0]), deliv[2][1]
        X2, r2 = strip_all(kept[2][0]), kept[2][1]
        if X1 != X2:
            sbad = sbad or "delivered and kept bytes come from different buffers"
        if not (r1[0] == "agg" and r1[1].endswith("RangeTo") and r2[0] == "agg" and r2[1].endswith("RangeFrom")):
            sbad = sbad or "split is not buf[..m] / buf[m..] (%s / %s)" % (r1[1] if r1[0] == "agg" else r1[0], r2[1] if r2[0] == "agg" else r2[0])
            continue
        m1, m2 = strip_all(r1[3][0]), strip_all(r2[3][0])
        m = strip_all(rax[0][3])
        if m1 != m2:
            sbad = sbad or "delivers up to %s but keeps from %s" % (A.show(m1)[:60], A.show(m2)[:60])
        if m != m1:
            sbad = sbad or "returns %s, delivered %s bytes" % (A.show(m)[:60], A.show(m1)[:60])
        # m = min(count(RDX), len(buffer))
        if not (m1[0] == "ret" and m1[1] == "min"):
            sbad = sbad or "byte count is not min(requested, available)"
        else:
            a, b = strip_all(m1[2][0]), strip_all(m1[2][1])
            names = set()
            for x in (a, b):
                if x[0] == "reg":
                    names.add(U.reg_name(facts, x[2]))
                elif x[0] == "len":
                    names.add("len")
            if names != {"RDX", "len"}:
                sbad = sbad or "min over %s, expected (RDX, available length)" % sorted(str(n) for n in names)
        # buffer written to the guest at RSI
        dst = strip_all(mw[0][2])
        if not (dst[0] == "reg" and U.reg_name(facts, dst[2]) == "RSI"):
            sbad = sbad or "bytes delivered to %s, not the buffer in RSI" % A.show(dst)
    for rule, bad in (("C14.keys", kbad), ("C14.split", sbad)):
        if bad:
            ck.violation(rule, "syscall=read", bad, where=where, what="pipe read loses, duplicates or misroutes bytes")
        else:
            ck.ok(rule, "syscall=read")


def pipe_write(ctx, handled, rets, where):
    ck, facts = ctx.check, ctx.facts
    kbad = sbad = None
    for o in handled:
        g = map_calls(o, "get", "pipes_write_ends")
        en = map_calls(o, "entry", "pipe_contents")
        if len(g) != 1 or len(en) != 1:
            kbad = kbad or "get(write_ends)=%d entry(contents)=%d" % (len(g), len(en))
            continue
        fd = strip_all(g[0][3][1])
        if not (fd[0] == "reg" and U.reg_name(facts, fd[2]) == "RDI"):
            kbad = kbad or "write end looked up with %s, not RDI" % A.show(fd)
        key = strip_all(en[0][3][1])
        # key must be the payload of get(pipes_write_ends, fd)
        okk = key[0] == "vfield" and key[1][0] == "ret" and key[1][1].endswith("::get") and "pipes_write_ends" in repr(key[1][2][0])
        if not okk:
            kbad = kbad or "buffer keyed by %s, expected the read end recorded for this write end" % A.show(key)[:80]
        rd = [e for e in o.path.events if e[0] == "mem_read" and e[1] == "bytes"]
        rax = [e for e in o.path.events if e[0] == "reg_write" and U.reg_name(facts, e[2]) == "RAX"]
        if len(rd) != 1 or len(rax) != 1:
            sbad = sbad or "guest reads=%d RAX writes=%d" % (len(rd), len(rax))
            continue
        src, cnt = strip_all(rd[0][2]), strip_all(rd[0][3])
        if not (src[0] == "reg" and U.reg_name(facts, src[2]) == "RSI" and cnt[0] == "reg" and U.reg_name(facts, cnt[2]) == "RDX"):
            sbad = sbad or "reads (%s, %s), expected (RSI, RDX)" % (A.show(src), A.show(cnt))
        if strip_all(rax[0][3]) != cnt:
            sbad = sbad or "returns %s, wrote %s bytes" % (A.show(rax[0][3]), A.show(cnt))
        calls = {e[1]: e for e in o.path.events if e[0] == "call"}
        if "and_modify" not in calls or not ("or_insert" in calls or "or_insert_with" in calls):
            sbad = sbad or "buffer update is not entry().and_modify(append).or_insert(bytes)"
        else:
            oi = calls.get("or_insert")
            if oi is not None and not (strip_all(oi[2][1])[0] == "membytes"):
                sbad = sbad or "or_insert stores %s, not the bytes read" % A.show(oi[2][1])[:60]
    # the append closure
    reg = facts.method(AXE, "register_pipe")
    inner = [c for c in facts.closures_of(reg["path"]) if c.count("{closure#") == 2]
    appended = False
    for c in inner:
        b = facts.bodies[c]
        for blk in b["blocks"]:
            t = blk["term"]
            if t["k"] == "call" and F.callee_name(t).endswith("::extend_from_slice"):
                appended = True
    if not appended:
        sbad = sbad or "and_modify closure does not append (extend_from_slice)"
    for rule, bad in (("C14.keys", kbad), ("C14.split", sbad)):
        if bad:
            ck.violation(rule, "syscall=write", bad, where=where, what="pipe write loses, duplicates or misroutes bytes")
        else:
            ck.ok(rule, "syscall=write")
