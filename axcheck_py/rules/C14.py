"""C14 Built-in pipe handler implements FIFO byte streams (one call's transfer function, decided semantically).

The three hook closures are interpreted over an abstract model of the three descriptor maps and of byte vectors
(seqmodel.py): a map entry's final value is whatever the combination of get / get_mut / insert / entry().and_modify()
.or_insert() / Vec calls leaves there, as a byte-sequence expression in normal form (segments of the entry buffer B and of
the guest bytes G with affine bounds). The requested count is compared with the available length by class
(count < len, count = len, count > len: a comparison oracle), so neither the spelling of the map / Vec calls nor the
spelling of min() matters.

C14.keys         pipe(): read_ends[R] = W, write_ends[W] = R, contents[R] = empty, R and W distinct draws, the guest
                 receives [R, W]; read uses contents[RDI]; write uses contents[write_ends[RDI]]; no other entry changes
C14.split        read: delivered = B[..m], contents[fd] := B[m..], RAX = m with m = min(count, len B) (per class);
                 write: contents[key] := B ++ G (or G when the entry is missing), G = guest bytes (RSI, RDX), RAX = RDX
C14.atomic       a guest memory access that fails inside read / write / pipe makes the hook return that error with the
                 descriptor maps and buffers exactly as they were (nothing is consumed or appended by a failed call)
C14.passthrough  other syscall numbers / descriptors that are not pipe ends: Unhandled with nothing touched
Declined: FIFO order over interleavings as such (a property of histories; it follows from the per-call transfer
functions by induction, which is not mechanised here); collisions of the random descriptors.
"""
from .. import absint as A
from .. import hutil as U
from .. import seqmodel as SQ
from . import C13

AXE = "axecutor::Axecutor"
MAPS = ("pipes_read_ends", "pipes_write_ends", "pipe_contents")
CLASSES = (("count<len", 0, 1), ("count=len", 1, 1), ("count>len", 2, 1))


def reg_leaf(facts, t, name):
    t = U.strip(t)
    return t[0] == "reg" and U.reg_name(facts, t[2]) == name


def run(ctx):
    ck, facts = ctx.check, ctx.facts
    # which closure serves which syscall number (found by what each native hook's RAX test selects)
    by_num = {n: c for n, c in C13.hook_closures_by_syscall(ctx).items() if n in (22, 0, 1)}
    ck.floor("pipe hook closures", len(by_num), 3)
    want = {22: "pipe", 0: "read", 1: "write"}
    for num, nm in want.items():
        if num not in by_num:
            ck.violation("C14.keys", "syscall=%s" % nm, "no hook selects RAX == %d" % num)
    decided = 0
    for num, nm in sorted(want.items()):
        c = by_num.get(num)
        if c is None:
            continue
        b = facts.bodies[c]
        where = "%s:%d (%s hook)" % (b["span"][0], b["span"][1], nm)
        kbad = sbad = pbad = None
        und = None
        for cname, crank, lrank in (CLASSES if nm == "read" else (("any", None, None),)):
            sm = SQ.SeqMapPrims(facts, MAPS, ("pipe_contents",))

            def oracle(path, op, x, y, crank=crank, lrank=lrank):
                if crank is None:
                    return None

                def rank(t):
                    t = U.strip(t)
                    if reg_leaf(facts, t, "RDX"):
                        return crank
                    if t[0] == "len" and U.strip(t[1])[0] == "sqatom":
                        return lrank
                    return None
                rx, ry = rank(x), rank(y)
                if rx is None or ry is None:
                    return None
                return int({"Eq": rx == ry, "Ne": rx != ry, "Lt": rx < ry, "Le": rx <= ry, "Gt": rx > ry, "Ge": rx >= ry}[op])
            outs, I, _ = C13.run_hook_closure(ctx, c, sm.intercept, oracle)
            rets = [o for o in outs if o.kind == "return"]
            for o in rets:
                sel = C13.rax_selector(facts, o)
                res = C13.hook_result(o)
                eff = effects(o)
                if sel and not sel[1]:
                    if res != "unhandled" or eff:
                        pbad = pbad or "other syscall numbers are %s" % ("modified" if eff else "not left Unhandled")
                    continue
                if res == "unhandled":
                    if eff:
                        pbad = pbad or "Unhandled returned after state was modified"
                    continue
                if res != "handled":
                    continue
                if sm.unmodelled:
                    und = und or "map/vector call outside the model: %s" % sm.unmodelled[0]
                    continue
                decided += 1
                if nm == "pipe":
                    kbad = kbad or pipe_create(ctx, o)
                elif nm == "read":
                    k2, s2, p2 = pipe_read(ctx, o, cname)
                    kbad, sbad, pbad = kbad or k2, sbad or s2, pbad or p2
                else:
                    k2, s2, p2 = pipe_write(ctx, o)
                    kbad, sbad, pbad = kbad or k2, sbad or s2, pbad or p2
            if not any(C13.hook_result(o) == "handled" for o in rets):
                kbad = kbad or "no Handled path (%s)" % cname
        inst = "syscall=%s" % nm
        if und:
            ck.undecided_("C14", inst, und)
        for rule, bad in (("C14.keys", kbad), ("C14.split", sbad if nm != "pipe" else None), ("C14.passthrough", pbad)):
            if rule == "C14.split" and nm == "pipe":
                continue
            if bad:
                ck.violation(rule, inst, bad, where=where, what="pipe %s loses, duplicates or misroutes bytes" % nm
                             if rule != "C14.passthrough" else "read/write on non-pipe descriptors must be left for other hooks")
            else:
                ck.ok(rule, inst)
    # ---- atomicity on failure: every path on which a guest memory access faults
    for num, nm in sorted(want.items()):
        c = by_num.get(num)
        if c is None:
            continue
        b = facts.bodies[c]
        where = "%s:%d (%s hook)" % (b["span"][0], b["span"][1], nm)
        sm = SQ.SeqMapPrims(facts, MAPS, ("pipe_contents",))
        outs, I, _ = C13.run_hook_closure(ctx, c, sm.intercept, None, mem_fail_paths=True)
        abad = None
        nf = 0
        for o in outs:
            if o.kind != "return" or not any(e[0] == "mem_fault" for e in o.path.events):
                continue
            nf += 1
            fi = [i for i, e in enumerate(o.path.events) if e[0] == "mem_fault"][0]
            if C13.hook_result(o) != "err":
                abad = abad or "a failing guest memory access does not make the hook fail"
            changed = [e for e in o.path.events if e[0] == "map" and e[1] in ("set", "remove")]
            # in-place mutations through get_mut show up as a final root value that differs from the entry value
            for M_ in MAPS:
                for k_, v_ in roots(o, M_).items():
                    init_ = ("sqatom", (M_, k_)) if M_ == "pipe_contents" else A.W(("mapval", M_, k_), 64)
                    if v_ != init_ and v_ != SQ.ABSENT and o.path.tags.get(("pres", M_, k_)) is True and \
                            not any(e[0] == "map" and e[1] == "set" and e[2] == M_ and e[3] == k_ for e in o.path.events):
                        changed.append(("map", "in-place", M_, k_))
            if changed and nm != "pipe":
                abad = abad or "%s of %s although the guest memory access failed: bytes are lost or duplicated on a retry" % (
                    changed[0][1], changed[0][2])
        if nf == 0:
            abad = abad or "no failing-access path found"
        if abad:
            ck.violation("C14.atomic", "syscall=%s" % nm, abad, where=where, what="a failed read/write must leave the pipe as it was")
        else:
            ck.ok("C14.atomic", "syscall=%s" % nm, nf)
    ck.floor("Handled paths decided by the sequence model", decided, 6)
    ck.sample({"rule": "C14", "handled_paths_decided": decided, "classes": [c[0] for c in CLASSES],
               "model": "maps " + ", ".join(MAPS) + "; byte vectors as segment lists with affine bounds"})


def effects(o):
    return [e for e in o.path.events if e[0] in ("reg_write", "mem_write", "mutcall", "store") or
            (e[0] == "map" and e[1] in ("set", "remove"))]


def roots(o, M):
    """final state of map M on this path: {key term: value}"""
    out = {}
    for r, v in o.path.store.items():
        if r[0] == "L" and isinstance(r[1], tuple) and r[1] and r[1][0] == "mapent" and r[1][1] == M:
            out[r[1][2]] = v
    return out


def changed_keys(o, M):
    return {e[3] for e in o.path.events if e[0] == "map" and e[1] in ("set", "remove") and e[2] == M}


def pipe_create(ctx, o):
    facts = ctx.facts
    r, w, c = roots(o, "pipes_read_ends"), roots(o, "pipes_write_ends"), roots(o, "pipe_contents")
    rs, ws, cs = changed_keys(o, "pipes_read_ends"), changed_keys(o, "pipes_write_ends"), changed_keys(o, "pipe_contents")
    if len(rs) != 1 or len(ws) != 1 or len(cs) != 1:
        return "entries written: read_ends=%d write_ends=%d contents=%d, expected one each" % (len(rs), len(ws), len(cs))
    R, Wt, K = list(rs)[0], list(ws)[0], list(cs)[0]
    if R == Wt:
        return "both ends are the same value"
    if U.strip(r[R]) != Wt or U.strip(w[Wt]) != R:
        return "the two end maps are not inverse of each other"
    if K != R:
        return "buffer keyed by %s, but the write end maps to %s" % (A.show(K)[:40], A.show(R)[:40])
    if SQ.normal_form(c[K]) != []:
        return "a new pipe does not start empty"
    if not any(e[0] == "nondet" for e in o.path.events):
        return "descriptor numbers are not fresh draws"
    mw = [e for e in o.path.events if e[0] == "mem_write" and e[1] == 64]
    vals = [U.strip(e[3]) for e in mw]
    if len(mw) != 2 or vals[0] != R or vals[1] != Wt:
        return "guest receives %s, expected [read end, write end]" % [A.show(v)[:40] for v in vals]
    if not U.affine_eq(mw[1][2], ("bin", "Add", mw[0][2], A.INT(8, 64), 64)):
        return "second descriptor not stored at fd_ptr + 8"
    if not reg_leaf(facts, mw[0][2], "RDI"):
        return "descriptors stored at %s, not at the pointer in RDI" % A.show(mw[0][2])[:40]
    return None


def leaf_of(facts, o, name):
    for e in o.path.events:
        if e[0] == "reg_read" and U.reg_name(facts, e[2]) == name:
            return ("reg", 64, e[2], 0)
    return None


def pipe_read(ctx, o, cname):
    facts = ctx.facts
    kbad = sbad = pbad = None
    fd, cnt = leaf_of(facts, o, "RDI"), leaf_of(facts, o, "RDX")
    if fd is None or cnt is None:
        return "the descriptor / count registers are not read", None, None
    touched = {e[3] for e in o.path.events if e[0] == "map" and e[2] == "pipe_contents"}
    if not touched:
        return None, None, "Handled although RDI was never looked up in the pipe buffers"
    if touched != {fd}:
        kbad = "buffer entries used: %s, expected only contents[RDI]" % sorted(A.show(k)[:40] for k in touched)
        return kbad, None, None
    for M in ("pipes_read_ends", "pipes_write_ends"):
        if changed_keys(o, M):
            kbad = kbad or "read changes %s" % M
    if o.path.tags.get(("pres", "pipe_contents", fd)) is not True or \
            not any(e[0] == "map" and e[1] == "entry-state" and e[4] for e in o.path.events):
        pbad = "Handled although RDI has no pipe buffer"
        return kbad, None, pbad
    B = ("sqatom", ("pipe_contents", fd))
    LENB = A.LEN(B)
    sub = {}
    if cname == "count=len":
        sub = {cnt: LENB}
    m = A.W(cnt, 64) if cname == "count<len" else A.W(LENB, 64)
    final = roots(o, "pipe_contents").get(fd)
    mw = [e for e in o.path.events if e[0] == "mem_write" and e[1] == "bytes"]
    rax = [e for e in o.path.events if e[0] == "reg_write" and U.reg_name(facts, e[2]) == "RAX"]
    # a path that has established count == 0 (or an empty buffer) transfers nothing: m = 0
    zero_cnt = any(o.path.facts.get(t_) == ("eq", 0) for t_ in (cnt, A.W(cnt, 64)))
    zero_len = any(o.path.facts.get(t_) == ("eq", 0) for t_ in (LENB, A.W(LENB, 64)))
    if (zero_cnt and cname == "count>len") or (zero_len and cname == "count<len"):
        return kbad, None, pbad  # contradicts the class: not a feasible path
    zero = zero_cnt or zero_len
    if zero:
        m = A.INT(0, 64)
    if len(mw) > 1 or len(rax) != 1 or (not mw and not zero):
        return kbad, "guest writes=%d RAX writes=%d" % (len(mw), len(rax)), pbad
    if mw and not reg_leaf(facts, mw[0][2], "RSI"):
        sbad = sbad or "bytes delivered to %s, not to the buffer in RSI" % A.show(mw[0][2])[:40]
    want_d = SQ.normal_form(SQ.mk_slice(B, None, m), sub)
    want_k = SQ.normal_form(SQ.mk_slice(B, m, None), sub)
    got_d = [] if not mw else SQ.normal_form(mw[0][3], sub) if SQ.is_seq(mw[0][3]) else None
    got_k = SQ.normal_form(final, sub) if final is not None and SQ.is_seq(final) else None
    if zero:
        # nothing delivered; the buffer keeps all of B (which is empty itself when its length is the zero count)
        want_d = []
        whole = SQ.normal_form(B, sub)
        if got_d not in ([], want_d) and not (cname != "count<len" and got_d == whole):
            sbad = sbad or "%s, nothing to transfer: delivers %s" % (cname, SQ.show_nf(got_d))
        if got_k != whole and not (cname != "count<len" and got_k == []):
            sbad = sbad or "%s, nothing to transfer: keeps %s, expected %s" % (cname, SQ.show_nf(got_k), SQ.show_nf(whole))
    elif got_d != want_d:
        sbad = sbad or "%s: delivers %s, expected %s" % (cname, SQ.show_nf(got_d), SQ.show_nf(want_d))
    if not zero and got_k != want_k:
        sbad = sbad or "%s: keeps %s, expected %s" % (cname, SQ.show_nf(got_k), SQ.show_nf(want_k))
    if not U.affine_eq(SQ.subst(rax[0][3], sub), SQ.subst(m, sub)):
        sbad = sbad or "%s: returns %s, expected %s" % (cname, A.show(U.strip(rax[0][3]))[:40], A.show(U.strip(m))[:40])
    return kbad, sbad, pbad


def pipe_write(ctx, o):
    facts = ctx.facts
    kbad = sbad = pbad = None
    fd, cnt, buf = leaf_of(facts, o, "RDI"), leaf_of(facts, o, "RDX"), leaf_of(facts, o, "RSI")
    if fd is None or cnt is None or buf is None:
        return "the descriptor / buffer / count registers are not read", None, None
    if changed_keys(o, "pipes_read_ends") or changed_keys(o, "pipes_write_ends"):
        kbad = "write changes the descriptor maps"
    if o.path.tags.get(("pres", "pipes_write_ends", fd)) is not True:
        return kbad, None, "Handled although RDI is not a write end"
    key = ("mapval", "pipes_write_ends", fd)
    touched = {e[3] for e in o.path.events if e[0] == "map" and e[2] == "pipe_contents"}
    if touched != {key}:
        kbad = kbad or "buffer entries used: %s, expected only contents[write_ends[RDI]]" % sorted(A.show(k)[:50] for k in touched)
        return kbad, None, pbad
    rd = [e for e in o.path.events if e[0] == "mem_read" and e[1] == "bytes"]
    rax = [e for e in o.path.events if e[0] == "reg_write" and U.reg_name(facts, e[2]) == "RAX"]
    if len(rd) != 1 or len(rax) != 1:
        return kbad, "guest reads=%d RAX writes=%d" % (len(rd), len(rax)), pbad
    if not (reg_leaf(facts, rd[0][2], "RSI") and reg_leaf(facts, rd[0][3], "RDX")):
        sbad = sbad or "reads (%s, %s), expected (RSI, RDX)" % (A.show(rd[0][2])[:30], A.show(rd[0][3])[:30])
    if not U.affine_eq(rax[0][3], A.W(cnt, 64)):
        sbad = sbad or "returns %s, wrote RDX bytes" % A.show(U.strip(rax[0][3]))[:40]
    G = [x for x in SQ_atoms(o) if x[0] == "membytes"]
    if len(G) != 1:
        return kbad, sbad or "guest byte strings read: %d" % len(G), pbad
    B = ("sqatom", ("pipe_contents", key))
    was = any(e[0] == "map" and e[1] == "entry-state" and e[2] == "pipe_contents" and e[4] for e in o.path.events)
    want = SQ.normal_form(("sqcat", B, G[0])) if was else SQ.normal_form(G[0])
    final = roots(o, "pipe_contents").get(key)
    got = SQ.normal_form(final) if final is not None and SQ.is_seq(final) else None
    if got != want:
        sbad = sbad or "buffer %s: becomes %s, expected %s" % ("present" if was else "missing", SQ.show_nf(got), SQ.show_nf(want))
    return kbad, sbad, pbad


def SQ_atoms(o):
    out = []
    for e in o.path.events:
        if e[0] == "mem_read" and e[1] == "bytes":
            out.append(("membytes", e[2], e[3], 0))
    # the value term carries the memory version; recover it from the store if possible
    res = []
    for r, v in o.path.store.items():
        s = SQ.strip(v) if isinstance(v, tuple) and v else v
        stack = [s]
        while stack:
            x = stack.pop()
            if isinstance(x, tuple) and x:
                if x[0] == "membytes" and x not in res:
                    res.append(x)
                else:
                    stack.extend(y for y in x if isinstance(y, tuple))
    return res or out
