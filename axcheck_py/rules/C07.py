"""C07 Register API behaves like the x86-64 register file (sub-register aliasing).

C07.tables  REGISTER_TO_QWORD / HIGHER_BYTE_REGISTERS / both From impls / constructor key set vs the architecture (iced register table)
C07.bits    stored / returned word of each accessor for each of the 68 views, as bit provenance of (old parent, argument)
C07.guard   range guard precedes the single insert; out-of-range value is a by-design rejection without any store
C07.reject  a register of the wrong width is a by-design rejection (not a crash), without any store
"""
LEVEL = "proof"

from .. import absint as A
from .. import facts as F
from .. import hutil as U
from .. import prims as P
from .. import statics as S

REGS = "state::registers::"
SREG_ENUM = U.SREG_ENUM
HIGH = ("AH", "BH", "CH", "DH")


def sreg(facts, name):
    ev = facts.enum_variant_by_name(SREG_ENUM, name)
    return ("agg", P.SREG, ev[0], ())


def run(ctx):
    tabs = tables(ctx)
    if tabs is None:
        return
    accessors(ctx, tabs)


def tables(ctx):
    ck, facts, O = ctx.check, ctx.facts, ctx.oracle
    regs = O["registers"]
    try:
        r2q = S.static_items(facts, REGS + "REGISTER_TO_QWORD")
        try:
            high = S.static_items(facts, REGS + "HIGHER_BYTE_REGISTERS")
        except KeyError:
            high = None  # the high-byte test need not be a table; C07.bits decides the aliasing per view either way
        gprs = S.static_items(facts, REGS + "GENERAL_PURPOSE_REGISTERS")
        xmms = S.static_items(facts, REGS + "XMM_REGISTERS")
    except KeyError as e:
        ck.violation("C07.tables", "lazy_static tables", "cannot evaluate: %s" % e)
        return None
    table = {}
    for el in r2q:
        a, b = S.sreg_name(facts, el[3][0]), S.sreg_name(facts, el[3][1])
        if a in table and table[a] != b:
            ck.violation("C07.tables", "view=%s" % a, "mapped twice (%s, %s)" % (table[a], b))
        table[a] = b
    arch = {r: i["full"] for r, i in regs.items() if i["gpr"]}
    for r in sorted(arch):
        if table.get(r) == arch[r]:
            ck.ok("C07.tables", "view=%s" % r)
        else:
            ck.violation("C07.tables", "view=%s" % r, "parent %s, architecture %s" % (table.get(r), arch[r]),
                         what="sub-register mapped to the wrong 64-bit register")
    for r in sorted(set(table) - set(arch)):
        ck.violation("C07.tables", "view=%s" % r, "extra entry -> %s" % table[r])
    hs = sorted(S.sreg_name(facts, x) for x in high) if high is not None else None
    if hs is None:
        pass
    elif hs == sorted(HIGH):
        ck.ok("C07.tables", "HIGHER_BYTE_REGISTERS")
    else:
        ck.violation("C07.tables", "HIGHER_BYTE_REGISTERS", "= %s, architecture %s" % (hs, sorted(HIGH)))
    gs = {S.sreg_name(facts, x) for x in gprs}
    parents = set(arch.values())
    if parents <= gs:
        ck.ok("C07.tables", "GENERAL_PURPOSE_REGISTERS")
    else:
        ck.violation("C07.tables", "GENERAL_PURPOSE_REGISTERS", "missing %s" % sorted(parents - gs),
                     what="a parent register is never inserted into the register file (lookup would crash)")
    xs = {S.sreg_name(facts, x) for x in xmms}
    want_x = {"XMM%d" % i for i in range(16)}
    if want_x <= xs:
        ck.ok("C07.tables", "XMM_REGISTERS")
    else:
        ck.violation("C07.tables", "XMM_REGISTERS", "missing %s" % sorted(want_x - xs))
    # constructor inserts GPRs + RIP, XMMs
    for fn, static, extra in (("randomized_register_set", "GENERAL_PURPOSE_REGISTERS", "RIP"),
                              ("randomized_xmm_set", "XMM_REGISTERS", None)):
        try:
            b = facts.one(fn)
        except KeyError as e:
            ck.violation("C07.tables", "fn=" + fn, str(e))
            continue
        uses = any(bl["term"]["k"] == "call" and F.callee_name(bl["term"]) == "<%s%s as std::ops::Deref>::deref" % (REGS, static)
                   for bl in b["blocks"])
        has_extra = extra is None or any(
            st[0] == "a" and st[2][0] == "agg" and st[2][1][0] == "adt" and st[2][1][3] == extra
            for bl in b["blocks"] for st in bl["s"])
        if uses and has_extra:
            ck.ok("C07.tables", "fn=" + fn)
        else:
            ck.violation("C07.tables", "fn=" + fn, "does not seed %s%s" % (static, " + " + extra if extra else ""))
    # From impls
    enum = facts.adts[SREG_ENUM]
    names = [v["name"] for v in enum["variants"]]
    try:
        to_iced = facts.trait_impl("std::convert::From<state::registers::SupportedRegister>", "iced_x86::Register", "from")
        from_iced = facts.trait_impl("std::convert::From<iced_x86::Register>", SREG_ENUM, "from")
    except KeyError as e:
        ck.violation("C07.tables", "From impls", str(e))
        return None
    I = A.Interp(facts)
    partial = set()
    for n in names:
        outs = list(I.run(to_iced, [sreg(facts, n)], A.Path()))
        rets = [o for o in outs if o.kind == "return"]
        inst = "impl=From<SupportedRegister> for Register,variant=%s" % n
        if len(rets) == 1 and rets[0].value[0] == "agg" and facts.enum_variant("iced_x86::Register", rets[0].value[2])[0] == n:
            ck.ok("C07.tables", inst)
        else:
            partial.add(n)
            ck.violation("C07.tables", inst, "no name-preserving arm (%s)" % (
                "%s abort" % outs[0].cls if outs and outs[0].kind == "panic" else "wrong result"),
                where=outs[0].site if outs and outs[0].site else None,
                what="conversion is partial: the register API crashes instead of rejecting this register")
        ev = facts.enum_variant_by_name("iced_x86::Register", n)
        outs = list(I.run(from_iced, [("agg", "adt:iced_x86::Register", ev[0], ())], A.Path()))
        rets = [o for o in outs if o.kind == "return"]
        inst = "impl=From<Register> for SupportedRegister,variant=%s" % n
        if len(rets) == 1 and S.sreg_name(facts, rets[0].value) == n:
            ck.ok("C07.tables", inst)
        else:
            ck.violation("C07.tables", inst, "no name-preserving arm")
    ck.floor("SupportedRegister variants", len(names), 86)
    ck.floor("register views", len(arch), 68)
    return {"r2q": table, "high": set(hs or ()), "names": names, "partial": partial}


_static_cache = {}


def make_intercept(ctx, tabs):
    facts, O = ctx.facts, ctx.oracle
    _static_cache.clear()
    pre = "<" + REGS

    def icpt(I, path, frame, t, name, args):
        if name.startswith(pre) and name.endswith(" as std::ops::Deref>::deref"):
            return [(("static", name[len(pre):].split(" ")[0]), path)]
        if name.startswith("iced_x86::Register::is_") and args:
            a = I._deref_all(path, args[0])
            if a[0] == "agg" and a[1] == "adt:iced_x86::Register":
                rn = facts.enum_variant("iced_x86::Register", a[2])[0]
                key = {"is_gpr8": "gpr8", "is_gpr16": "gpr16", "is_gpr32": "gpr32", "is_gpr64": "gpr64",
                       "is_ip": "ip", "is_xmm": "xmm", "is_gpr": "gpr"}.get(name.rsplit("::", 1)[1])
                if key:
                    return [(A.INT(1 if O["registers"][rn][key] else 0, 8), path)]
        meth = name.rsplit("::", 1)[1]
        if meth in ("deref", "as_slice", "as_ref", "borrow") and len(args) == 1 and args[0][0] == "ref" and args[0][1][0][0] == "D" \
                and not args[0][1][1] and args[0][1][0][1][0] == "static":
            return [(args[0][1][0][1], path)]  # a view of the same table
        # any other table of the register module (a Vec / HashSet / HashMap static): membership and lookup are answered
        # from its evaluated elements
        if meth in ("contains", "contains_key", "get") and len(args) == 2:
            rv = args[0]
            for _ in range(4):
                if rv[0] == "ref" and rv[1][0][0] == "D" and not rv[1][1]:
                    rv = rv[1][0][1]
                elif rv[0] == "ref":
                    rv = I._deref_all(path, rv)
                elif rv[0] in ("deref", "w") and isinstance(rv[1], tuple):
                    rv = rv[1]
                else:
                    break
            if rv[0] == "static" and meth == "contains" and rv[1] == "HIGHER_BYTE_REGISTERS":
                rv = ("none",)
            if rv[0] == "static" and rv[1] not in ("REGISTER_TO_QWORD", "HIGHER_BYTE_REGISTERS"):
                try:
                    items = _static_cache.setdefault(rv[1], S.static_items(facts, REGS + rv[1]))
                except KeyError:
                    items = None
                kn = S.sreg_name(facts, I._deref_all(path, args[1]))
                if items is not None and kn is not None:
                    if meth in ("contains", "contains_key"):
                        keys = [S.sreg_name(facts, x[3][0] if (x[0] == "agg" and x[1] == "tuple") else x) for x in items]
                        return [(A.INT(1 if kn in keys else 0, 8), path)]
        # the entry API on the register file: Occupied and Vacant both stand for the one abstract slot
        if "hash_map::OccupiedEntry" in name or "hash_map::VacantEntry" in name or "hash_map::Entry" in name:
            e_ = I._deref_all(path, args[0]) if args else None
            if e_ is not None and e_[0] == "agg" and e_[1] == "adt:std::collections::hash_map::Entry" and e_[3]:
                e_ = e_[3][0]
            if e_ is not None and e_[0] == "rfentry":
                root = e_[1]
                fld_, kn_ = root[1][1], root[1][2]
                if meth == "insert" and len(args) == 2:
                    oldv = path.store[root]
                    path.store[root] = args[1]
                    path.events.append(("rf_insert", fld_, kn_, args[1]))
                    return [(oldv if "Occupied" in name else ("ref", (root, ()), True), path)]
                if meth in ("get", "get_mut", "into_mut"):
                    path.events.append(("rf_get", fld_, kn_))
                    return [(("ref", (root, ()), meth != "get"), path)]
                if meth in ("or_insert", "or_default", "or_insert_with", "key"):
                    return None
        if "HashMap" in name and meth == "entry" and len(args) == 2 and args[0][0] == "ref" and args[0][1][0][0] == "H":
            fld = [p[2] for p in args[0][1][1] if isinstance(p, tuple) and p[0] == "f"][-1:]
            if fld in (["registers"], ["xmm_registers"]):
                kn = S.sreg_name(facts, I._deref_all(path, args[1]))
                root = ("L", ("rfslot", fld[0], kn), 0)
                if root not in path.store:
                    path.store[root] = A.W(("old", fld[0], kn, 0), 128 if fld[0][0] == "x" else 64)
                ENT = "adt:std::collections::hash_map::Entry"
                p2 = path.copy()
                return [(("agg", ENT, 0, (("rfentry", root),)), path), (("agg", ENT, 1, (("rfentry", root),)), p2)]
        if "HashMap" in name and meth in ("index", "index_mut") and "ops::Index" in name and len(args) == 2:
            # map[&key]: the same lookup as get(&key).unwrap() (a missing key is C07.tables' obligation)
            sub = icpt(I, path, frame, t, "std::collections::HashMap::<K, V, S, A>::" + ("get" if meth == "index" else "get_mut"), args)
            if sub is not None:
                outs_ = []
                for v_, p_ in sub:
                    if v_ == A.NONE:
                        outs_.append(("panic", "X", "map index with a missing key", p_))
                    else:
                        outs_.append((v_[3][0], p_))
                return outs_
        if ("HashMap" in name or "HashSet" in name) and meth in ("get", "get_mut", "contains", "insert", "contains_key"):
            recv = args[0]
            if recv[0] == "ref":
                if recv[1][0][0] == "D" and not recv[1][1]:
                    recv = recv[1][0][1]
                elif recv[1][0][0] == "L":
                    recv = I._deref_all(path, recv)
            if recv[0] == "static":
                key = I._deref_all(path, args[1])
                kn = S.sreg_name(facts, key)
                if recv[1] == "REGISTER_TO_QWORD" and meth == "get":
                    p_ = tabs["r2q"].get(kn)
                    if p_ is None:
                        return [(A.NONE, path)]
                    tmp = ("L", ("r2q", kn), 0)
                    path.store[tmp] = sreg(facts, p_)
                    return [(A.SOME(("ref", (tmp, ()), False)), path)]
                if recv[1] == "HIGHER_BYTE_REGISTERS" and meth == "contains":
                    return [(A.INT(1 if kn in tabs["high"] else 0, 8), path)]
                return None
            # the register file
            if args[0][0] == "ref" and args[0][1][0][0] == "H":
                fld = [p[2] for p in args[0][1][1] if isinstance(p, tuple) and p[0] == "f"][-1:]
                if fld in (["registers"], ["xmm_registers"]):
                    # the register file as an abstract map: one store root per (map, key); get / get_mut hand out a
                    # reference to it, insert overwrites it -- the final value of the root is what the map holds
                    if meth in ("get", "get_mut", "insert"):
                        key = I._deref_all(path, args[1])
                        kn = S.sreg_name(facts, key)
                        root = ("L", ("rfslot", fld[0], kn), 0)
                        if root not in path.store:
                            path.store[root] = A.W(("old", fld[0], kn, 0), 128 if fld[0][0] == "x" else 64)
                        if meth == "insert":
                            path.store[root] = args[2]
                            path.events.append(("rf_insert", fld[0], kn, args[2]))
                            return [(("ret", "insert-old", (), len(path.events)), path)]
                        path.events.append(("rf_get", fld[0], kn))
                        return [(A.SOME(("ref", (root, ()), meth == "get_mut")), path)]
        return None
    return icpt


def expected_write(view_bits, high, val, old):
    """architectural bit vector of the parent after writing `val` to a view"""
    if view_bits == 64:
        return [(val, i, False) for i in range(64)]
    if view_bits == 32:
        return [(val, i, False) for i in range(32)] + [0] * 32
    if view_bits == 16:
        return [(val, i, False) for i in range(16)] + [(old, i, False) for i in range(16, 64)]
    if high:
        return [(old, i, False) for i in range(8)] + [(val, i, False) for i in range(8)] + \
               [(old, i, False) for i in range(16, 64)]
    return [(val, i, False) for i in range(8)] + [(old, i, False) for i in range(8, 64)]


def bit_classes(path):
    """equalities between bits that the path has established by testing two values for equality: returns the
    representative function of the resulting classes"""
    parent = {}

    def find(x):
        if isinstance(x, list):
            x = tuple(x)
        r = x
        while parent.get(r, r) != r:
            r = parent[r]
        return r

    def union(x, y):
        rx, ry = find(x), find(y)
        if rx == ry:
            return
        # constants are the representatives of their class
        if rx in (0, 1):
            parent[ry] = rx
        else:
            parent[rx] = ry

    for c in path.conds:
        t = c[0]
        tv = U.cond_truth(c)
        if tv is None or not isinstance(t, tuple) or t[0] != "bin":
            continue
        if not ((t[1] == "Eq" and tv == 1) or (t[1] == "Ne" and tv == 0)):
            continue
        ba, bb = A.bitvec(t[2], path), A.bitvec(t[3], path)
        n_ = max(len(ba), len(bb))
        ba, bb = ba + [0] * (n_ - len(ba)), bb + [0] * (n_ - len(bb))
        for x, y in zip(ba, bb):
            if x is None or y is None or x == y:
                continue
            if not isinstance(x, int) and x[2]:
                continue
            if not isinstance(y, int) and y[2]:
                continue
            union(x, y)
    return find


def expected_read(view_bits, high, old):
    if high:
        return [(old, i + 8, False) for i in range(8)] + [0] * 56
    return [(old, i, False) for i in range(view_bits)] + [0] * (64 - view_bits)


def accessors(ctx, tabs):
    ck, facts, O, R = ctx.check, ctx.facts, ctx.oracle, ctx.roles
    regs = O["registers"]
    icpt = make_intercept(ctx, tabs)
    VAL = ("val",)
    views = {n: [r for r, i in regs.items() if i["gpr"] and i["size"] * 8 == n] for n in (8, 16, 32, 64)}
    nviews = 0
    for n in (8, 16, 32, 64):
        for mode in ("write", "read"):
            acc = (R.reg_write if mode == "write" else R.reg_read)[n]
            body = facts.bodies[acc]
            api = "reg_%s_%d" % (mode, n)
            where = "%s:%d (%s)" % (body["span"][0], body["span"][1], body["name"])
            for r in sorted(views[n]) + (["RIP"] if n == 64 else []):
                I = A.Interp(facts, intercept=icpt)
                args = [P.self_ref(mode == "write"), sreg(facts, r)] + ([A.W(VAL, 64)] if mode == "write" else [])
                outs = list(I.run(body, args, A.Path()))
                rets = [o for o in outs if o.kind == "return"]
                pan = [o for o in outs if o.kind == "panic"]
                inst = "api=%s,view=%s" % (api, r)
                parent = regs[r]["full"] if r != "RIP" else "RIP"
                high = r in HIGH
                nviews += 1
                if not rets:
                    ck.violation("C07.bits", inst, "no success path (%s)" % (pan[0].msg if pan else "?"), where=where)
                    continue
                bad = None
                for o in rets:
                    ins = []
                    for root_, val_ in o.path.store.items():
                        if root_[0] == "L" and isinstance(root_[1], tuple) and root_[1] and root_[1][0] == "rfslot":
                            init_ = A.W(("old", root_[1][1], root_[1][2], 0), 128 if root_[1][1][0] == "x" else 64)
                            if val_ != init_:
                                ins.append(("rf_insert", root_[1][1], root_[1][2], val_))
                    gets = [e for e in o.path.events if e[0] == "rf_get"]
                    stores = [e for e in o.path.events if e[0] in ("store", "mutcall") and not (
                        e[0] == "store" and e[1][0][0] == "L" and isinstance(e[1][0][1], tuple) and e[1][0][1][:1] == ("rfslot",))]
                    if stores:
                        bad = bad or "touches other state: %s" % U.show_event(facts, stores[0])
                    if mode == "write":
                        if len(ins) > 1 or (ins and ins[0][2] != parent):
                            other = [x for x in ins if x[2] != parent]
                            bad = bad or ("inserts key %s, architecture %s" % (other[0][2], parent) if other else
                                          "%d register-file inserts" % len(ins))
                            continue
                        old = ("old", "registers", parent, 0)
                        # the final value of the parent's slot: what was stored, or the entry value on a path that
                        # stores nothing (an elided write is right exactly when the path has established that the
                        # register already holds the architectural result)
                        final = ins[0][3] if ins else A.W(old, 64)
                        bv = A.bitvec(final, o.path)
                        exp = expected_write(n, high, VAL, old)
                        if bv != exp:
                            rep = bit_classes(o.path)
                            if [rep(x) for x in bv] != [rep(x) for x in exp]:
                                bv = [e_ if rep(b_) == rep(e_) else b_ for b_, e_ in zip(bv, exp)]
                                bad = bad or (describe_bits(bv, exp) + ("" if ins else " (on a path that leaves the register as it was)"))
                        # the guard: the path must have assumed value <= max
                        if n < 64 and o.path.maxbits.get(VAL) != n:
                            bad = bad or "no range guard value <= %#x on the storing path" % ((1 << n) - 1)
                    else:
                        if ins:
                            bad = bad or "a read accessor inserts into the register file"
                        v = o.value
                        if not (v[0] == "agg" and v[1] == A.RESULT and v[2] == 0):
                            bad = bad or "does not return Ok"
                            continue
                        old = ("old", "registers", parent, 0)
                        bv = A.bitvec(v[3][0], o.path)
                        bv = bv + [0] * (64 - len(bv))
                        exp = expected_read(n, high, old)
                        if bv != exp:
                            bad = bad or describe_bits(bv, exp)
                if bad:
                    ck.violation("C07.bits", inst, bad, where=where, what="register view does not alias the architectural bits")
                else:
                    ck.ok("C07.bits", inst)
                    if len(ck.samples) < 6 and mode == "write":
                        ck.sample({"rule": "C07.bits", "instance": inst,
                                   "stored": "parent=%s bits as expected for a %d-bit %s view" % (parent, n, "high" if high else "low")})
                # ---- guard: rejection path has no insert and is class D
                if mode == "write" and n < 64:
                    rej = [o for o in pan if o.path.maxbits.get(VAL) != n]
                    gbad = None
                    if not rej:
                        gbad = "no rejection path for an out-of-range value"
                    for o in rej:
                        if o.cls != "D":
                            gbad = gbad or "out-of-range value ends in a %s abort" % o.cls
                        if any(e[0] in ("rf_insert", "store") for e in o.path.events):
                            gbad = gbad or "state modified before the range check"
                    if gbad:
                        ck.violation("C07.guard", inst, gbad, where=where)
                    else:
                        ck.ok("C07.guard", inst)
            # ---- wrong-width registers
            others = [x for x in tabs["names"] if x not in views[n] and not (n == 64 and x == "RIP")
                      and x not in tabs["partial"]]
            bad_rej = []
            for r in others:
                I = A.Interp(facts, intercept=icpt)
                args = [P.self_ref(mode == "write"), sreg(facts, r)] + ([A.INT(0, 64)] if mode == "write" else [])
                outs = list(I.run(body, args, A.Path()))
                okrej = outs and all(o.kind == "panic" and o.cls == "D" and not any(
                    e[0] in ("rf_insert", "store") for e in o.path.events) for o in outs)
                if not okrej:
                    bad_rej.append((r, [repr(o) for o in outs][:2]))
            inst = "api=%s" % api
            if bad_rej:
                ck.violation("C07.reject", inst, "%d wrong-width registers not cleanly rejected (first: %s)" % (
                    len(bad_rej), bad_rej[0][0]), where=where, witness=bad_rej[:5])
            else:
                ck.ok("C07.reject", inst, len(others))
    ck.floor("accessor x view instances", nviews, 138)
    ck.cov["exhaustive"] = True  # every register variant x every accessor; all values via bit provenance


def describe_bits(bv, exp):
    for i, (a, b) in enumerate(zip(bv, exp)):
        if a != b:
            def d(x):
                if x in (0, 1):
                    return str(x)
                if x is None:
                    return "unknown"
                return "%s[%d]%s" % (x[0][0], x[1], "~" if x[2] else "")
            return "bit %d is %s, architecture %s" % (i, d(a), d(b))
    return "length %d vs %d" % (len(bv), len(exp))
