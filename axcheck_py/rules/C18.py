"""C18 Trace and call stack describe the executed control flow; rendering is total.

C18.pair   every implemented JMP/Jcc/CALL/RET handler: on the taken path one trace record of the matching variant whose
           target is the value stored to RIP; CALL pushes that value on call_stack, RET pops; untaken paths record nothing
C18.level  add_trace: new level = last.level +1 after Call / -1 after Return / same after Jump, 0 for the first entry;
           the run-length counter is bumped only for an identical Jump (ip, target, variant, level)
C18.total  renderers (trace, call_stack, to_string) have no evidently failing site: no signed->unsigned cast feeding an
           allocation size without a non-negativity guard, no unguarded overflow-checked arithmetic on trace data
"""
from .. import absint as A
from .. import facts as F
from .. import hmodel as H
from .. import hutil as U
from .. import panics as PN
from .. import prims as P
from .rules_common import is_err

AXE = "axecutor::Axecutor"
BRANCH_FLOWS = {"ConditionalBranch": "Jump", "UnconditionalBranch": "Jump", "IndirectBranch": "Jump",
                "Call": "Call", "IndirectCall": "Call", "Return": "Return"}
TRACE_ENTRY = "helpers::trace::TraceEntry"
TRACE_VARIANT = "helpers::trace::TraceVariant"


def fieldnames(loc):
    return [p[2] for p in loc[1] if isinstance(p, tuple) and p[0] == "f"]


def run(ctx):
    pair(ctx)
    level(ctx)
    total(ctx)


_TRR = {}


def tracer_reads_rip(ctx):
    """does the code that records a trace entry read a register (the source address comes from RIP)?"""
    key = id(ctx.facts)
    if key not in _TRR:
        facts, R = ctx.facts, ctx.roles
        cone = cone_of(facts, list(R.tracers))
        rd = R.reg_read[64]
        _TRR[key] = any(blk["term"]["k"] == "call" and F.callee_name(blk["term"]) == rd
                        for k in cone for blk in facts.bodies[k]["blocks"])
    return _TRR[key]


def pair(ctx):
    ck, facts, O, D, hm = ctx.check, ctx.facts, ctx.oracle, ctx.dispatch, ctx.hmodel
    impl = D.implemented()
    codes = sorted(c for c in impl if O["codes"][c]["flow"] in BRANCH_FLOWS and hm.producible(c)
                   and O["codes"][c]["mnemonic"] not in ("Syscall", "Int", "Int1", "Int3"))
    n = 0
    for code in codes:
        oc = O["codes"][code]
        want = BRANCH_FLOWS[oc["flow"]]
        where = U.handler_where(facts, D, code)
        shapes = hm.shapes(code)
        for shape in shapes:
            inst = "Code=%s/%s" % (code, shape[0]) if len(shapes) > 1 else "Code=%s" % code
            outs, I = hm.run(code, shape)
            bad = None
            seen_taken = False
            for o in outs:
                if o.kind != "return":
                    continue
                evs = o.path.events
                ripw = [e for e in evs if e[0] == "reg_write" and U.reg_name(facts, e[2]) == "RIP"]
                tr = [e for e in evs if e[0] == "trace"]
                push = [e for e in evs if e[0] == "mutcall" and e[1].endswith("::push") and fieldnames(e[2])[-1:] == ["call_stack"]]
                pop = [e for e in evs if e[0] == "mutcall" and e[1].endswith("::pop") and fieldnames(e[2])[-1:] == ["call_stack"]]
                if is_err(o):
                    if ripw and not tr:
                        bad = bad or "error exit after RIP was changed without a trace record"
                    continue
                if not ripw:
                    if tr or push or pop:
                        bad = bad or "untaken path records %s" % ("a trace entry" if tr else "a call-stack change")
                    continue
                seen_taken = True
                if len(tr) != 1:
                    bad = bad or "%d trace records on the taken path" % len(tr)
                    continue
                if tr[0][1] != want:
                    bad = bad or "records a %s, instruction is a %s" % (tr[0][1], want)
                if U.strip(tr[0][2]) != U.strip(ripw[-1][3]):
                    bad = bad or "trace target %s differs from RIP := %s" % (A.show(U.strip(tr[0][2])), A.show(U.strip(ripw[-1][3])))
                # the recorder takes the source address from the machine's RIP (the instruction's own address is RIP - len):
                # it has to run while RIP still is the fall-through address, i.e. before the transfer writes RIP
                if tracer_reads_rip(ctx) and evs.index(tr[0]) > evs.index(ripw[0]):
                    bad = bad or "the trace entry is recorded after RIP was written: its source address is computed from the target"
                if want == "Call":
                    if len(push) != 1 or U.strip(push[0][3][1]) != U.strip(ripw[-1][3]):
                        bad = bad or "call_stack push %s on a CALL" % ("missing" if not push else "of another value")
                    if pop:
                        bad = bad or "CALL pops the call stack"
                elif want == "Return":
                    if len(pop) != 1:
                        bad = bad or "%d call_stack pops on a RET" % len(pop)
                    if push:
                        bad = bad or "RET pushes on the call stack"
                else:
                    if push or pop:
                        bad = bad or "a jump changes the call stack"
            if not seen_taken:
                continue
            # a transfer that fails (a guest memory access of the instruction faults) is not taken: with failing accesses
            # switched on, a path that returns the fault without having written RIP records nothing
            outs_f, _If = hm.run(code, shape, mem_fail_paths=True)
            for o in outs_f:
                if o.kind != "return" or not is_err(o) or not any(e[0] == "mem_fault" for e in o.path.events):
                    continue
                evs = o.path.events
                fi = [i for i, e in enumerate(evs) if e[0] == "mem_fault"][0]
                ripw = [e for e in evs[:fi] if e[0] == "reg_write" and U.reg_name(facts, e[2]) == "RIP"]
                rec = [e for e in evs[:fi] if e[0] == "trace" or (e[0] == "mutcall" and e[1].endswith(("::push", "::pop"))
                                                                 and fieldnames(e[2])[-1:] == ["call_stack"])]
                if rec and not ripw:
                    bad = bad or "a %s is recorded before the memory access that can still fail: a faulting %s leaves a record of a transfer that never happened" % (
                        "trace entry" if rec[0][0] == "trace" else "call-stack change", want.lower())
            n += 1
            if bad:
                ck.violation("C18.pair", inst, bad, where=where, what="trace / call stack do not describe the control transfer")
            else:
                ck.ok("C18.pair", inst)
    ck.floor("control-flow handler shapes", n, 38)
    ck.sample({"rule": "C18.pair", "handlers": n})


def level(ctx):
    ck, facts, R = ctx.check, ctx.facts, ctx.roles
    if R.add_trace is None:
        ck.violation("C18.level", "trace recorder", "no function with signature (self, Instruction, u64, TraceVariant)")
        return
    body = facts.bodies[R.add_trace]
    where = "%s:%d (%s)" % (body["span"][0], body["span"][1], body["name"])
    pr = P.HandlerPrims(facts, R)
    variants = [v[0] for v in facts.enums[TRACE_VARIANT]]
    LAST = ("init", "last", 0)
    for newv in variants:
        for lastv in variants + [None]:
            def icpt(I, path, frame, t, name, args):
                if name.endswith("::last_mut") or name.endswith("::last"):
                    if lastv is None:
                        return [(A.NONE, path)]
                    return [(A.SOME(("ref", (("H", "last"), ()), True)), path)]
                if name == "iced_x86::Instruction::len":
                    return [(A.W(("ilen",), 64), path)]
                return pr.intercept(I, path, frame, t, name, args)
            I = A.Interp(facts, intercept=icpt)
            path = A.Path()
            if lastv is not None:
                lv = facts.enum_variant_by_name(TRACE_VARIANT, lastv)
                # last.variant is known for this class
                path.store[("H", "last")] = ("ovl", LAST, (("variant", ("agg", "adt:" + TRACE_VARIANT, lv[0], ())),))
            nv = facts.enum_variant_by_name(TRACE_VARIANT, newv)
            args = [P.self_ref(True), P.INSTR, A.W(("target",), 64), ("agg", "adt:" + TRACE_VARIANT, nv[0], ())]
            outs = list(I.run(body, args, path))
            rets = [o for o in outs if o.kind == "return" and not is_err(o)]
            inst = "new=%s,last=%s" % (newv, lastv)
            bad = None
            if not rets:
                bad = "no success path"
            for o in rets:
                evs = o.path.events
                pushes = [e for e in evs if e[0] == "mutcall" and e[1].endswith("::push") and fieldnames(e[2])[-1:] == ["trace"]]
                bumps = [e for e in evs if e[0] == "store" and e[1][0] == ("H", "last") and fieldnames(e[1])[-1:] == ["count"]]
                if bumps:
                    # run-length: only Jump after identical Jump
                    if not (newv == "Jump" and lastv == "Jump"):
                        bad = bad or "run-length counter bumped for new=%s last=%s" % (newv, lastv)
                    if pushes:
                        bad = bad or "both bumps the counter and pushes an entry"
                    eqs = set()
                    for c in o.path.conds:
                        t = c[0]
                        if t[0] == "bin" and t[1] == "Eq" and ((c[2] == 1) if c[1] == "==" else True):
                            for x in (t[2], t[3]):
                                x = U.strip(x)
                                if x[0] == "field" and x[1] == LAST:
                                    eqs.add(x[2])
                    need = {"instr_ip", "target"}
                    if not need <= eqs:
                        bad = bad or "counter bumped without comparing %s" % sorted(need - eqs)
                    v = U.strip(bumps[0][2])
                    if not (v[0] == "bin" and v[1] == "Add" and A.is_int(v[3]) and v[3][1] == 1):
                        bad = bad or "count := %s" % A.show(v)
                    continue
                if len(pushes) != 1:
                    bad = bad or "%d pushes to the trace" % len(pushes)
                    continue
                ent = pushes[0][3][1]
                if ent[0] != "agg" or ent[1] != "adt:" + TRACE_ENTRY:
                    bad = bad or "pushed value is not a TraceEntry"
                    continue
                fn = [f["name"] for f in facts.adts[TRACE_ENTRY]["variants"][0]["fields"]]
                lvl = U.strip(ent[3][fn.index("level")])
                var = ent[3][fn.index("variant")]
                tgt = U.strip(ent[3][fn.index("target")])
                cnt = ent[3][fn.index("count")]
                if var != args[3]:
                    bad = bad or "entry variant differs from the requested one"
                if tgt != ("target",):
                    bad = bad or "entry target is %s" % A.show(tgt)
                if not (A.is_int(cnt) and cnt[1] == 1):
                    bad = bad or "new entry count is %s" % A.show(cnt)
                lastlevel = ("field", LAST, "level")
                exp = {None: ("int0",), "Call": ("plus", 1), "Return": ("plus", -1), "Jump": ("plus", 0)}[lastv]
                if exp == ("int0",):
                    if not (A.is_int(lvl) and lvl[1] == 0):
                        bad = bad or "first entry level is %s" % A.show(lvl)
                else:
                    # saturating arithmetic keeps the +-1 step (it only differs at the i16 bounds)
                    if lvl[0] == "ret" and lvl[1] in ("saturating_add", "saturating_sub"):
                        lvl = ("bin", "Add" if lvl[1].endswith("add") else "Sub", lvl[2][0], lvl[2][1], 16)
                    aff = U.affine_norm(lvl)
                    k = aff[1]
                    if k >= 1 << 15:
                        k -= 1 << 16 if k < (1 << 16) else 1 << 64
                    if aff[0] != {lastlevel: 1} or (k % (1 << 16)) != (exp[1] % (1 << 16)):
                        bad = bad or "level after %s is %s, expected last.level%+d" % (lastv, A.show(lvl), exp[1])
                # ip = RIP - len
                ip = U.strip(ent[3][fn.index("instr_ip")])
                if not (ip[0] == "bin" and ip[1] == "Sub" and U.strip(ip[2])[0] == "reg" and U.reg_name(facts, U.strip(ip[2])[2]) == "RIP"):
                    bad = bad or "instr_ip is %s, expected RIP - len" % A.show(ip)
            if bad:
                ck.violation("C18.level", inst, bad, where=where, what="nesting depth / run-length bookkeeping deviates")
            else:
                ck.ok("C18.level", inst)
    ck.floor("trace recorder classes", len(variants) * (len(variants) + 1), 12)


# --------------------------------------------------------------------------- renderers

ALLOC_SINKS = ("::repeat", "from_elem", "::with_capacity", "::reserve")


def signed_cast_origin(body, op, depth=0):
    """does the operand derive from an IntToInt cast of a signed integer to a wider/unsigned one?
    returns (signed_bits, guarded) or None"""
    if op[0] not in ("c", "m") or depth > 8:
        return None
    loc = op[1][0]
    if op[1][1]:
        return None
    for bi, blk in enumerate(body["blocks"]):
        for st in blk["s"]:
            if st[0] == "a" and st[1][0] == loc and not st[1][1]:
                rv = st[2]
                if rv[0] == "cast" and rv[1] == "IntToInt":
                    src = rv[2]
                    sty = None
                    if src[0] in ("c", "m"):
                        sty = place_int_ty(body, src[1])
                    if sty and sty[0] == "i":
                        return (sty[1], bi)
                    return signed_cast_origin(body, src, depth + 1)
                if rv[0] == "use":
                    return signed_cast_origin(body, rv[1], depth + 1)
    return None


def place_int_ty(body, place):
    ty = body["locals"][place[0]]
    for e in place[1]:
        if e == "*":
            ty = ty[2] if isinstance(ty, list) and ty[0] in ("ref", "ptr") else None
        elif isinstance(e, list) and e[0] == "f":
            return ("field", e[2], e[3])
        else:
            return None
        if ty is None:
            return None
    return ty if isinstance(ty, list) and ty[0] in ("i", "u") else None


def total(ctx):
    ck, facts = ctx.check, ctx.facts
    roots = []
    for nm in ("trace", "call_stack", "to_string"):
        try:
            roots.append(facts.method(AXE, nm)["path"])
        except KeyError as e:
            ck.violation("C18.total", "api=" + nm, str(e))
    cone = cone_of(facts, roots)
    ck.cov["renderer_cone_bodies"] = len(cone)
    ck.floor("renderer cone", len(cone), 8)
    level_ty = None
    te = facts.adts.get(TRACE_ENTRY)
    if te:
        for f_ in te["variants"][0]["fields"]:
            if f_["name"] == "level":
                level_ty = f_["ty"]
    nsinks = 0
    for k in sorted(cone):
        b = facts.bodies[k]
        for blk in b["blocks"]:
            t = blk["term"]
            if t["k"] != "call":
                continue
            n = F.callee_name(t)
            if not any(s in n for s in ALLOC_SINKS):
                continue
            nsinks += 1
            # size argument: last integer argument
            for a in t["args"][1:] if "repeat" in n else t["args"]:
                so = signed_origin(b, a, level_ty)
                if so is not None:
                    api = [r for r in roots if k == r or k.startswith(r)]
                    inst = "api=%s" % (facts.bodies[api[0]]["name"] if api else b["name"])
                    ck.violation("C18.total", inst, "%s sized by a signed value (%s) cast to usize without a non-negativity guard" % (
                        n.rsplit("::", 1)[1], so), where=F.site_str(b, t["sp"]),
                        what="a negative nesting level (returns outnumber calls) makes the renderer abort with a huge allocation")
    if nsinks == 0:
        ck.floor("allocation sinks in renderers", 0, 1)
    ck.cov["renderer_alloc_sinks"] = nsinks
    renderer_asserts(ctx, roots)
    if not any(v["rule"] == "C18.total" for v in ck.violations):
        ck.ok("C18.total", "renderers")
    # overflow-checked arithmetic on trace data inside the recorder
    R = ctx.roles
    if R.add_trace:
        body = facts.bodies[R.add_trace]
        for blk in body["blocks"]:
            t = blk["term"]
            if t["k"] == "assert" and t["msg"]["kind"] == "Overflow":
                a = t["msg"].get("a")
                ty = place_int_ty(body, a[1]) if a and a[0] in ("c", "m") else None
                lty = None
                if a and a[0] in ("c", "m"):
                    lt = body["locals"][a[1][0]]
                    lty = lt if isinstance(lt, list) else None
                if lty and lty[0] == "i" and lty[1] <= 16:
                    ck.violation("C18.total", "trace recorder", "%s overflow check on the i%d nesting level" % (t["msg"]["op"], lty[1]),
                                 where=F.site_str(body, t["sp"]),
                                 what="deep call chains / many unmatched returns overflow the 16-bit nesting level (abort in this profile)")


def renderer_asserts(ctx, roots):
    """path triage of the overflow / bounds checks in trace() and call_stack(): an arithmetic check on machine state (a
    vector length, a recorded level, an address) is reported unless the path establishes it -- a dominating comparison,
    or, for `len(X) - k`, k elements of X already taken from an iterator over X on this path"""
    from .. import memmodel as M
    from .. import panics as PN
    from .. import prims as P
    ck, facts = ctx.check, ctx.facts
    mp = M.MemPrims(facts)
    pr = P.HandlerPrims(facts, ctx.roles)

    def state_leaf(x):
        r = repr(x)
        return "'init', 'self'" in r or x[0] in ("elem", "len")
    n = 0
    for k in roots:
        b = facts.bodies[k]
        if b["name"] not in ("trace", "call_stack"):
            continue

        def icpt(I, path, frame, t, name, args):
            cb = facts.bodies.get(name)
            if cb is not None and cb.get("impl_self") == AXE and cb["kind"] != "Closure" and name != k and name not in pr.by_path:
                p2 = path.copy()
                rt = cb["locals"][0]
                if isinstance(rt, list) and rt[0] == "adt" and rt[1] == "std::result::Result":
                    return [(A.OK(("ret", name, (), len(path.events))), path), (A.ERR(("e",)), p2)]
                if isinstance(rt, list) and rt[0] == "adt" and rt[1] == "std::option::Option":
                    return [(A.SOME(("ret", name, (), len(path.events))), path), (A.NONE, p2)]
                return [(("ret", name, (), len(path.events)), path)]
            return mp.intercept(I, path, frame, t, name, args) or pr.intercept(I, path, frame, t, name, args)
        I = A.Interp(facts, intercept=icpt, max_paths=20000)
        args = [P.self_ref(bool(b["locals"][1][1]))] + [("param", i) for i in range(2, b["argc"] + 1)]
        outs = list(I.run(b, args, A.Path()))
        rep = {}
        for o in outs:
            if o.kind == "cut":
                continue
            for ev, verdict, reason in PN.triage(o.path, state_leaf):
                n += 1
                if verdict == "reported":
                    rep.setdefault(PN.describe(ev), (ev, reason))
        for desc, (ev, reason) in sorted(rep.items()):
            ck.violation("C18.total", "api=%s" % b["name"], "%s unchecked" % desc, where=ev[4], witness={"reason": reason},
                         what="the renderer aborts (overflow check of this profile) for some machine state, e.g. an empty call stack")
    ck.cov["renderer_assert_sites_triaged"] = n


def signed_origin(body, op, level_ty):
    """describe the signed source if `op` is (a copy of) an IntToInt cast from a signed integer"""
    seen = 0
    while op[0] in ("c", "m") and not op[1][1] and seen < 8:
        seen += 1
        loc = op[1][0]
        d = None
        for blk in body["blocks"]:
            for st in blk["s"]:
                if st[0] == "a" and st[1][0] == loc and not st[1][1]:
                    d = st
        if d is None:
            return None
        rv = d[2]
        if rv[0] == "use":
            op = rv[1]
            continue
        if rv[0] == "cast" and rv[1] == "IntToInt":
            src = rv[2]
            if src[0] in ("c", "m"):
                lt = body["locals"][src[1][0]] if not src[1][1] else None
                if lt is None:
                    # field read
                    names = [e[2] for e in src[1][1] if isinstance(e, list) and e[0] == "f"]
                    if names and names[-1] == "level" and level_ty and level_ty[0] == "i":
                        return "TraceEntry.level: i%d" % level_ty[1]
                    return None
                if isinstance(lt, list) and lt[0] == "i":
                    if nonneg_guarded(body, src[1][0]):
                        return None
                    return "i%d" % lt[1]
            return None
        return None
    return None


def nonneg_guarded(body, loc, depth=0):
    """the signed local is the result of max(x, c>=0) / clamp / abs, or is compared with 0 somewhere before use"""
    if depth > 6:
        return False
    for blk in body["blocks"]:
        t = blk["term"]
        if t["k"] == "call" and t["dest"][0] == loc and not t["dest"][1]:
            n = F.callee_name(t)
            short = n.rsplit("::", 1)[1]
            if short in ("max", "clamp", "abs", "unsigned_abs", "saturating_sub") or "max" == short:
                consts = [a for a in t["args"] if a[0] == "k" and a[1].get("v") is not None]
                if short != "max" or any(c[1]["v"] < (1 << 15) for c in consts):
                    return True
        for st in blk["s"]:
            if st[0] == "a" and st[2][0] == "bin" and st[2][1] in ("Lt", "Ge", "Gt", "Le") and st[2][3][0] == "k" \
                    and st[2][3][1].get("v") == 0 and st[2][2][0] in ("c", "m") and st[2][2][1][0] == loc:
                return True
            if st[0] == "a" and st[1][0] == loc and not st[1][1] and st[2][0] == "use" and st[2][1][0] in ("c", "m") \
                    and not st[2][1][1][1]:
                if nonneg_guarded(body, st[2][1][1][0], depth + 1):
                    return True
    return False


FMT_TRAITS = {"new_display": "std::fmt::Display", "new_debug": "std::fmt::Debug", "new_lower_hex": "std::fmt::LowerHex",
              "new_upper_hex": "std::fmt::UpperHex", "to_string": "std::fmt::Display"}


def fmt_impls(facts):
    """(trait, self type) -> body of the crate's own formatting impls"""
    out = {}
    for k, b in facts.bodies.items():
        tr = b.get("impl_trait")
        if tr and tr.startswith("std::fmt::") and b.get("impl_self") and (b["name"] or "").endswith("fmt"):
            out.setdefault(tr, []).append((b["impl_self"], k))
    return out


def cone_of(facts, roots, fmt_edges=False):
    """bodies reachable from roots through resolved calls and closures; with fmt_edges also through formatting
    machinery: `format!("{}", x)` reaches <X as Display>::fmt through a function pointer stored in the argument, so the
    construction of the argument (outside debug_log! expansions, whose output is not observable state) is taken as a
    call of the crate's impl for every crate type mentioned in the argument's type"""
    seen = set()
    st = list(roots)
    impls = fmt_impls(facts) if fmt_edges else {}
    while st:
        k = st.pop()
        if k in seen or k not in facts.bodies:
            continue
        seen.add(k)
        b = facts.bodies[k]
        for c in facts.closures_of(k):
            st.append(c)
        for blk in b["blocks"]:
            t = blk["term"]
            if t["k"] == "call":
                n = F.callee_name(t)
                if n in facts.bodies:
                    st.append(n)
                for cl in t["f"].get("closures", []):
                    st.append(cl)
                if fmt_edges:
                    short = n.rsplit("::", 1)[1].split("::<")[0] if "::" in n else n
                    tr = FMT_TRAITS.get(short)
                    if tr and ("fmt::rt::Argument" in n or short == "to_string") and \
                            not any("debug_log" in m for m in b["spans"][t["sp"]][3]):
                        g = " ".join(t["f"].get("gargs", [])) + " " + n
                        for self_ty, body_k in impls.get(tr, ()):
                            if self_ty in g:
                                st.append(body_k)
    return seen
