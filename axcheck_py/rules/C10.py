"""C10 Memory areas never overlap; allocation and resizing respect existing areas.

C10.overlap  A7 over (new.start, new.end, old.start, old.end): a scan lets a request pass only if it is disjoint
             from the scanned area; resize additionally passes every disjoint request and never rejects the area itself
C10.who      only the lifecycle functions mutate the area list or an area's start/length
C10.term     retry loops of the allocators have a strictly progressing variant
C10.resize   resized data = zero vector of the new size with the common prefix copied index for index
C10.fresh    the address returned by an 'anywhere' allocator is the start of the call that succeeded
"""
from .. import absint as A
from .. import facts as F
from .. import hutil as U
from .. import memmodel as M
from .. import prims as P
from .rules_common import is_err
from . import C08

AXE = "axecutor::Axecutor"


def run(ctx):
    overlap(ctx)
    who(ctx)
    term(ctx)
    resize_copy(ctx)
    fresh(ctx)


def scan_outcome(outs):
    """('pass' if some path finished the scan after seeing the area, 'reject' if an Err left the scan)"""
    passed = rejected = False
    for o in outs:
        seen = any(e[0] == "iter_next" and e[1] == "some" for e in o.path.events)
        done = any(e[0] == "iter_next" and e[1] == "none" for e in o.path.events)
        if not seen:
            continue
        if done:
            passed = True
        elif o.kind == "return" and is_err(o):
            rejected = True
        elif o.kind == "panic" and o.cls == "D":
            rejected = True
    return passed, rejected


def run_scan(ctx, body, args, point, extents, order):
    facts = ctx.facts
    roles = M.EndpointRoles(point, extents)
    unroled = []
    mp = M.MemPrims(facts)
    I = A.Interp(facts, intercept=mp.intercept)
    I.cmp_oracle = M.make_cmp_oracle(roles, unroled)
    path = A.Path()
    path.tags["order"] = order
    outs = list(I.run(body, args, path))
    return outs, unroled


def overlap(ctx):
    ck, facts = ctx.check, ctx.facts
    total = 0
    # ---------------- creation
    body = facts.method(AXE, "mem_init_area_named")
    where = "%s:%d (mem_init_area_named)" % (body["span"][0], body["span"][1])
    accepted_overlap = []
    rejected_disjoint = []
    for o in C08.orderings(True):
        args = [P.self_ref(True), A.W(("start",), 64), ("datavec",), ("name",)]
        outs, unroled = run_scan(ctx, body, args, ("start",), [("len", ("datavec",))], o)
        total += 1
        passed, rejected = scan_outcome(outs)
        ov = M.overlap(o)
        if ov and passed:
            accepted_overlap.append(M.fmt_order(o))
        if not ov and rejected and not passed:
            rejected_disjoint.append(M.fmt_order(o))
    inst = "api=mem_init_area_named"
    if accepted_overlap:
        ck.violation("C10.overlap", inst, "accepts %d overlapping orderings (%s)" % (
            len(accepted_overlap), "; ".join(accepted_overlap)), where=where,
            witness={"orderings": accepted_overlap, "roles": "ns/ne = new start/end, os/oe = existing start/end"},
            what="a new area that overlaps an existing one is accepted")
    else:
        ck.ok("C10.overlap", inst + ",sound")
    if rejected_disjoint:
        ck.violation("C10.overlap", inst, "rejects %d disjoint orderings (%s)" % (
            len(rejected_disjoint), "; ".join(rejected_disjoint[:4])), where=where, witness={"orderings": rejected_disjoint})
    else:
        ck.ok("C10.overlap", inst + ",complete")
    # ---------------- resize
    body = facts.method(AXE, "mem_resize_section")
    where = "%s:%d (mem_resize_section)" % (body["span"][0], body["span"][1])
    acc_ov = []
    rej_dis = []
    rej_self = []
    for o in C08.orderings(True):
        args = [P.self_ref(True), A.W(("start_addr",), 64), A.W(("new_size",), 64)]
        outs, unroled = run_scan(ctx, body, args, ("start_addr",), [("new_size",)], o)
        total += 1
        passed, rejected = scan_outcome(outs)
        if o["os"] == o["ns"]:
            # the scanned area is the one being resized: it must never reject itself
            if rejected and not passed:
                rej_self.append(M.fmt_order(o))
            continue
        ov = M.overlap(o)
        if ov and passed:
            acc_ov.append(M.fmt_order(o))
        if not ov and rejected and not passed:
            rej_dis.append(M.fmt_order(o))
    inst = "api=mem_resize_section"
    if acc_ov:
        ck.violation("C10.overlap", inst, "passes %d colliding orderings (%s)" % (len(acc_ov), "; ".join(acc_ov[:4])),
                     where=where, witness={"orderings": acc_ov}, what="resize collides with another area")
    else:
        ck.ok("C10.overlap", inst + ",sound")
    if rej_dis:
        ck.violation("C10.overlap", inst, "rejects %d disjoint orderings (%s)" % (len(rej_dis), "; ".join(rej_dis)),
                     where=where, witness={"orderings": rej_dis},
                     what="resize fails although the new extent collides with no other area")
    else:
        ck.ok("C10.overlap", inst + ",complete")
    if rej_self:
        ck.violation("C10.overlap", inst + ",self", "the area rejects itself under %d orderings (%s)" % (
            len(rej_self), "; ".join(rej_self)), where=where, witness={"orderings": rej_self},
            what="resize compares the area with itself: every non-zero size fails")
    else:
        ck.ok("C10.overlap", inst + ",self")
    ck.cov["orderings_evaluated"] = total
    ck.sample({"rule": "C10.overlap", "orderings": total, "roles": "ns ne os oe", "spec": "overlap = max(ns,os) < min(ne,oe)"})
    ck.floor("orderings evaluated", total, 52)


def who(ctx):
    ck, facts = ctx.check, ctx.facts
    allowed = {facts.method(AXE, n)["path"] for n in ("mem_init_area_named", "mem_resize_section", "mem_prot", "mem_write_bytes")}
    n = 0
    for k, b in facts.bodies.items():
        if b["glue"]:
            continue
        owner = k.split("::{closure")[0]
        for blk in b["blocks"]:
            for st in blk["s"]:
                if st[0] != "a":
                    continue
                hit = None
                pl = st[1]
                names = [(e[2], e[3]) for e in pl[1] if isinstance(e, list) and e[0] == "f"]
                if names and names[-1][0] in ("start", "length") and names[-1][1] == "state::memory::MemoryArea":
                    hit = "stores MemoryArea.%s" % names[-1][0]
                if names and names[-1] == ("memory", "axecutor::MachineState"):
                    hit = "replaces the area list"
                rv = st[2]
                if rv[0] == "ref" and rv[1] == "mut":
                    nm = [(e[2], e[3]) for e in rv[2][1] if isinstance(e, list) and e[0] == "f"]
                    if nm and nm[-1] == ("memory", "axecutor::MachineState"):
                        hit = "mutably borrows the area list"
                if hit:
                    n += 1
                    inst = "fn=%s" % (facts.bodies[owner]["name"] if owner in facts.bodies else owner)
                    if owner in allowed:
                        ck.ok("C10.who", inst)
                    else:
                        ck.violation("C10.who", inst, hit, where=F.site_str(b, st[3]),
                                     what="area list mutated outside the lifecycle functions (no overlap scan)")
    ck.floor("area-list mutation sites", n, 4)


# --------------------------------------------------------------------------- termination (A12)

def term(ctx):
    ck, facts = ctx.check, ctx.facts
    names = ("mem_init_zero_anywhere", "mem_init_anywhere", "init_stack", "init_stack_program_start")
    nloops = 0
    I = A.Interp(facts)
    for nme in names:
        try:
            if nme == "init_stack_program_start":
                from . import C17
                b = C17.program_start_body(facts)
            else:
                b = facts.method(AXE, nme)
        except KeyError as e:
            ck.violation("C10.term", "api=" + nme, str(e))
            continue
        loops = I.loops_of(b)
        bl = b["blocks"]
        for h, lp in sorted(loops.items()):
            # iterator loops terminate by construction
            if any(bl[n]["term"]["k"] == "call" and F.callee_name(bl[n]["term"]).endswith("::next") and
                   "Iterator" in (bl[n]["term"]["f"].get("def") or "") for n in lp["nodes"]):
                continue
            nloops += 1
            inst = "api=%s,loop@bb%d" % (nme, h) if False else "api=%s" % nme
            v = variant(b, lp)
            if v is None:
                ck.violation("C10.term", inst, "free loop without a recognised variant",
                             where=F.site_str(b, bl[h]["term"]["sp"]))
            elif v[0] == "ok":
                ck.ok("C10.term", inst)
                ck.sample({"rule": "C10.term", "instance": inst, "variant": v[1]})
            else:
                ck.violation("C10.term", inst, v[1], where=v[2],
                             what="retry loop makes no progress for some inputs (e.g. zero length): does not terminate")
    ck.floor("retry loops", nloops, 4)


def variant(b, lp):
    """find `x >= CONST -> exit` and the update of x inside the loop"""
    bl = b["blocks"]
    nodes = lp["nodes"]
    # loop variable: local compared with a constant by Ge/Gt in the loop
    cands = []
    for n in nodes:
        for st in bl[n]["s"]:
            if st[0] == "a" and st[2][0] == "bin" and st[2][1] in ("Ge", "Gt") and st[2][3][0] == "k":
                src = C08.origin(b, st[2][2])
                x = st[2][2][1][0] if st[2][2][0] in ("c", "m") else None
                # the compared operand is a copy of the loop variable
                for n2 in nodes:
                    for s2 in bl[n2]["s"]:
                        if s2[0] == "a" and s2[1][0] == x and s2[2][0] == "use" and s2[2][1][0] in ("c", "m"):
                            cands.append(s2[2][1][1][0])
                if x is not None:
                    cands.append(x)
    # updates
    for x in cands:
        for n in nodes:
            for st in bl[n]["s"]:
                if st[0] != "a" or st[1][0] != x or st[1][1]:
                    continue
                rv = st[2]
                if rv[0] == "bin" and rv[1] in ("Shl", "ShlUnchecked") and rv[3][0] == "k" and rv[3][1].get("v", 0) >= 1:
                    return ("ok", "x <<= %d" % rv[3][1]["v"])
                if rv[0] == "use" and rv[1][0] in ("c", "m") and rv[1][1][1]:
                    # x = move (_t.0) of a checked add
                    tl = rv[1][1][0]
                    for n3 in nodes:
                        for s3 in bl[n3]["s"]:
                            if s3[0] == "a" and s3[1][0] == tl and s3[2][0] == "bin" and s3[2][1] == "AddWithOverflow":
                                inc = s3[2][3]
                                if inc[0] == "k":
                                    if inc[1].get("v", 0) >= 1:
                                        return ("ok", "x += %d" % inc[1]["v"])
                                    return ("bad", "x += 0", F.site_str(b, s3[3]))
                                o = C08.origin(b, inc)
                                if max_with_positive_const(b, inc):
                                    return ("ok", "x += max(y, c) with c >= 1")
                                if positive_guard(b, lp, inc):
                                    return ("ok", "x += y with y >= 1 guarded")
                                return ("bad", "loop variable advances by %s, which may be zero" % fmt_origin(o),
                                        F.site_str(b, s3[3]))
    return None


def max_with_positive_const(b, op):
    """operand is the result of `max(y, c)` with a constant c >= 1"""
    if op[0] not in ("c", "m") or op[1][1]:
        return False
    d = single_def(b, op[1][0])
    seen = 0
    while d and d[0] == "s" and d[1][2][0] in ("use", "cast") and seen < 6:
        seen += 1
        src = d[1][2][1] if d[1][2][0] == "use" else d[1][2][2]
        if src[0] not in ("c", "m") or src[1][1]:
            return False
        d = single_def(b, src[1][0])
    if d and d[0] == "c" and F.callee_name(d[1]).endswith("::max"):
        return any(a[0] == "k" and (a[1].get("v") or 0) >= 1 for a in d[1]["args"])
    return False


def fmt_origin(o):
    if o[0] == "param":
        return "parameter #%d" % o[1]
    if o[0] == "len_of":
        return "len(%s)" % fmt_origin(o[1])
    return str(o)


def positive_guard(b, lp, inc):
    """is there a test `y == 0` / `y >= 1` / `y > 0` outside the loop that dominates the header with an exit?
    Recognised form: any comparison of the same origin with constant 0 or 1 before the loop header."""
    o = C08.origin(b, inc)
    idom = F.dominators(b)
    h = min(lp["nodes"])
    for i, blk in enumerate(b["blocks"]):
        if i in lp["nodes"]:
            continue
        for st in blk["s"]:
            if st[0] == "a" and st[2][0] == "bin" and st[2][1] in ("Eq", "Ne", "Ge", "Gt", "Lt", "Le") and st[2][3][0] == "k" \
                    and st[2][3][1].get("v") in (0, 1) and C08.origin(b, st[2][2]) == o:
                if any(F.dominates(idom, i, n) for n in lp["nodes"]):
                    return True
    return False


# --------------------------------------------------------------------------- resize contents / fresh

def resize_copy(ctx):
    ck, facts = ctx.check, ctx.facts
    b = facts.method(AXE, "mem_resize_section")
    bl = b["blocks"]
    where = "%s:%d (mem_resize_section)" % (b["span"][0], b["span"][1])
    inst = "api=mem_resize_section"
    copies = [i for i, x in enumerate(bl) if x["term"]["k"] == "call" and F.callee_name(x["term"]).endswith("::copy_from_slice")]
    zeros = [i for i, x in enumerate(bl) if x["term"]["k"] == "call" and "from_elem" in F.callee_name(x["term"])]
    mins = [i for i, x in enumerate(bl) if x["term"]["k"] == "call" and F.callee_name(x["term"]).endswith("::min")
            and all("len_of" in str(C08.origin(b, a)) for a in x["term"]["args"])]
    if len(copies) != 1 or len(zeros) != 1 or len(mins) != 1:
        ck.violation("C10.resize", inst, "anchors: copy_from_slice=%d vec![0;n]=%d min=%d" % (len(copies), len(zeros), len(mins)),
                     where=where, what="resize no longer builds a zero vector and copies the common prefix")
        return
    zt = bl[zeros[0]]["term"]
    zero_elem = zt["args"][0]
    zsize = C08.origin(b, zt["args"][1])
    bad = None
    if not (zero_elem[0] == "k" and zero_elem[1].get("v") == 0):
        bad = "fill element is not 0"
    if zsize != ("param", 3):
        bad = bad or "zero vector sized by %s, not the requested size" % (zsize,)
    # both slice ends are the min() result
    mt = bl[mins[0]]["term"]
    mloc = mt["dest"][0]
    ma = sorted(str(C08.origin(b, a)) for a in mt["args"])
    ct = bl[copies[0]]["term"]
    ends = []
    for a in ct["args"]:
        ends.append(slice_end(b, a))
    if any(e is None for e in ends):
        bad = bad or "copy operands are not `[..n]` prefixes"
    elif not all(e == ("local", mloc) for e in ends):
        bad = bad or "prefix lengths %s are not the common min()" % (ends,)
    if not all("len_of" in x for x in ma):
        bad = bad or "min() not taken over the two lengths (%s)" % ma
    if bad:
        ck.violation("C10.resize", inst, bad, where=where, what="resize does not keep the common prefix / zero-fill growth")
    else:
        ck.ok("C10.resize", inst)


def slice_end(b, op):
    """for an operand produced by index/index_mut(x, RangeTo{end}) (possibly through reborrows): ('local', end)"""
    seen = 0
    while op[0] in ("c", "m") and seen < 8:
        seen += 1
        loc = op[1][0]
        d = single_def(b, loc)
        if d is None:
            return None
        kind, x = d
        if kind == "c":
            n = F.callee_name(x)
            if "::index" in n:
                r = x["args"][1]
                rd = single_def(b, r[1][0]) if r[0] in ("c", "m") else None
                if rd and rd[0] == "s" and rd[1][2][0] == "agg" and rd[1][2][1][0] == "adt" and rd[1][2][1][1].endswith("RangeTo"):
                    e = rd[1][2][2][0]
                    if e[0] in ("c", "m"):
                        src = e[1][0]
                        dd = single_def(b, src)
                        while dd and dd[0] == "s" and dd[1][2][0] == "use" and dd[1][2][1][0] in ("c", "m") and not dd[1][2][1][1][1]:
                            src = dd[1][2][1][1][0]
                            dd = single_def(b, src)
                        return ("local", src)
                return None
            return None
        rv = x[2]
        if rv[0] == "ref":
            op = ["c", rv[2]] if not [e for e in rv[2][1] if e != "*"] else None
            if op is None:
                return None
            op = ["c", [rv[2][0], []]]
            continue
        if rv[0] == "use":
            op = rv[1]
            continue
        return None
    return None


def single_def(b, loc):
    defs = []
    for blk in b["blocks"]:
        for st in blk["s"]:
            if st[0] == "a" and st[1][0] == loc and not st[1][1]:
                defs.append(("s", st))
        t = blk["term"]
        if t["k"] == "call" and t["dest"][0] == loc and not t["dest"][1]:
            defs.append(("c", t))
    return defs[0] if len(defs) == 1 else None


def fresh(ctx):
    ck, facts = ctx.check, ctx.facts
    for nme, inner in (("mem_init_zero_anywhere", ("mem_init_zero",)),
                       ("mem_init_anywhere", ("mem_init_area_named", "mem_init_area")),
                       ("init_stack", ("mem_init_zero_named",))):
        b = facts.method(AXE, nme)
        inner_paths = {facts.method(AXE, n)["path"] for n in inner}

        def icpt(I, path, frame, t, name, args, inner_paths=inner_paths):
            if name in inner_paths:
                p2 = path.copy()
                path.events.append(("alloc_ok", args[1]))
                p2.events.append(("alloc_err", args[1]))
                return [(A.OK(A.UNIT), path), (A.ERR(("e",)), p2)]
            if name.endswith("::reg_write_64"):
                path.events.append(("rsp", args[2]))
                return [(A.OK(A.UNIT), path)]
            return None
        I = A.Interp(facts, intercept=icpt, may_inline=lambda n, bb: bb["kind"] == "Closure")
        nargs = b["argc"]
        args = [P.self_ref(True)] + [A.W(("arg%d" % i,), 64) for i in range(1, nargs)]
        outs = list(I.run(b, args, A.Path()))
        oks = [o for o in outs if o.kind == "return" and not is_err(o)]
        inst = "api=" + nme
        where = "%s:%d (%s)" % (b["span"][0], b["span"][1], nme)
        bad = None
        if not oks:
            bad = "no success path"
        for o in oks:
            al = [e for e in o.path.events if e[0] == "alloc_ok"]
            if not al:
                bad = bad or "success without a successful allocation"
                continue
            ret = o.value[3][0]
            if U.strip(ret) != U.strip(al[-1][1]):
                bad = bad or "returns %s, last successful allocation started at %s" % (A.show(ret), A.show(al[-1][1]))
        if bad:
            ck.violation("C10.fresh", inst, bad, where=where, what="allocator returns an address other than the area it created")
        else:
            ck.ok("C10.fresh", inst)
