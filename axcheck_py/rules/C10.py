"""C10 Memory areas never overlap; allocation and resizing respect existing areas.

C10.overlap  A7 over (new.start, new.end, old.start, old.end): a scan lets a request pass only if it is disjoint
             from the scanned area; resize additionally passes every disjoint request and never rejects the area itself
C10.who      only the lifecycle functions mutate the area list or an area's start/length
C10.term     retry loops of the allocators have a strictly progressing variant
C10.search   a search for a free range returns its error only after a probe, or on parameter-only conditions
C10.resize   resized data = zero vector of the new size with the common prefix copied index for index
C10.fresh    the address returned by an 'anywhere' allocator is the start of the call that succeeded
"""
from .. import absint as A
from .. import facts as F
from .. import hmodel as H
from .. import hutil as U
from .. import memmodel as M
from .. import prims as P
from .rules_common import is_err
from . import C08

AXE = "axecutor::Axecutor"


def run(ctx):
    overlap(ctx)
    who(ctx)
    term(ctx)
    resize_copy(ctx)
    fresh(ctx)


def area_pushers(facts):
    """the functions that add to the area list: bodies calling Vec<MemoryArea>::push / insert / extend (by role, not name)"""
    out = []
    for k, b in facts.bodies.items():
        if b["glue"]:
            continue
        for blk in b["blocks"]:
            t = blk["term"]
            if t["k"] == "call":
                n = F.callee_name(t)
                short = n.rsplit("::", 1)[1].split("::<")[0] if "::" in n else n
                if short in ("push", "insert", "extend", "append") and n.startswith("std::vec::Vec") and \
                        "MemoryArea" in " ".join(t["f"].get("gargs", [])):
                    out.append(k.split("::{closure")[0])
    return sorted(set(out))


def scan_outcome(outs):
    """('pass' if some path finished the scan after seeing the area, 'reject' if an Err left the scan)"""
    passed = rejected = False
    for o in outs:
        seen = any(e[0] == "iter_next" and e[1] == "some" for e in o.path.events)
        done = any(e[0] == "iter_next" and e[1] == "none" for e in o.path.events)
        if not seen:
            continue
        if done:
            passed = True
        elif o.kind == "return" and is_err(o):
            rejected = True
        elif o.kind == "panic" and o.cls == "D":
            rejected = True
    return passed, rejected


def run_scan(ctx, body, args, point, extents, order, seq=None):
    facts = ctx.facts
    roles = M.EndpointRoles(point, extents)
    unroled = []
    mp = M.MemPrims(facts)
    I = A.Interp(facts, intercept=mp.intercept)
    I.cmp_oracle = M.make_cmp_oracle(roles, unroled)
    path = A.Path()
    path.tags["order"] = order
    if seq is not None:
        path.tags["area_seq"] = list(seq)
    outs = list(I.run(body, args, path))
    return outs, unroled


def list_verdict(outs, push=False):
    """list mode: (accepted, followed) -- some path returns success (or adds an area) / every path stayed inside the
    list model"""
    accepted = any((o.kind == "return" and not is_err(o) and not push) or
                   (push and any(e[0] == "area_push" for e in o.path.events)) for o in outs)
    followed = not any(o.path.tags.get("list_unsupported") for o in outs) and not any(o.kind == "cut" for o in outs)
    return accepted, followed


def self_reps():
    """one ordering per relation of the old end to the new end, for the area that is being resized (os == ns)"""
    reps = {}
    for o in C08.orderings(True):
        if o["os"] == o["ns"] and o["os"] < o["oe"]:
            reps.setdefault((o["oe"] > o["ne"]) - (o["oe"] < o["ne"]), o)
    return [reps[k] for k in sorted(reps)]


def disjoint_reps():
    """an area entirely below and one entirely above the request"""
    lo = hi = None
    for o in C08.orderings(True):
        if o["os"] < o["oe"] < o["ns"] < o["ne"]:
            lo = o
        if o["ns"] < o["ne"] < o["os"] < o["oe"]:
            hi = o
    return [lo, hi]


def mkargs(body, extents=None):
    """symbolic arguments of an area-creating function: the first u64 is the requested start, a Vec<u8> the data; any
    further integer is a candidate for the requested length (collected into `extents`)"""
    args = [P.self_ref(True)]
    seen_start = seen_data = False
    for i in range(2, body["argc"] + 1):
        ty = body["locals"][i]
        if ty == ["u", 64] and not seen_start:
            args.append(A.W(("start",), 64))
            seen_start = True
        elif isinstance(ty, list) and ty[0] == "adt" and ty[1] == "std::vec::Vec" and not seen_data:
            args.append(("datavec",))
            seen_data = True
            if extents is not None:
                extents.append(("len", ("datavec",)))
        elif isinstance(ty, list) and ty[0] == "u":
            args.append(A.W(("p%d" % i,), ty[1]))
            if extents is not None:
                extents.append(("p%d" % i,))
        else:
            args.append(("name",))
    return args


def push_entries(facts, pusher):
    """the pub / pub(crate) functions through which a module-private area-adding function is reached (via
    module-private functions only)"""
    callers = {}
    for k, b in facts.bodies.items():
        if b["glue"]:
            continue
        owner = k.split("::{closure")[0]
        for blk in b["blocks"]:
            t = blk["term"]
            if t["k"] == "call":
                callers.setdefault(F.callee_name(t), set()).add(owner)
    out, seen, todo = set(), set(), [pusher]
    while todo:
        k = todo.pop()
        if k in seen:
            continue
        seen.add(k)
        b = facts.bodies.get(k)
        if b is None:
            continue
        if not module_private(b):
            out.add(k)
            continue
        todo.extend(callers.get(k, ()))
    return sorted(out)


def module_private(b):
    """visible inside its own module only (pub and pub(crate) functions can be called from anywhere in the crate)"""
    v = b["vis"]
    return v.startswith("Restricted(") and "DefId(0:0 " not in v


def overlap(ctx):
    ck, facts = ctx.check, ctx.facts
    total = 0
    # ---------------- creation: every function that adds to the area list (found by role) must do the scan
    pushers = area_pushers(facts)
    ck.floor("functions adding to the area list", len(pushers), 1)
    entries = []
    for pk in pushers:
        for ek in push_entries(facts, pk):
            if ek not in entries:
                entries.append(ek)
    ck.cov["area_adding_entries"] = [facts.bodies[e]["name"] for e in entries]
    ck.floor("public functions adding to the area list", len(entries), 1)
    for pk in entries:
      body = facts.bodies[pk]
      l1 = body["locals"][1] if body["argc"] >= 1 else None
      if not (isinstance(l1, list) and l1[0] == "ref"):
          # no machine is passed in: a constructor adds to the list of the machine it has just made
          ck.cov.setdefault("constructors_adding_areas", []).append(body["name"])
          continue
      where = "%s:%d (%s)" % (body["span"][0], body["span"][1], body["name"])
      accepted_overlap = []
      rejected_disjoint = []
      ext0 = []
      mkargs(body, ext0)
      for o in C08.orderings(True):
        args = mkargs(body)
        outs, unroled = run_scan(ctx, body, args, ("start",), ext0, o)
        total += 1
        passed, rejected = scan_outcome(outs)
        ov = M.overlap(o)
        if ov and passed:
            accepted_overlap.append(M.fmt_order(o))
        if not ov and rejected and not passed:
            rejected_disjoint.append(M.fmt_order(o))
      # the same over two-element lists: an area that collides is found wherever it sits in the list
      list_bad = []
      nlist = 0
      rt = body["locals"][0]
      listed = isinstance(rt, list) and rt[:2] == ["adt", "std::result::Result"]
      for o in C08.orderings(True):
          if not M.overlap(o):
              continue
          for seq in [[o]] + [s_ for d in disjoint_reps() for s_ in ([d, o], [o, d])]:
                  outs, _u = run_scan(ctx, body, mkargs(body), ("start",), ext0, seq[0], seq=seq)
                  acc, followed = list_verdict(outs, push=True)
                  if not followed:
                      continue
                  nlist += 1
                  if acc:
                      list_bad.append("[%s]" % " | ".join(M.fmt_order(x) for x in seq))
      ck.cov["list_runs:%s" % body["name"]] = nlist
      inst = "api=%s" % body["name"]
      if list_bad:
          ck.violation("C10.overlap", inst + ",list", "adds a colliding area to %d one- and two-area lists (%s)" % (
              len(list_bad), "; ".join(list_bad[:3])), where=where, witness={"lists": list_bad[:8]},
              what="the scan for collisions does not look at every area of the list")
      else:
          ck.ok("C10.overlap", inst + ",list")
      if accepted_overlap:
          ck.violation("C10.overlap", inst, "accepts %d overlapping orderings (%s)" % (
              len(accepted_overlap), "; ".join(accepted_overlap)), where=where,
              witness={"orderings": accepted_overlap, "roles": "ns/ne = new start/end, os/oe = existing start/end"},
              what="a new area that overlaps an existing one is accepted")
      else:
          ck.ok("C10.overlap", inst + ",sound")
      if rejected_disjoint:
          ck.violation("C10.overlap", inst, "rejects %d disjoint orderings (%s)" % (
              len(rejected_disjoint), "; ".join(rejected_disjoint[:4])), where=where, witness={"orderings": rejected_disjoint})
      else:
          ck.ok("C10.overlap", inst + ",complete")
    # ---------------- resize
    body = facts.method(AXE, "mem_resize_section")
    where = "%s:%d (mem_resize_section)" % (body["span"][0], body["span"][1])
    acc_ov = []
    rej_dis = []
    rej_self = []
    for o in C08.orderings(True):
        args = [P.self_ref(True), A.W(("start_addr",), 64), A.W(("new_size",), 64)]
        outs, unroled = run_scan(ctx, body, args, ("start_addr",), [("new_size",)], o)
        total += 1
        passed, rejected = scan_outcome(outs)
        if o["os"] == o["ns"]:
            # the scanned area is the one being resized: it must never reject itself
            if rejected and not passed:
                rej_self.append(M.fmt_order(o))
            continue
        ov = M.overlap(o)
        if ov and passed:
            acc_ov.append(M.fmt_order(o))
        if not ov and rejected and not passed:
            rej_dis.append(M.fmt_order(o))
    list_bad = []
    nlist = 0
    for o in C08.orderings(True):
        if o["os"] == o["ns"] or not M.overlap(o):
            continue
        for s_ in self_reps():
            for seq in ([s_, o], [o, s_]):
                args = [P.self_ref(True), A.W(("start_addr",), 64), A.W(("new_size",), 64)]
                outs, _u = run_scan(ctx, body, args, ("start_addr",), [("new_size",)], seq[0], seq=seq)
                acc, followed = list_verdict(outs)
                if not followed:
                    continue
                nlist += 1
                if acc:
                    list_bad.append("[%s | %s]" % (M.fmt_order(seq[0]), M.fmt_order(seq[1])))
    # two areas with the same start (possible when one of them is empty): the one that is resized to a non-empty extent
    # must not be the empty twin of a non-empty area -- afterwards both would cover the start address
    twin_bad = []
    ntwin = 0
    full = [o for o in C08.orderings(True) if o["os"] == o["ns"] and o["os"] < o["oe"] and o["ns"] < o["ne"]]
    empty = [o for o in C08.orderings(True) if o["os"] == o["ns"] == o["oe"] and o["ns"] < o["ne"]]
    for x in full:
        for z in empty:
            for seq in ([x, z], [z, x]):
                args = [P.self_ref(True), A.W(("start_addr",), 64), A.W(("new_size",), 64)]
                outs, _u = run_scan(ctx, body, args, ("start_addr",), [("new_size",)], seq[0], seq=seq)
                acc, followed = list_verdict(outs)
                if not followed:
                    continue
                decided = True
                for o_ in outs:
                    if o_.kind != "return" or is_err(o_):
                        continue
                    hand = [e for e in o_.path.events if e[0] == "area_handout" and e[2]]
                    if not hand:
                        decided = False
                        continue
                    if seq[hand[-1][1]] is z:
                        twin_bad.append("[%s]" % " | ".join(M.fmt_order(q) for q in seq))
                ntwin += 1 if decided else 0
    ck.cov["twin_list_runs:mem_resize_section"] = ntwin
    if twin_bad:
        ck.violation("C10.overlap", "api=mem_resize_section,twins", "grows the empty one of two areas that share a start in %d lists (%s)" % (
            len(twin_bad), "; ".join(twin_bad[:3])), where=where, witness={"lists": twin_bad[:8],
            "history": "mem_init_area(S, 10 bytes); mem_init_zero(S, 0); mem_resize_section(S, 5)"},
            what="an empty area may share its start with another area; resizing by start address then grows the empty "
                 "one over its non-empty twin: two areas cover the same addresses")
    else:
        ck.ok("C10.overlap", "api=mem_resize_section,twins")
    ck.cov["list_runs:mem_resize_section"] = nlist
    if list_bad:
        ck.violation("C10.overlap", "api=mem_resize_section,list", "succeeds with a colliding area in %d two-area lists (%s)" % (
            len(list_bad), "; ".join(list_bad[:3])), where=where, witness={"lists": list_bad[:8]},
            what="the scan for collisions does not look at every area of the list")
    else:
        ck.ok("C10.overlap", "api=mem_resize_section,list")
    inst = "api=mem_resize_section"
    if acc_ov:
        ck.violation("C10.overlap", inst, "passes %d colliding orderings (%s)" % (len(acc_ov), "; ".join(acc_ov[:4])),
                     where=where, witness={"orderings": acc_ov}, what="resize collides with another area")
    else:
        ck.ok("C10.overlap", inst + ",sound")
    if rej_dis:
        ck.violation("C10.overlap", inst, "rejects %d disjoint orderings (%s)" % (len(rej_dis), "; ".join(rej_dis)),
                     where=where, witness={"orderings": rej_dis},
                     what="resize fails although the new extent collides with no other area")
    else:
        ck.ok("C10.overlap", inst + ",complete")
    if rej_self:
        ck.violation("C10.overlap", inst + ",self", "the area rejects itself under %d orderings (%s)" % (
            len(rej_self), "; ".join(rej_self)), where=where, witness={"orderings": rej_self},
            what="resize compares the area with itself: every non-zero size fails")
    else:
        ck.ok("C10.overlap", inst + ",self")
    ck.cov["orderings_evaluated"] = total
    ck.sample({"rule": "C10.overlap", "orderings": total, "roles": "ns ne os oe", "spec": "overlap = max(ns,os) < min(ne,oe)"})
    ck.floor("orderings evaluated", total, 52)


def who(ctx):
    ck, facts = ctx.check, ctx.facts
    allowed = {facts.method(AXE, n)["path"] for n in ("mem_resize_section", "mem_prot", "mem_write_bytes")} | set(area_pushers(facts))
    n = 0
    for k, b in facts.bodies.items():
        if b["glue"]:
            continue
        owner = k.split("::{closure")[0]
        for blk in b["blocks"]:
            for st in blk["s"]:
                if st[0] != "a":
                    continue
                hit = None
                pl = st[1]
                names = [(e[2], e[3]) for e in pl[1] if isinstance(e, list) and e[0] == "f"]
                if names and names[-1][0] in ("start", "length") and names[-1][1] == "state::memory::MemoryArea":
                    hit = "stores MemoryArea.%s" % names[-1][0]
                if names and names[-1] == ("memory", "axecutor::MachineState"):
                    hit = "replaces the area list"
                rv = st[2]
                if rv[0] == "ref" and rv[1] == "mut":
                    nm = [(e[2], e[3]) for e in rv[2][1] if isinstance(e, list) and e[0] == "f"]
                    if nm and nm[-1] == ("memory", "axecutor::MachineState"):
                        hit = "mutably borrows the area list"
                if hit:
                    n += 1
                    inst = "fn=%s" % (facts.bodies[owner]["name"] if owner in facts.bodies else owner)
                    if owner in allowed:
                        ck.ok("C10.who", inst)
                    else:
                        ck.violation("C10.who", inst, hit, where=F.site_str(b, st[3]),
                                     what="area list mutated outside the lifecycle functions (no overlap scan)")
    ck.floor("area-list mutation sites", n, 4)


# --------------------------------------------------------------------------- termination (A12)

def term(ctx):
    ck, facts = ctx.check, ctx.facts
    names = ("mem_init_zero_anywhere", "mem_init_anywhere", "init_stack", "init_stack_program_start")
    nloops = 0
    apis_with_loop = 0
    I = A.Interp(facts)
    for nme in names:
        try:
            if nme == "init_stack_program_start":
                from . import C17
                b = C17.program_start_body(facts)
            else:
                b = facts.method(AXE, nme)
        except KeyError as e:
            ck.violation("C10.term", "api=" + nme, str(e))
            continue
        found_here = 0
        for lb in private_cone(facts, b):
            loops = I.loops_of(lb)
            bl = lb["blocks"]
            for h, lp in sorted(loops.items()):
                # iterator loops terminate by construction
                if any(bl[n]["term"]["k"] == "call" and F.callee_name(bl[n]["term"]).endswith("::next") and
                       "Iterator" in (bl[n]["term"]["f"].get("def") or "") for n in lp["nodes"]):
                    continue
                nloops += 1
                found_here += 1
                inst = "api=%s" % nme
                v = variant(lb, lp) if lb is b else None
                if v is None:
                    v = popping_variant(lb, lp)
                if v is None or v[0] != "ok":
                    v2 = semantic_variant(ctx, lb, lp, entry=b)
                    v = v2 if v2 is not None else v
                if v is None:
                    ck.violation("C10.term", inst, "free loop without a recognised variant",
                                 where=F.site_str(lb, bl[h]["term"]["sp"]))
                elif v[0] == "ok":
                    ck.ok("C10.term", inst)
                    ck.sample({"rule": "C10.term", "instance": inst, "variant": v[1]})
                else:
                    ck.violation("C10.term", inst, v[1], where=v[2],
                                 what="retry loop makes no progress for some inputs (e.g. zero length): does not terminate")
        apis_with_loop += 1  # analysed: every free loop of its private cone has a variant (none, if it searches by iterator)
        search_probe(ctx, b, nme)
    ck.cov["retry_loops"] = nloops
    ck.floor("allocator / stack APIs whose private cone was analysed for free loops", apis_with_loop, 4)


def creators(facts):
    """functions from which an area-adding function is reachable (a call of one of them is a probe of the address space)"""
    callers = {}
    for k, b in facts.bodies.items():
        if b["glue"]:
            continue
        owner = k.split("::{closure")[0]
        for blk in b["blocks"]:
            t = blk["term"]
            if t["k"] == "call":
                callers.setdefault(F.callee_name(t), set()).add(owner)
    out, todo = set(), list(area_pushers(facts))
    while todo:
        k = todo.pop()
        if k in out:
            continue
        out.add(k)
        todo.extend(callers.get(k, ()))
    return out


def state_leaf(x):
    """a leaf of a branch condition that is neither a constant nor derived from the function's own parameters"""
    r = repr(x)
    if "closure:" in r:
        return False  # the outcome of a computation driven by a closure (an adaptor chain), not a read of the state
    return ("'self'" in r or "'area'" in r) and "'param'" not in r and x[0] not in ("int", "str", "k")


def search_probe(ctx, b, nme, rule="C10.search"):
    """C10.search: a search for a free range gives up only after probing. A path that returns the function's error
    without a single attempt to create the area must not have branched on the machine's state: a search that starts
    from (or is cut short by) something read from the area list can fail although free space exists (seeded change
    S56 started behind the most recently created area, which may lie above the search limit)."""
    ck, facts = ctx.check, ctx.facts
    mp = M.MemPrims(facts)
    pr = P.HandlerPrims(facts, ctx.roles)
    inline_ok = {x["path"] for x in private_cone(facts, b)}
    crs = creators(facts)

    def icpt(I, path, frame, t, name, args):
        cb = facts.bodies.get(name)
        if cb is not None and cb.get("impl_self") == AXE and cb["kind"] != "Closure" \
                and name not in pr.by_path and name not in inline_ok:
            path.events.append(("mcall", name))
            p2 = path.copy()
            rt = cb["locals"][0]
            if isinstance(rt, list) and rt[0] == "adt" and rt[1] == "std::result::Result":
                return [(A.OK(("ret", name, (), len(path.events))), path), (A.ERR(("e",)), p2)]
            return [(("ret", name, (), len(path.events)), path)]
        return mp.intercept(I, path, frame, t, name, args) or pr.intercept(I, path, frame, t, name, args)
    I = A.Interp(facts, intercept=icpt, max_paths=20000)
    args = []
    for i in range(1, b["argc"] + 1):
        ty = b["locals"][i]
        if isinstance(ty, list) and ty[0] == "ref" and ty[2] == ["adt", AXE, []]:
            args.append(P.self_ref(bool(ty[1])))
        elif isinstance(ty, list) and ty[0] in ("u", "i"):
            args.append(A.W(("param", i), 64))
        else:
            args.append(("param", i))
    inst = "api=%s" % nme
    try:
        outs = list(I.run(b, args, A.Path()))
    except Exception as e:  # noqa
        ck.undecided_(rule, inst, "interpretation failed: %s" % e)
        return
    bad = None
    nerr = nprobed = 0
    for o in outs:
        if o.kind != "return" or not is_err(o):
            continue
        nerr += 1
        if any(e[0] == "mcall" and e[1] in crs for e in o.path.events):
            nprobed += 1
            continue
        for c in o.path.conds:
            lv = [x for x in H.leaves(c[0]) if state_leaf(x)]
            if lv:
                bad = bad or "gives up without a single probe after branching on %s" % A.show(U.strip(lv[0]))[:60]
    ck.cov["search_error_paths:%s" % nme] = [nerr, nprobed]
    if nprobed == 0:
        bad = bad or "no error path that follows a failed probe was found"
    if bad:
        ck.violation(rule, inst, bad, where="%s:%d (%s)" % (b["span"][0], b["span"][1], b["name"]),
                     what="the search for a free range can fail although free space exists")
    else:
        ck.ok(rule, inst, nprobed)


def on_every_cycle(b, lp, update_blocks):
    """every way round the loop passes one of update_blocks: without them the header cannot reach itself"""
    bl = b["blocks"]
    nodes = set(lp["nodes"])
    h = lp["header"] if "header" in lp else None
    if h is None:
        return False
    if h in update_blocks:
        return True
    seen = set()
    todo = [s_ for s_ in F.succs(bl[h]) if s_ in nodes]
    while todo:
        n = todo.pop()
        if n == h:
            return False
        if n in seen or n in update_blocks:
            continue
        seen.add(n)
        todo.extend(s_ for s_ in F.succs(bl[n]) if s_ in nodes)
    return True


def variant(b, lp):
    """find `x >= CONST -> exit` and the update of x inside the loop (an update that every way round the loop passes)"""
    r = variant0(b, lp)
    if r is not None and r[0] == "ok" and not on_every_cycle(b, lp, r[2]):
        return None
    return r[:2] if r is not None and r[0] == "ok" else r


def variant0(b, lp):
    bl = b["blocks"]
    nodes = lp["nodes"]
    # loop variable: local compared with a constant by Ge/Gt in the loop
    cands = []
    for n in nodes:
        for st in bl[n]["s"]:
            if st[0] == "a" and st[2][0] == "bin" and st[2][1] in ("Ge", "Gt") and st[2][3][0] == "k":
                src = C08.origin(b, st[2][2])
                x = st[2][2][1][0] if st[2][2][0] in ("c", "m") else None
                # the compared operand is a copy of the loop variable
                for n2 in nodes:
                    for s2 in bl[n2]["s"]:
                        if s2[0] == "a" and s2[1][0] == x and s2[2][0] == "use" and s2[2][1][0] in ("c", "m"):
                            cands.append(s2[2][1][1][0])
                if x is not None:
                    cands.append(x)
    # updates
    for x in cands:
        for n in nodes:
            for st in bl[n]["s"]:
                if st[0] != "a" or st[1][0] != x or st[1][1]:
                    continue
                rv = st[2]
                if rv[0] == "bin" and rv[1] in ("Shl", "ShlUnchecked") and rv[3][0] == "k" and rv[3][1].get("v", 0) >= 1:
                    return ("ok", "x <<= %d" % rv[3][1]["v"], {n})
                if rv[0] == "use" and rv[1][0] in ("c", "m") and rv[1][1][1]:
                    # x = move (_t.0) of a checked add
                    tl = rv[1][1][0]
                    for n3 in nodes:
                        for s3 in bl[n3]["s"]:
                            if s3[0] == "a" and s3[1][0] == tl and s3[2][0] == "bin" and s3[2][1] == "AddWithOverflow":
                                inc = s3[2][3]
                                if inc[0] == "k":
                                    if inc[1].get("v", 0) >= 1:
                                        return ("ok", "x += %d" % inc[1]["v"], {n})
                                    return ("bad", "x += 0", F.site_str(b, s3[3]))
                                o = C08.origin(b, inc)
                                if max_with_positive_const(b, inc):
                                    return ("ok", "x += max(y, c) with c >= 1", {n})
                                if positive_guard(b, lp, inc):
                                    return ("ok", "x += y with y >= 1 guarded", {n})
                                return ("bad", "loop variable advances by %s, which may be zero" % fmt_origin(o),
                                        F.site_str(b, s3[3]))
    return None


def private_cone(facts, b):
    """b plus the private (non-pub) methods of the machine and closures it reaches: the code a maintainer may move a loop into"""
    out, todo = [], [b["path"]]
    seen = set()
    while todo:
        k = todo.pop()
        if k in seen or k not in facts.bodies:
            continue
        seen.add(k)
        out.append(facts.bodies[k])
        for c in facts.closures_of(k):
            todo.append(c)
        for blk in facts.bodies[k]["blocks"]:
            t = blk["term"]
            if t["k"] == "call":
                cn = F.callee_name(t)
                cb = facts.bodies.get(cn)
                if cb is not None and cb.get("impl_self") == AXE and cb["vis"] != "pub" and cb["kind"] != "Closure" and not cb["glue"]:
                    todo.append(cn)
    return out


def semantic_variant(ctx, b, lp, entry=None):
    """path form of the variant argument, independent of how the loop is spelled: the function is interpreted with the
    loop widened; on every path that comes back to the header after the generic iteration some local x satisfies
    x' = x + inc with inc >= 1 established on the path (constant, max(_, c >= 1), or a value the path tested to be
    non-zero) or x' = x << k (k >= 1), and the generic iteration compared x with a constant (the exit test).
    Returns ('ok', why) / ('bad', why, site) / None (nothing recognised)."""
    facts = ctx.facts
    h = min(lp["nodes"]) if "header" not in lp else lp["header"]
    mp = M.MemPrims(facts)
    pr = P.HandlerPrims(facts, ctx.roles)
    entry = entry or b
    inline_ok = {x["path"] for x in private_cone(facts, entry)}

    def icpt(I, path, frame, t, name, args):
        cb = facts.bodies.get(name)
        if cb is not None and cb.get("impl_self") == AXE and cb["kind"] != "Closure" \
                and name not in pr.by_path and name not in inline_ok:
            # calls into the rest of the machine from the loop's function: succeed or fail, nothing else matters here
            p2 = path.copy()
            rt = cb["locals"][0]
            if isinstance(rt, list) and rt[0] == "adt" and rt[1] == "std::result::Result":
                return [(A.OK(("ret", name, (), len(path.events))), path), (A.ERR(("e",)), p2)]
            return [(("ret", name, (), len(path.events)), path)]
        return mp.intercept(I, path, frame, t, name, args) or pr.intercept(I, path, frame, t, name, args)
    I = A.Interp(facts, intercept=icpt, max_paths=20000)
    I.backedge_sink = []
    args = []
    for i in range(1, entry["argc"] + 1):
        ty = entry["locals"][i]
        if isinstance(ty, list) and ty[0] == "ref" and ty[2] == ["adt", AXE, []]:
            args.append(P.self_ref(bool(ty[1])))
        elif isinstance(ty, list) and ty[0] in ("u", "i"):
            args.append(A.W(("param", i), 64))
        else:
            args.append(("param", i))
    try:
        list(I.run(entry, args, A.Path()))
    except Exception:  # noqa
        return None
    arrivals = [(fr, bb, p) for fr, bb, p in I.backedge_sink if fr.body["path"] == b["path"] and bb in lp["nodes"]]
    if not arrivals:
        return None
    why = None
    for fr, bb, p in arrivals:
        w = p.tags.get(("widened", fr.fid, bb))
        if w is None:
            return None
        tops, ncond = w
        found = None
        for l, top in tops.items():
            new = p.store.get(("L", fr.fid, l))
            if new is None or new == top:
                continue
            sn = U.strip(new)
            # the exit test: the generic iteration compared x with a constant
            tested = any(c[0][0] == "bin" and c[0][1] in A.CMP_OPS and U.strip(c[0][2]) == top and A.is_int(U.strip(c[0][3]))
                         for c in p.conds[ncond:])
            if not tested:
                continue
            if sn[0] == "bin" and sn[1] in ("Shl", "ShlUnchecked") and U.strip(sn[2]) == top and A.is_int(sn[3]) and sn[3][1] >= 1:
                found = "x <<= %d" % sn[3][1]
                break
            d = U.affine_norm(("bin", "Sub", new, top, 64))
            if not d[0]:
                k = d[1] if d[1] < (1 << 63) else d[1] - (1 << 64)
                if k >= 1:
                    found = "x += %d" % k
                    break
                return ("bad", "loop variable advances by %d" % k, F.site_str(b, b["blocks"][bb]["term"]["sp"]))
            if len(d[0]) == 1 and d[1] == 0 and list(d[0].values())[0] == 1:
                inc = U.strip(list(d[0].keys())[0])
                if inc[0] == "ret" and inc[1] == "max" and any(A.is_int(U.strip(a_)) and U.strip(a_)[1] >= 1 for a_ in inc[2]):
                    found = "x += max(y, c) with c >= 1"
                    break
                nz = False
                for c in p.conds:
                    t = c[0]
                    if t[0] == "bin" and U.strip(t[2]) == inc and A.is_int(U.strip(t[3])):
                        kc = U.strip(t[3])[1]
                        truth = (c[2] != 0) if c[1] == "==" else True
                        if (t[1] == "Eq" and kc == 0 and not truth) or (t[1] == "Ne" and kc == 0 and truth) or \
                                (t[1] == "Ge" and kc >= 1 and truth) or (t[1] == "Gt" and truth) or (t[1] == "Lt" and kc == 1 and not truth):
                            nz = True
                if nz:
                    found = "x += y with y != 0 on this path"
                    break
                return ("bad", "loop variable advances by %s, which may be zero" % A.show(inc)[:40],
                        F.site_str(b, b["blocks"][bb]["term"]["sp"]))
        if found is None:
            return None
        why = why or found
    return ("ok", why + " (every path back to the loop header)")


def popping_variant(b, lp):
    """`while let Some(x) = v.pop()`: every iteration removes an element and nothing in the loop adds one to a vector of
    that element type, so the length is the variant"""
    bl = b["blocks"]
    pops, grows = [], []
    for n in lp["nodes"]:
        t = bl[n]["term"]
        if t["k"] != "call":
            continue
        cn = F.callee_name(t)
        short = cn.rsplit("::", 1)[1].split("::<")[0] if "::" in cn else cn
        g = (t["f"].get("gargs") or [""])[0]
        if cn.startswith(("std::vec::Vec", "std::collections::VecDeque")) and short in ("pop", "pop_front", "pop_back"):
            pops.append(g)
        if cn.startswith(("std::vec::Vec", "std::collections::VecDeque")) and short in ("push", "push_back", "push_front", "insert", "extend",
                                                                                         "append", "extend_from_slice", "resize"):
            grows.append(g)
    if pops and not any(g in pops for g in grows):
        return ("ok", "the popped vector's length (nothing in the loop adds to it)")
    return None


def max_with_positive_const(b, op):
    """operand is the result of `max(y, c)` with a constant c >= 1"""
    if op[0] not in ("c", "m") or op[1][1]:
        return False
    d = single_def(b, op[1][0])
    seen = 0
    while d and d[0] == "s" and d[1][2][0] in ("use", "cast") and seen < 6:
        seen += 1
        src = d[1][2][1] if d[1][2][0] == "use" else d[1][2][2]
        if src[0] not in ("c", "m") or src[1][1]:
            return False
        d = single_def(b, src[1][0])
    if d and d[0] == "c" and F.callee_name(d[1]).endswith("::max"):
        return any(a[0] == "k" and (a[1].get("v") or 0) >= 1 for a in d[1]["args"])
    return False


def fmt_origin(o):
    if o[0] == "param":
        return "parameter #%d" % o[1]
    if o[0] == "len_of":
        return "len(%s)" % fmt_origin(o[1])
    return str(o)


def positive_guard(b, lp, inc):
    """is there a test `y == 0` / `y >= 1` / `y > 0` outside the loop that dominates the header with an exit?
    Recognised form: any comparison of the same origin with constant 0 or 1 before the loop header."""
    o = C08.origin(b, inc)
    idom = F.dominators(b)
    h = min(lp["nodes"])
    for i, blk in enumerate(b["blocks"]):
        if i in lp["nodes"]:
            continue
        for st in blk["s"]:
            if st[0] == "a" and st[2][0] == "bin" and st[2][1] in ("Eq", "Ne", "Ge", "Gt", "Lt", "Le") and st[2][3][0] == "k" \
                    and st[2][3][1].get("v") in (0, 1) and C08.origin(b, st[2][2]) == o:
                if any(F.dominates(idom, i, n) for n in lp["nodes"]):
                    return True
    return False


# --------------------------------------------------------------------------- resize contents / fresh

SIZE_CLASSES = (("new<old", 0, 1), ("new=old", 1, 1), ("new>old", 2, 1))


def resize_runs(ctx):
    """mem_resize_section interpreted over the byte-sequence model, once per class of the requested size against the
    area's current length; per return path: (class, outcome, {element: {field: final value}}, path)"""
    from .. import seqmodel as SQ
    facts = ctx.facts
    body = facts.method(AXE, "mem_resize_section")
    NEW = ("new_size",)
    out = []
    unmodelled = []
    pushers = set(area_pushers(facts)) - {body["path"]}
    protp = facts.method(AXE, "mem_prot")["path"]
    for cname, nrank, orank in SIZE_CLASSES:
        mp = M.MemPrims(facts)
        atom = lambda v: v[0] == "field" and v[2] == "data"

        def chain(I, path, frame, t, name, args, mp=mp):
            short = name.rsplit("::", 1)[1].split("::<")[0] if "::" in name else name
            if name.startswith("std::vec::Vec") and short in ("remove", "swap_remove") and "MemoryArea" in " ".join(t["f"].get("gargs", [])):
                # the area is taken out of the list (to be put back): its value is the scanned area
                path.events.append(("area_removed",))
                return [(M.AREA, path)]
            if name in pushers or any(name == p_ or name.startswith(p_ + "::") for p_ in pushers):
                # the creation can be refused (a collision with another area)
                p2 = path.copy()
                p2.events.append(("recreate_failed", tuple(args[1:])))
                path.events.append(("recreate", tuple(args[1:])))
                return [(A.OK(A.UNIT), path), (A.ERR(("recreate_err",)), p2)]
            cb = facts.bodies.get(name)
            if cb is not None and cb.get("impl_self") == AXE and cb["kind"] != "Closure" and name != body["path"] and name != protp:
                # a public creation wrapper forwarding to a pusher
                for blk in cb["blocks"]:
                    tt = blk["term"]
                    if tt["k"] == "call" and F.callee_name(tt) in pushers:
                        p2 = path.copy()
                        p2.events.append(("recreate_failed", tuple(args[1:])))
                        path.events.append(("recreate", tuple(args[1:])))
                        return [(A.OK(A.UNIT), path), (A.ERR(("recreate_err",)), p2)]
            if name == protp:
                path.events.append(("prot", args[1], args[2]))
                return [(A.OK(A.UNIT), path)]
            return mp.intercept(I, path, frame, t, name, args)
        sm = SQ.SeqMapPrims(facts, (), (), chain=chain, atom_pred=atom)

        def rank(t, nrank=nrank, orank=orank):
            t = U.strip(t)
            if t == NEW:
                return nrank
            if t[0] == "len" and U.strip(t[1])[0] == "field" and U.strip(t[1])[2] == "data":
                return orank
            if t[0] == "field" and t[2] == "length":
                return orank
            return None

        def oracle(path, op, x, y, rank=rank):
            rx, ry = rank(x), rank(y)
            if rx is None or ry is None:
                return None
            return int({"Eq": rx == ry, "Ne": rx != ry, "Lt": rx < ry, "Le": rx <= ry, "Gt": rx > ry, "Ge": rx >= ry}[op])
        I = A.Interp(facts, intercept=sm.intercept, max_paths=50000)
        I.cmp_oracle = oracle
        outs = list(I.run(body, [P.self_ref(True), A.W(("start_addr",), 64), A.W(NEW, 64)], A.Path()))
        unmodelled += sm.unmodelled
        for o in outs:
            if o.kind != "return":
                continue
            elems = {}
            for e in o.path.events:
                if e[0] not in ("store", "seqstore"):
                    continue
                loc = e[1]
                fn = [p_[2] for p_ in loc[1] if isinstance(p_, tuple) and p_[0] == "f"]
                if not fn or fn[-1] not in ("data", "length", "start", "access", "name"):
                    continue
                root = loc[0]
                if root == M.AREA_ROOT:
                    key = ("elem", "iterated")
                elif root[0] == "D" and root[1][0] == "ret" and "ops::Index" in root[1][1]:
                    key = ("elem", U.strip(root[1][2][1]))
                else:
                    key = ("elem", root)
                elems.setdefault(key, {})[fn[-1]] = e[2]
            rec = [e for e in o.path.events if e[0] == "recreate"]
            if rec and any(e[0] == "area_removed" for e in o.path.events):
                # remove + re-create: the new area's fields are the creation arguments; its mask is the creator's default
                a_ = rec[-1][1]
                datas = [x for x in a_ if SQ.is_seq(x, atom)]
                starts = [x for x in a_ if not SQ.is_seq(x, atom) and U.strip(x)[0] in ("start_addr", "field")]
                prots = [e for e in o.path.events if e[0] == "prot"]
                carried = any(U.strip(e[2]) == ("field", M.AREA, "access") for e in prots)
                # ... or by a store to the re-created area's mask after the creation (through last_mut(), an index, ...)
                ri_ = max(i_ for i_, e in enumerate(o.path.events) if e[0] == "recreate")
                for e in o.path.events[ri_:]:
                    if e[0] == "store":
                        fn_ = [p_[2] for p_ in e[1][1] if isinstance(p_, tuple) and p_[0] == "f"]
                        if fn_[-1:] == ["access"] and U.strip(e[2]) == ("field", M.AREA, "access"):
                            carried = True
                elems[("elem", "iterated")] = {"data": datas[0] if datas else ("?",),
                                               "length": SQ.seq_len(datas[0]) if datas else ("?",),
                                               "access": ("field", M.AREA, "access") if carried else ("default-mask",)}
                if starts and U.strip(starts[0]) not in (("start_addr",), ("field", M.AREA, "start")):
                    elems[("elem", "iterated")]["start"] = starts[0]
            out.append((cname, "err" if is_err(o) else "ok", elems, o.path))
    return body, out, unmodelled


def elem_of_atom(v):
    """which element an old-data atom ('field', X, 'data') belongs to"""
    x = v[1]
    while x[0] in ("deref", "w"):
        x = x[1]
    if x == M.AREA:
        return ("elem", "iterated")
    if x[0] == "ret" and "ops::Index" in x[1]:
        return ("elem", U.strip(x[2][1]))
    return ("elem", x)


def resize_copy(ctx):
    """C10.resize / C10.atomic (and C08.invariant for the resize function), decided on the final values"""
    from .. import seqmodel as SQ
    ck = ctx.check
    body, runs, unmodelled = resize_runs(ctx)
    where = "%s:%d (mem_resize_section)" % (body["span"][0], body["span"][1])
    inst = "api=mem_resize_section"
    NEW = A.W(("new_size",), 64)
    rbad = abad = ibad = None
    nok = 0
    if unmodelled:
        ck.undecided_("C10.resize", inst, "vector call outside the sequence model: %s" % unmodelled[0])
    for cname, outcome, elems, path in runs:
        if outcome == "err":
            evs_ = path.events
            rem_ = [i_ for i_, e in enumerate(evs_) if e[0] == "area_removed"]
            if rem_ and not any(e[0] in ("recreate", "area_push") for e in evs_[rem_[-1]:]):
                abad = abad or "%s: a refused resize has taken the area out of the list and not put it back" % cname
            if elems:
                abad = abad or "%s: a refused resize has already changed %s of an area" % (
                    cname, "/".join(sorted({f for fs in elems.values() for f in fs})))
            continue
        if unmodelled:
            continue
        if not elems and any(e[0] == "loop_widened" for e in path.events):
            continue  # the change happened in an iteration the widening dropped; judged on the paths that show it
        nok += 1
        if len(elems) != 1:
            rbad = rbad or "%s: a successful resize changes %d areas" % (cname, len(elems))
            continue
        key, fields = list(elems.items())[0]
        if "start" in fields:
            rbad = rbad or "the area's start is reassigned"
        if "access" in fields and U.strip(fields["access"]) != ("field", M.AREA, "access"):
            rbad = rbad or "the resized area does not keep its permission mask (%s)" % (
                "re-created with the creator's default mask" if fields["access"] == ("default-mask",) else A.show(fields["access"])[:40])
        if "data" not in fields or "length" not in fields:
            ibad = ibad or "only %s of the area is updated: length != data.len() afterwards" % "/".join(sorted(fields))
            continue
        if not U.affine_eq(fields["length"], NEW):
            rbad = rbad or "%s: length := %s, requested %s" % (cname, A.show(U.strip(fields["length"]))[:40], "new_size")
        data = fields["data"]
        if not SQ.is_seq(data, lambda v: v[0] == "field" and v[2] == "data"):
            rbad = rbad or "%s: new contents are not a byte-sequence expression of the old contents (%s)" % (cname, A.show(data)[:50])
            continue
        nf = SQ.normal_form(data)
        atoms = [s_[0] for s_ in (nf or []) if s_[0] != SQ.ZERO]
        old = atoms[0] if atoms else None
        if nf is None:
            rbad = rbad or "%s: new contents cannot be normalised" % cname
            continue
        if cname == "new=old" and old is not None:
            nf = SQ.normal_form(data, {("new_size",): U.strip(SQ.seq_len(old))})
        if any(a_[0] != "field" or elem_of_atom(a_) != key for a_ in atoms):
            rbad = rbad or "%s: new contents come from another area" % cname
            continue
        # expected: old[..min(old_len, new)] ++ zeros(new - min)
        if cname == "new>old":
            want_shape = "old ++ zeros(new-old)"
            okk = len(nf) == 2 and nf[0][0] == old and nf[0][1] == [{}, 0] and \
                U.affine_eq_norm(nf[0][2], U.affine_norm(SQ.seq_len(old))) and nf[1][0] == SQ.ZERO and \
                U.affine_eq_norm(nf[1][2], U.affine_norm(("bin", "Sub", NEW, SQ.seq_len(old), 64)))
        elif cname == "new=old":
            want_shape = "old"
            okk = len(nf) == 1 and nf[0][0] == old and nf[0][1] == [{}, 0] and (
                U.affine_eq_norm(nf[0][2], U.affine_norm(SQ.seq_len(old))) or U.affine_eq_norm(nf[0][2], U.affine_norm(NEW)))
        else:
            want_shape = "old[..new]"
            okk = len(nf) == 1 and nf[0][0] == old and nf[0][1] == [{}, 0] and U.affine_eq_norm(nf[0][2], U.affine_norm(NEW))
        if not okk:
            rbad = rbad or "%s: contents become %s, expected %s" % (cname, SQ.show_nf(nf)[:120], want_shape)
        # invariant: len(data) == length
        ln = U.affine_norm(SQ.subst(SQ.seq_len(data), {}))
        total = [{}, 0]
        for s_ in nf:
            total = SQ.aff_add(total, SQ.aff_add(s_[2], [{k: -c for k, c in s_[1][0].items()}, (-s_[1][1]) % (1 << 64)]))
        if cname != "new=old" and not U.affine_eq_norm(total, U.affine_norm(fields["length"])):
            ibad = ibad or "%s: data.len() = %s but length := %s" % (cname, SQ.show_aff(total), A.show(U.strip(fields["length"]))[:30])
    if nok == 0 and not unmodelled:
        rbad = rbad or "no successful resize path"
    ck.cov["resize_paths"] = len(runs)
    ck.floor("resize classes with a success path that shows the change", len({c for c, o_, e, p_ in runs if o_ == "ok" and e}), 3)
    for rule, bad, what in (("C10.resize", rbad, "resize does not keep the common prefix / zero-fill growth"),
                            ("C10.atomic", abad, "a refused resize leaves the area list changed: areas can overlap after the error"),
                            ("C10.invariant", ibad, "resize leaves length != data.len()")):
        if bad:
            ck.violation(rule, inst, bad, where=where, what=what)
        else:
            ck.ok(rule, inst)
    return ibad


def slice_end(b, op):
    """for an operand produced by index/index_mut(x, RangeTo{end}) (possibly through reborrows): ('local', end)"""
    seen = 0
    while op[0] in ("c", "m") and seen < 8:
        seen += 1
        loc = op[1][0]
        d = single_def(b, loc)
        if d is None:
            return None
        kind, x = d
        if kind == "c":
            n = F.callee_name(x)
            if "::index" in n:
                r = x["args"][1]
                rd = single_def(b, r[1][0]) if r[0] in ("c", "m") else None
                if rd and rd[0] == "s" and rd[1][2][0] == "agg" and rd[1][2][1][0] == "adt" and rd[1][2][1][1].endswith("RangeTo"):
                    e = rd[1][2][2][0]
                    if e[0] in ("c", "m"):
                        src = e[1][0]
                        dd = single_def(b, src)
                        while dd and dd[0] == "s" and dd[1][2][0] == "use" and dd[1][2][1][0] in ("c", "m") and not dd[1][2][1][1][1]:
                            src = dd[1][2][1][1][0]
                            dd = single_def(b, src)
                        return ("local", src)
                return None
            return None
        rv = x[2]
        if rv[0] == "ref":
            op = ["c", rv[2]] if not [e for e in rv[2][1] if e != "*"] else None
            if op is None:
                return None
            op = ["c", [rv[2][0], []]]
            continue
        if rv[0] == "use":
            op = rv[1]
            continue
        return None
    return None


def single_def(b, loc):
    defs = []
    for blk in b["blocks"]:
        for st in blk["s"]:
            if st[0] == "a" and st[1][0] == loc and not st[1][1]:
                defs.append(("s", st))
        t = blk["term"]
        if t["k"] == "call" and t["dest"][0] == loc and not t["dest"][1]:
            defs.append(("c", t))
    return defs[0] if len(defs) == 1 else None


def fresh(ctx):
    ck, facts = ctx.check, ctx.facts
    for nme, inner in (("mem_init_zero_anywhere", ("mem_init_zero",)),
                       ("mem_init_anywhere", ("mem_init_area_named", "mem_init_area")),
                       ("init_stack", ("mem_init_zero_named",))):
        b = facts.method(AXE, nme)
        inner_paths = {facts.method(AXE, n)["path"] for n in inner}

        def icpt(I, path, frame, t, name, args, inner_paths=inner_paths):
            if name in inner_paths:
                p2 = path.copy()
                path.events.append(("alloc_ok", args[1]))
                p2.events.append(("alloc_err", args[1]))
                return [(A.OK(A.UNIT), path), (A.ERR(("e",)), p2)]
            if name.endswith("::reg_write_64"):
                path.events.append(("rsp", args[2]))
                return [(A.OK(A.UNIT), path)]
            return None
        I = A.Interp(facts, intercept=icpt, may_inline=lambda n, bb: bb["kind"] == "Closure" or (
            bb.get("impl_self") == AXE and bb["vis"] != "pub" and not bb.get("coroutine")))
        nargs = b["argc"]
        args = [P.self_ref(True)] + [A.W(("arg%d" % i,), 64) for i in range(1, nargs)]
        outs = list(I.run(b, args, A.Path()))
        oks = [o for o in outs if o.kind == "return" and not is_err(o)]
        inst = "api=" + nme
        where = "%s:%d (%s)" % (b["span"][0], b["span"][1], nme)
        bad = None
        if not oks:
            bad = "no success path"
        for o in oks:
            al = [e for e in o.path.events if e[0] == "alloc_ok"]
            if not al:
                bad = bad or "success without a successful allocation"
                continue
            ret = o.value[3][0]
            if U.strip(ret) != U.strip(al[-1][1]):
                bad = bad or "returns %s, last successful allocation started at %s" % (A.show(ret), A.show(al[-1][1]))
        if bad:
            ck.violation("C10.fresh", inst, bad, where=where, what="allocator returns an address other than the area it created")
        else:
            ck.ok("C10.fresh", inst)
