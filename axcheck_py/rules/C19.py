"""C19 A step on arbitrary code bytes and state terminates with success or an error (inventory form).

C19.inventory  A9: every diverging site in the cone of step is classified D (by-design rejection: Err in the shipped
               artefact) / DA (debug assertion) / O (overflow check of this profile) / X (crash in every configuration);
               counts are evidence, floors are positive controls
C19.panic      the evidently failing X / DA / tainted-O sites found by the path analyses of the handlers (every Code x
               decoder-producible shape), the accessors, the address computation, the decoder front end, the trace
               recorder, the error decorators' renderers and the built-in syscall hooks -- each must be a known finding
C19.slices     every slice / vector index, range index, copy_from_slice, split and drain site in the cone of step either
               lies in one of the bounds-analysed accessors (decided for all endpoint orderings by C08.bounds together
               with C08.invariant) or has its bound tied to the indexed length on every path of its function: same
               quantity, min() with the length, a dominating comparison (also shifted by the same amount on both
               sides), a constant below a known length, or the enumerate() index of the iterated vector
C19.decode     undecodable bytes -> Err; unsupported mnemonic / unimplemented opcode -> by-design rejection
C19.assert     every `debug_assert_eq!(i.code(), C)` agrees with the dispatch arm that reaches it
C19.loops      no free loop without a variant in the cone of step
"""
from .. import absint as A
from .. import facts as F
from .. import hmodel as H
from .. import hutil as U
from .. import panics as PN
from .. import prims as P
from .. import stepmodel as SM
from .rules_common import is_err
from . import C05, C06, C08, C10, C13, C18

AXE = "axecutor::Axecutor"


class Proxy:
    """records a sub-analysis' results under C19.panic, keeping the originating rule in the instance"""

    def __init__(self, ck, accept_rules):
        self.ck = ck
        self.accept = accept_rules
        self.cov = {}
        self.samples = []
        self.violations = ck.violations
        self.assumptions = ck.assumptions

    def ok(self, rule, instance=None, n=1):
        if rule in self.accept:
            self.ck.ok("C19.panic", "%s:%s" % (rule, instance), n)

    def violation(self, rule, instance, observed, **kw):
        if rule in self.accept:
            self.ck.violation("C19.panic", "%s:%s" % (rule, instance), observed, **kw)

    def undecided_(self, rule, instance, why):
        pass

    def floor(self, name, measured, floor):
        self.ck.floor(name, measured, floor)

    def sample(self, s):
        pass


class SubCtx:
    def __init__(self, ctx, accept):
        self.__dict__.update(ctx.__dict__)
        self.check = Proxy(ctx.check, accept)
        self._ctx = ctx

    def reference(self, name):
        return self._ctx.reference(name)


def run(ctx):
    cone = inventory(ctx)
    handlers(ctx)
    sub(ctx)
    decode(ctx)
    hooks(ctx)
    slices(ctx, cone)
    loops(ctx, cone)


# --------------------------------------------------------------------------- slice bounds

PANICKY_SEQ = ("copy_from_slice", "clone_from_slice", "split_at", "split_at_mut", "drain", "split_off", "swap_remove")


def seq_site(t):
    """is this call a slice/vector operation that panics on an out-of-range bound?"""
    if t["k"] != "call":
        return None
    n = F.callee_name(t)
    short = n.rsplit("::", 1)[1].split("::<")[0] if "::" in n else n
    if "ops::Index" in n and short in ("index", "index_mut"):
        if "HashMap" in n or "BTreeMap" in n:
            return None   # a keyed lookup, not a positional one: a missing key is a panic path of the map model
        return short
    if short in PANICKY_SEQ and ("slice" in n or "Vec" in n or "<impl [T]>" in n):
        return short
    if n.startswith("std::vec::Vec") and short in ("remove", "insert"):
        return short
    return None


def enumerate_index_provenance(body, idx_op, depth=0, seen=None):
    """flow-insensitive backward slice of an index operand over the function's MIR: True iff every definition it can
    derive from is field 0 of the tuple produced by Enumerate<..>::next (possibly moved through Option / tuples /
    casts). Used for indices the path analysis lost to loop widening."""
    if seen is None:
        seen = set()
    if idx_op[0] == "k":
        return False
    if idx_op[0] not in ("c", "m") or depth > 12:
        return False
    loc = idx_op[1][0]
    if loc in seen:
        return True
    seen.add(loc)
    found = False
    for blk in body["blocks"]:
        t = blk["term"]
        if t["k"] == "call" and t.get("dest") and t["dest"][0] == loc:
            n = F.callee_name(t)
            if n.endswith("::next") and "Enumerate" in " ".join(t["f"].get("gargs", []) + [n]):
                found = True
                continue
            if n.endswith("::next") and "std::ops::Range<usize>" in " ".join(t["f"].get("gargs", [])) and any(
                    b2["term"]["k"] == "call" and F.callee_name(b2["term"]).endswith("::len") for b2 in body["blocks"]):
                found = True   # `for i in 0..v.len()`: an index below the length taken in this function
                continue
            if n.endswith(" as std::ops::Try>::branch") or n.endswith("::unwrap") or n.endswith("::expect"):
                if t["args"] and enumerate_index_provenance(body, t["args"][0], depth + 1, seen):
                    found = True
                    continue
            return False
        for st in blk["s"]:
            if st[0] != "a" or st[1][0] != loc:
                continue
            rv = st[2]
            if rv[0] == "use" or rv[0] == "cast":
                src = rv[1] if rv[0] == "use" else rv[2]
                if src[0] == "k":
                    # constants only as Option::None-like initialisers (aggregates); a plain constant index is not this idiom
                    return False
                if not enumerate_index_provenance(body, src, depth + 1, seen):
                    return False
                found = True
            elif rv[0] == "agg":
                ops = rv[2]
                if not ops:
                    found = found or False  # None / unit: contributes no index
                    continue
                for o_ in ops:
                    if o_[0] == "k" or not enumerate_index_provenance(body, o_, depth + 1, seen):
                        return False
                found = True
            elif rv[0] in ("discr", "ref"):
                continue
            else:
                return False
    return found


def shrinks_vector(body, elem_ty=None):
    """does the function call a shrinking method on a vector with this element type (any, when unknown)?"""
    for blk in body["blocks"]:
        t = blk["term"]
        if t["k"] == "call":
            n = F.callee_name(t)
            short = n.rsplit("::", 1)[1].split("::<")[0] if "::" in n else n
            if n.startswith("std::vec::Vec") and short in ("remove", "swap_remove", "truncate", "clear", "pop", "drain", "retain", "split_off"):
                g = t["f"].get("gargs", [])
                if elem_ty is None or not g or g[0] == elem_ty:
                    return True
    return False


def slices(ctx, cone):
    from .. import memmodel as M
    from .. import seqmodel as SQ
    from . import C09
    ck, facts = ctx.check, ctx.facts
    acc = {b["path"] for api, b, bit, mk, ext in C09.accessor_specs(ctx)}
    by_body = {}
    for k in sorted(cone):
        b = facts.bodies[k]
        if b["glue"]:
            continue
        reach = F.reachable_blocks(b)
        # a closure that is not a syscall hook is analysed where it is called: inside the run of its function
        kk = k if "{closure" not in k or k.startswith("helpers::syscalls::") else k.split("::{closure")[0]
        for i, blk in enumerate(b["blocks"]):
            if i in reach and seq_site(blk["term"]):
                by_body.setdefault(kk, []).append(F.site_str(b, blk["term"]["sp"]))
    nsites = sum(len(v) for v in by_body.values())
    ck.cov["slice_sites"] = nsites
    ck.cov["slice_sites_in_bounds_analysed_accessors"] = sum(len(v) for k, v in by_body.items() if k in acc)
    ck.floor("slice/index sites in the cone (positive control)", nsites, 10)

    def norm(t):
        """len(x) spellings: vec![e; n] has length n; area.data has length area.length (C08.invariant);
        membytes(addr, n) has length n"""
        if not isinstance(t, tuple) or not t:
            return t
        if t[0] == "len" and len(t) == 2 and isinstance(t[1], tuple):
            x = t[1]
            while x[0] in ("deref", "w"):
                x = x[1]
            for _ in range(4):
                if x[0] == "ref" and x[1][0][0] == "D" and not x[1][1]:
                    x = x[1][0][1]
                elif x[0] == "ret" and x[1].rsplit("::", 1)[-1] in ("deref", "as_slice", "as_ref", "borrow", "deref_mut") and len(x[2]) == 1:
                    x = x[2][0]  # a view of the same bytes has the same length
                else:
                    break
                while x[0] in ("deref", "w"):
                    x = x[1]
            if x[0] == "ret" and x[1].endswith("from_elem") and len(x[2]) == 2:
                return norm(x[2][1])
            if x[0] == "membytes":
                return norm(x[2])
            if x[0] == "agg" and x[1] == "array":
                return A.INT(len(x[3]), 64)
            if x[0] == "arrview":
                return A.INT(x[3] - x[2], 64)
            if x[0] == "ret" and "ops::Index" in x[1] and len(x[2]) == 2:
                b_ = SQ.range_bounds(x[2][1])
                if b_ is not None:
                    hi = b_[1] if b_[1] is not None else ("len", x[2][0])
                    return norm(("bin", "Sub", hi, b_[0], 64))
            if x[0] == "field" and x[2] == "data":
                return ("field", norm(x[1]), "length")
            return ("len", norm(x))
        if t[0] == "w":
            return norm(t[1])
        if t[0] == "cast" and ((t[4] >= t[2] and not t[3]) or t[4] == t[2]):
            return norm(t[1])
        return tuple(norm(x) if isinstance(x, tuple) else x for x in t)

    for k, sites in sorted(by_body.items()):
        b = facts.bodies[k]
        inst = "fn=%s" % k.split("::")[-1] if "{closure" not in k else "fn=%s" % "::".join(k.split("::")[-2:])
        where = "%s:%d (%s)" % (b["span"][0], b["span"][1], b["name"] or "closure")
        if k in acc:
            ck.ok("C19.slices", inst + ",covered-by=C08.bounds", len(sites))
            continue
        seen_sites = set()

        def icpt(I, path, frame, t, name, args, _chain=[None]):
            kind = seq_site(t)
            if kind and (frame.body["path"] == k or frame.body["path"].startswith(k + "::{closure")):
                site = F.site_str(frame.body, t["sp"])
                seen_sites.add(site)
                a = [I._deref_all(path, x) for x in args]
                g_ = t["f"].get("gargs", [])
                et = g_[0][len("std::vec::Vec<"):-1] if g_ and g_[0].startswith("std::vec::Vec<") else None
                path.events.append(("seqop", kind, tuple(a), site, len(path.conds), tuple(t["args"]), et))
            return _chain[0](I, path, frame, t, name, args)
        # runner
        if b["kind"] == "Closure":
            sm = SQ.SeqMapPrims(facts, ("pipes_read_ends", "pipes_write_ends", "pipe_contents"), ("pipe_contents",))
            icpt.__defaults__[0][0] = lambda I, path, frame, t, name, args: None
            outs, I, _ = C13.run_hook_closure(ctx, k, lambda *a: (icpt(*a) or sm.intercept(*a)))
        else:
            mp = M.MemPrims(facts, extra=None)
            pr = P.HandlerPrims(facts, ctx.roles)
            icpt.__defaults__[0][0] = lambda I, path, frame, t, name, args: (
                mp.intercept(I, path, frame, t, name, args) or
                (pr.intercept(I, path, frame, t, name, args) if frame.body["path"] != k or name != k else None))
            I = A.Interp(facts, intercept=icpt, max_paths=20000)
            args = []
            for i in range(1, b["argc"] + 1):
                ty = b["locals"][i]
                if isinstance(ty, list) and ty[0] == "ref" and ty[2] == ["adt", "axecutor::Axecutor", []]:
                    args.append(P.self_ref(bool(ty[1])))
                elif isinstance(ty, list) and ty[0] in ("u", "i"):
                    args.append(A.W(("param", i), 64))
                elif ty == ["adt", "iced_x86::Instruction", []]:
                    args.append(P.INSTR)
                else:
                    args.append(("param", i))
            outs = list(I.run(b, args, A.Path()))
        bad = None
        nob = 0
        for o in outs:
            if o.kind == "cut":
                ck.undecided_("C19.slices", inst, "analysis cut at %s" % (o.site,))
                continue
            for e in o.path.events:
                if e[0] != "seqop":
                    continue
                _, kind, a, site, upto, raw, elem_ty = e
                obs = []
                if kind in ("index", "index_mut", "drain"):
                    ln = ("len", a[0])
                    rb = SQ.range_bounds(a[1]) if a[1][0] == "agg" else None
                    if rb is not None:
                        if rb[1] is not None:
                            obs.append(("range end <= length", rb[1], ln, False))
                            if not (A.is_int(rb[0]) and rb[0][1] == 0):
                                obs.append(("range start <= end", rb[0], rb[1], False))
                        else:
                            obs.append(("range start <= length", rb[0], ln, False))
                    elif a[1][0] == "agg":
                        obs.append(("unsupported range kind", A.INT(1, 64), A.INT(0, 64), False))
                    else:
                        obs.append(("index < length", a[1], ln, True))
                elif kind in ("copy_from_slice", "clone_from_slice"):
                    obs.append(("destination not longer than source", ("len", a[0]), ("len", a[1]), False))
                    obs.append(("source not longer than destination", ("len", a[1]), ("len", a[0]), False))
                elif kind in ("split_at", "split_at_mut", "split_off"):
                    obs.append(("split point <= length", a[1], ("len", a[0]), False))
                elif kind in ("remove", "swap_remove"):
                    obs.append(("index < length", a[1], ("len", a[0]), True))
                elif kind == "insert":
                    obs.append(("index <= length", a[1], ("len", a[0]), False))
                for what, x, y, strict in obs:
                    nob += 1
                    if SQ.implies_le(o.path, x, y, None, strict, norm):
                        continue
                    sx = U.strip(norm(x))
                    if sx == ("enum_idx",) or (sx[0] == "w" and sx[1] == ("enum_idx",)):
                        continue  # the enumerate() index of the vector being iterated
                    if what == "index < length" and "'top'" in repr(sx) and len(raw) == 2 and (kind in ("remove", "swap_remove") or not shrinks_vector(b, elem_ty)) \
                            and enumerate_index_provenance(b, raw[1]):
                        continue  # widened by the path analysis; every definition is an enumerate() index (MIR slice)
                    if params_settle_it(ctx, b, norm(x), norm(y), strict):
                        continue  # a private helper's parameter: every call site passes a constant that satisfies it
                    bad = bad or "%s at %s: %s %s %s is not established on the path" % (
                        kind, site.rsplit(":", 1)[0].rsplit("/", 1)[-1], A.show(U.strip(norm(x)))[:48], "<" if strict else "<=",
                        A.show(U.strip(norm(y)))[:48])
        missing = set(sites) - seen_sites
        if missing and not bad:
            bad = "%d of %d slice sites not reached by the analysis (%s)" % (len(missing), len(set(sites)), sorted(missing)[0])
        if bad:
            ck.violation("C19.slices", inst, bad, where=where,
                         what="an out-of-range slice bound panics instead of returning an error")
        else:
            ck.ok("C19.slices", inst, max(nob, 1))


def params_settle_it(ctx, b, x, y, strict):
    """an obligation of a module-private function over its own integer parameters and constants only: decided at the call
    sites -- every caller in the crate passes constants for those parameters and the inequality holds for each of them"""
    from . import C10
    facts = ctx.facts
    if not C10.module_private(b) or b["kind"] == "Closure":
        return False
    lv = H.leaves(x) | H.leaves(y)
    lv |= set(H.leaves_all(x, "k")) | set(H.leaves_all(y, "k"))
    pidx = set()
    gens = {}
    for l in lv:
        l0 = l
        l = U.strip(l)
        if l[0] == "param" and isinstance(l[1], int):
            pidx.add(l[1])
        elif l[0] == "k" and len(l) > 1 and l[1] in (b.get("generics") or []):
            gens[l0] = (b["generics"].index(l[1]), l)  # a const generic parameter: its value is in the call's generic arguments
        else:
            return False
    if not pidx and not gens:
        return False
    sites = 0
    for k2, cb in facts.bodies.items():
        if cb["glue"]:
            continue
        for blk in cb["blocks"]:
            t = blk["term"]
            if t["k"] != "call" or F.callee_name(t) != b["path"]:
                continue
            sites += 1
            env = {}
            for i in pidx:
                o = C08.origin(cb, t["args"][i - 1])
                if o[0] != "const" or o[1] is None:
                    return False
                env[("param", i)] = o[1]
                env[A.W(("param", i), 64)] = o[1]
            for l0, (gi, l) in gens.items():
                ga = t["f"].get("gargs") or []
                if gi >= len(ga) or not str(ga[gi]).lstrip("-").isdigit():
                    return False
                for key in (l0, l, A.W(l, 64)):
                    env[key] = int(ga[gi])
            vx, vy = U.eval_term(x, env, A.Path()), U.eval_term(y, env, A.Path())
            if vx is None or vy is None or not (vx < vy if strict else vx <= vy):
                return False
    return sites > 0


# --------------------------------------------------------------------------- inventory

def step_cone(ctx):
    facts = ctx.facts
    roots = [SM.step_body(facts)["path"], ctx.dispatch.top["path"]]
    for k, b in facts.bodies.items():
        if not b["glue"] and k.startswith("helpers::syscalls::") and b["kind"] == "Closure":
            roots.append(k)
    roots += [k for k in C13.native_hook_bodies(facts) if k not in roots]
    return C18.cone_of(facts, roots)


def inventory(ctx):
    ck, facts = ctx.check, ctx.facts
    cone = step_cone(ctx)
    counts = {"D": 0, "DA": 0, "X": 0, "O": 0, "unwrap": 0, "index": 0}
    by_macro = {}
    for k in cone:
        b = facts.bodies[k]
        if b["glue"]:
            continue
        reach = F.reachable_blocks(b)
        for i, blk in enumerate(b["blocks"]):
            if i not in reach:
                continue
            t = blk["term"]
            if t["k"] == "assert":
                kind = t["msg"]["kind"]
                if kind.startswith("Resumed"):
                    continue
                counts["O" if kind.startswith("Overflow") else "X"] += 1
            elif t["k"] == "call":
                n = F.callee_name(t)
                if F.is_panic_call(t):
                    cls = F.classify_macros(b["spans"][t["sp"]][3])
                    counts[cls] += 1
                    for m in F.macro_names(b, t["sp"]):
                        if m in F.REJECT_MACROS:
                            by_macro[m] = by_macro.get(m, 0) + 1
                elif n.endswith(("::unwrap", "::expect")) and ("Option" in n or "Result" in n):
                    counts["unwrap"] += 1
                elif "::index" in n and ("Index" in n):
                    counts["index"] += 1
    ck.cov["cone_bodies"] = len(cone)
    ck.cov["site_classes"] = counts
    ck.cov["by_design_macros"] = by_macro
    ck.floor("cone of step (bodies)", len(cone), 750)
    ck.floor("class-D sites (positive control)", counts["D"], 300)
    ck.floor("opcode_unimplemented! sites (positive control)", by_macro.get("opcode_unimplemented", 0), 120)
    ck.ok("C19.inventory", "cone of step", sum(counts.values()))
    ck.sample({"rule": "C19.inventory", "cone_bodies": len(cone), "sites": counts})
    return cone


# --------------------------------------------------------------------------- handlers

def guest_tainted(x):
    return C06.guest_tainted(x)


def handlers(ctx):
    ck, facts, O, D, hm = ctx.check, ctx.facts, ctx.oracle, ctx.dispatch, ctx.hmodel
    n = 0
    for code in sorted(D.implemented()):
        oc = O["codes"][code]
        if not hm.producible(code):
            continue
        where = U.handler_where(facts, D, code)
        shapes = hm.shapes(code)
        shiftform = oc["mnemonic"] in ("Shl", "Shr", "Sar", "Sal") and ("imm8" in oc["kinds"] or "cl" in oc["kinds"])
        for shape in shapes:
            inst = "Code=%s/%s" % (code, shape[0]) if len(shapes) > 1 else "Code=%s" % code
            outs, I = hm.run(code, shape, mem_fail_paths=True)
            n += 1
            reported = {}
            da = {}
            rets = [o for o in outs if o.kind == "return"]
            for o in outs:
                if o.kind == "panic" and o.cls == "DA":
                    da.setdefault("debug assertion fails: %s" % C06.abort_condition(facts, o), o)
                elif o.kind == "panic" and o.cls in ("X", "NOOP") and not shiftform:
                    role = role_of(facts, o)
                    cond = "always" if not rets else ("when " + C06.abort_condition(facts, o))
                    reported.setdefault("X abort in %s %s" % (role, cond), o)
                if o.kind in ("return", "panic") and not shiftform:
                    for ev, verdict, reason in PN.triage(o.path, guest_tainted):
                        if verdict == "reported":
                            reported.setdefault(PN.describe(ev) + " unchecked", o)
            for key, o in sorted(da.items()):
                ck.violation("C19.assert", inst, key, where=o.site or where,
                             what="a debug assertion of the handler contradicts the dispatch table / decoder")
            if not da:
                ck.ok("C19.assert", inst)
            if reported:
                for key, o in sorted(reported.items()):
                    ck.violation("C19.panic", inst, key, where=o.site or where,
                                 what="guest-controlled input aborts the host instead of producing an error")
            else:
                ck.ok("C19.panic", inst)
    # shift counts: exhaustive sweep
    from .. import shiftsweep as SS
    res = SS.sweep(ctx)
    for form, r in sorted(res["forms"].items()):
        where = U.handler_where(facts, D, form.split("/")[0])
        if r["aborts"]:
            for desc, cs in sorted(r["aborts"].items()):
                ck.violation("C19.panic", "Code=" + form, "%s for shift counts %s" % (desc, SS.compress(cs)), where=where,
                             witness={"counts": cs})
        else:
            ck.ok("C19.panic", "Code=%s,counts" % form, 256)
    ck.floor("handler shapes", n, 500)


def role_of(facts, o):
    top = (o.stack or ["?"])[0].split("::{closure")[0]
    b = facts.bodies.get(top)
    if b is None:
        return top
    if b.get("impl_trait"):
        return "<%s as %s>::%s" % (b["impl_self"].split("::")[-1], b["impl_trait"].split("::")[-1].replace("helpers::operand::", ""), b["name"])
    return b["name"]


# --------------------------------------------------------------------------- accessors / recorders / renderers

def sub(ctx):
    """re-run the sub-analyses whose findings are crashes reachable from step"""
    s = SubCtx(ctx, {"C05.total"})
    C05.base_classes(s)
    s = SubCtx(ctx, {"C08.total"})
    C08.total(s)
    # the slice sites inside the accessors are safe only while length == data.len() (C19.slices relies on it)
    s = SubCtx(ctx, {"C08.invariant"})
    C08.invariant(s)
    s = SubCtx(ctx, {"C18.total"})
    C18.total(s)
    # trace recorder: rip - len
    ck, facts, R = ctx.check, ctx.facts, ctx.roles
    if R.add_trace:
        body = facts.bodies[R.add_trace]
        pr = P.HandlerPrims(facts, R)

        def icpt(I, path, frame, t, name, args):
            if name.endswith("::last_mut"):
                return [(A.NONE, path)]
            if name == "iced_x86::Instruction::len":
                return [(A.W(("ilen",), 64), path)]
            return pr.intercept(I, path, frame, t, name, args)
        I = A.Interp(facts, intercept=icpt)
        v = facts.enum_variant_by_name("helpers::trace::TraceVariant", "Jump")
        outs = list(I.run(body, [P.self_ref(True), P.INSTR, A.W(("target",), 64), ("agg", "adt:helpers::trace::TraceVariant", v[0], ())], A.Path()))
        rep = {}
        for o in outs:
            for ev, verdict, reason in PN.triage(o.path, lambda x: x[0] in ("reg", "ilen")):
                if verdict == "reported":
                    rep.setdefault(PN.describe(ev) + " unchecked", ev)
        for k, ev in sorted(rep.items()):
            ck.violation("C19.panic", "trace recorder", k, where=ev[4],
                         what="a control transfer with RIP < instruction length overflows in the trace recorder")
        if not rep:
            ck.ok("C19.panic", "trace recorder")


# --------------------------------------------------------------------------- decoder front end

def decode(ctx):
    ck, facts = ctx.check, ctx.facts
    try:
        _dn, da, fetch = ctx.roles.decoders()
        body = facts.bodies[da]
    except KeyError as e:
        ck.violation("C19.decode", "decoder front end", str(e))
        return
    where = "%s:%d (decode_at)" % (body["span"][0], body["span"][1])

    def icpt(I, path, frame, t, name, args):
        short = name.rsplit("::", 1)[1]
        if name == fetch:
            p2 = path.copy()
            return [(A.OK(("codebytes",)), path), (A.ERR(("fetch_err",)), p2)]
        if name.startswith("iced_x86::Decoder") and short == "with_ip":
            path.events.append(("decoder", args[0], args[2], args[3]))
            return [(("decoder",), path)]
        if name.startswith("iced_x86::Decoder") and short == "can_decode":
            p2 = path.copy()
            path.events.append(("can_decode", 1))
            p2.events.append(("can_decode", 0))
            return [(A.INT(1, 8), path), (A.INT(0, 8), p2)]
        if name.startswith("iced_x86::Decoder") and short == "decode":
            return [(("decoded",), path)]
        if name.startswith("iced_x86::Decoder") and short in ("iter", "into_iter"):
            return [(("deciter",), path)]
        if short == "next" and "DecoderIter" in name + " ".join(t["f"].get("gargs", [])):
            # library fact (iced): the iterator yields decode() while can_decode(), then None
            p2 = path.copy()
            path.events.append(("can_decode", 1))
            p2.events.append(("can_decode", 0))
            return [(A.SOME(("decoded",)), path), (A.NONE, p2)]
        if name == "iced_x86::Instruction::is_invalid":
            p2 = path.copy()
            path.events.append(("invalid", 1))
            p2.events.append(("invalid", 0))
            return [(A.INT(1, 8), path), (A.INT(0, 8), p2)]
        if name.startswith("iced_x86::Decoder") and short == "position":
            return [(A.W(("position",), 64), path)]
        if name == "iced_x86::Instruction::len":
            return [(A.W(("ilen",), 64), path)]
        return None
    I = A.Interp(facts, intercept=icpt)
    outs = list(I.run(body, [P.self_ref(False), A.W(("rip",), 64)], A.Path()))
    bad = None
    nok = 0
    for o in outs:
        evs = o.path.events
        cd = [e[1] for e in evs if e[0] == "can_decode"]
        inv = [e[1] for e in evs if e[0] == "invalid"]
        if o.kind != "return":
            bad = bad or "%s abort in the decoder front end (%s)" % (o.cls, o.msg)
            continue
        if not is_err(o):
            nok += 1
            if cd != [1] or inv != [0]:
                bad = bad or "returns Ok without can_decode && !is_invalid"
            if U.strip(o.value[3][0]) != ("decoded",):
                bad = bad or "returns %s, not the decoded instruction" % A.show(o.value[3][0])
        for e in evs:
            if e[0] == "decoder":
                if not (A.is_int(e[1]) and e[1][1] == 64):
                    bad = bad or "decoder bitness %s" % A.show(e[1])
                if U.strip(e[2]) != ("rip",):
                    bad = bad or "decoder ip is %s, not the fetch address" % A.show(e[2])
                if not (A.is_int(e[3]) and e[3][1] == 0):
                    bad = bad or "decoder options %s (DecoderOptions::NONE expected)" % A.show(e[3])
        for ev, verdict, reason in PN.triage(o.path, lambda x: x[0] in ("position", "ilen")):
            pass
    if nok == 0:
        bad = bad or "no success path"
    if bad:
        ck.violation("C19.decode", "decoder front end", bad, where=where)
    else:
        ck.ok("C19.decode", "decoder front end", len(outs))
    # unsupported mnemonic -> class D in TryFrom; unimplemented Codes -> class D
    try:
        tf = facts.trait_impl("std::convert::TryFrom<iced_x86::Mnemonic>", "auto::generated::SupportedMnemonic", "try_from")
    except KeyError as e:
        ck.violation("C19.decode", "impl=TryFrom<Mnemonic>", str(e))
        return
    I = A.Interp(facts)
    bad = None
    sample_unsupported = [m for m in ("Aaa", "Fadd", "Vaddps", "Hlt", "Xchg") if m not in ctx.dispatch.mnemonics]
    for m in sample_unsupported:
        ev = facts.enum_variant_by_name("iced_x86::Mnemonic", m)
        if ev is None:
            continue
        outs = list(I.run(tf, [("agg", "adt:iced_x86::Mnemonic", ev[0], ())], A.Path()))
        if not outs or not all((o.kind == "panic" and o.cls == "D") or (o.kind == "return" and is_err(o)) for o in outs):
            bad = bad or "unsupported mnemonic %s: %s" % (m, [repr(o) for o in outs][:2])
    if bad:
        ck.violation("C19.decode", "impl=TryFrom<Mnemonic>", bad)
    else:
        ck.ok("C19.decode", "impl=TryFrom<Mnemonic>", len(sample_unsupported))
    # bound but unimplemented codes end in class D
    D = ctx.dispatch
    nd = 0
    badc = []
    for c, d in sorted(D.codes.items()):
        if d["implemented"] or not d["handler"] or d["handler"] not in facts.bodies:
            continue
        b = facts.bodies[d["handler"]]
        classes = set()
        for blk in b["blocks"]:
            t = blk["term"]
            if t["k"] == "call" and F.is_panic_call(t):
                classes.add(F.classify_macros(b["spans"][t["sp"]][3]))
        nd += 1
        if not (classes - {"DA"}) or (classes - {"D", "DA"}):
            badc.append(c)
    if badc:
        ck.violation("C19.decode", "unimplemented codes", "%d stubs are not by-design rejections (first %s)" % (len(badc), badc[0]))
    else:
        ck.ok("C19.decode", "unimplemented codes", nd)
    ck.floor("unimplemented stubs", nd, 120)


# --------------------------------------------------------------------------- built-in hooks

def hooks(ctx):
    ck, facts = ctx.check, ctx.facts
    n = 0
    for k in C13.native_hook_bodies(facts):
        b = facts.bodies[k]
        n += 1
        AXEm = lambda nme: facts.method(AXE, nme)["path"]
        alloc, resize = AXEm("mem_init_zero_anywhere"), AXEm("mem_resize_section")

        def extra(I, path, frame, t, name, args):
            if name == alloc:
                p2 = path.copy()
                return [(A.OK(A.W(("heapbase",), 64)), path), (A.ERR(("e",)), p2)]
            if name == resize:
                p2 = path.copy()
                return [(A.OK(A.UNIT), path), (A.ERR(("e",)), p2)]
            return None
        outs, I, body = C13.run_hook_closure(ctx, k, extra)
        owner = facts.bodies[k.split("::{closure")[0]]["name"]
        inst = "hook=%s#%s" % (owner, k.rsplit("#", 1)[1].rstrip("}") if "#" in k else "fn")
        rep = {}
        for o in outs:
            if o.kind == "panic" and o.cls == "X":
                rep.setdefault("X abort (%s)" % o.msg, o.site)
            for ev, verdict, reason in PN.triage(o.path, lambda x: x[0] in ("reg", "mem", "membytes")):
                if verdict == "reported":
                    rep.setdefault(PN.describe(ev) + " unchecked", ev[4])
        if rep:
            for key, site in sorted(rep.items()):
                ck.violation("C19.panic", inst, key, where=site,
                             what="a guest-chosen syscall argument overflows in the built-in handler (abort in this profile)")
        else:
            ck.ok("C19.panic", inst)
    ck.floor("built-in hook closures", n, 6)


# --------------------------------------------------------------------------- loops

def loops(ctx, cone):
    ck, facts = ctx.check, ctx.facts
    I = A.Interp(facts)
    nfree = 0
    for k in sorted(cone):
        b = facts.bodies[k]
        if b["glue"] or b.get("coroutine"):
            continue
        lps = I.loops_of(b)
        bl = b["blocks"]
        for h, lp in lps.items():
            if any(bl[n]["term"]["k"] == "call" and F.callee_name(bl[n]["term"]).endswith("::next") and
                   "Iterator" in (bl[n]["term"]["f"].get("def") or "") for n in lp["nodes"]):
                continue
            nfree += 1
            v = C10.variant(b, lp)
            v2 = counting_variant(b, lp) or bool(C10.popping_variant(b, lp))
            if (v is None or v[0] != "ok") and not v2:
                vs = C10.semantic_variant(ctx, b, lp)
                if vs is None or vs[0] != "ok":
                    # a loop in a private helper advancing by a parameter: judged from every caller inside the cone
                    callers = [facts.bodies[c] for c in sorted(cone) if c != k and not facts.bodies[c]["glue"] and any(
                        blk["term"]["k"] == "call" and F.callee_name(blk["term"]) == k for blk in facts.bodies[c]["blocks"])]
                    res = [C10.semantic_variant(ctx, b, lp, entry=cb_) for cb_ in callers]
                    if callers and all(r is not None and r[0] == "ok" for r in res):
                        vs = res[0]
                v = vs if vs is not None else v
            inst = "fn=%s" % (b["name"] or facts.bodies[k.split("::{closure")[0]]["name"])
            if (v and v[0] == "ok") or v2 or (v and v[0] == "bad" and callers_pass_positive(ctx, cone, k, b, lp)):
                ck.ok("C19.loops", inst)
            else:
                ck.violation("C19.loops", inst, "free loop without a recognised variant", where=F.site_str(b, bl[h]["term"]["sp"]),
                             what="a step could hang in this loop")
    ck.cov["free_loops_in_cone"] = nfree
    if nfree == 0:
        ck.ok("C19.loops", "cone of step")


def callers_pass_positive(ctx, cone, k, b, lp):
    """the loop advances by a parameter: every call site inside the cone passes a constant >= 1 for it"""
    facts = ctx.facts
    # which parameter? the increment operand of the loop variable's AddWithOverflow
    bl = b["blocks"]
    params = set()
    for n in lp["nodes"]:
        for st in bl[n]["s"]:
            if st[0] == "a" and st[2][0] == "bin" and st[2][1] == "AddWithOverflow":
                o = C08.origin(b, st[2][3])
                if o[0] == "param":
                    params.add(o[1])
    if len(params) != 1:
        return False
    pi = next(iter(params))
    sites = 0
    for ck_ in cone:
        cb = facts.bodies[ck_]
        for blk in cb["blocks"]:
            t = blk["term"]
            if t["k"] == "call" and F.callee_name(t) == k:
                sites += 1
                a = t["args"][pi - 1]
                o = C08.origin(cb, a)
                if not (o[0] == "const" and (o[1] or 0) >= 1):
                    return False
    return sites > 0


def counting_variant(b, lp):
    """`while i < n { ..; i += 1 }`: a Lt/Le exit test on a local that is incremented by a positive constant"""
    bl = b["blocks"]
    nodes = lp["nodes"]
    incs = set()
    for n in nodes:
        for st in bl[n]["s"]:
            if st[0] == "a" and st[2][0] == "bin" and st[2][1] == "AddWithOverflow" and st[2][3][0] == "k" and st[2][3][1].get("v", 0) >= 1:
                if st[2][2][0] in ("c", "m"):
                    # counts only when every way round the loop passes this increment (a `continue` may skip it)
                    x = st[2][2][1][0]
                    blocks_x = {n2 for n2 in nodes for s2 in bl[n2]["s"] if s2[0] == "a" and s2[2][0] == "bin" and
                                s2[2][1] == "AddWithOverflow" and s2[2][2][0] in ("c", "m") and s2[2][2][1][0] == x and
                                s2[2][3][0] == "k" and s2[2][3][1].get("v", 0) >= 1}
                    if C10.on_every_cycle(b, lp, blocks_x):
                        incs.add(x)
    for n in nodes:
        for st in bl[n]["s"]:
            if st[0] == "a" and st[2][0] == "bin" and st[2][1] in ("Lt", "Le", "Ne") and st[2][2][0] in ("c", "m"):
                x = st[2][2][1][0]
                # x is (a copy of) an incremented local
                if x in incs:
                    return True
                for n2 in nodes:
                    for s2 in bl[n2]["s"]:
                        if s2[0] == "a" and s2[1][0] == x and s2[2][0] == "use" and s2[2][1][0] in ("c", "m") and s2[2][1][1][0] in incs:
                            return True
    return False
