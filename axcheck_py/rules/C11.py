"""C11 Execution loop: one instruction per step, exact finish and limit conditions.

C11.guards   a finished machine / a reached limit makes step return Err before any effect
C11.limit    proceed <=> executed_instructions_count < limit (A7 over count vs limit)
C11.once     the count is incremented exactly once, by one, after dispatch, on every path that continues past dispatch
C11.advance  RIP := next_ip(decoded instruction) exactly once before hooks and dispatch
C11.finish   finished := true exactly under (RIP == code_end_addr after the instruction) or a normal-finish signal;
             step returns Ok(!finished); non-finish instruction errors are returned
C11.writers  `finished = true` / `signals_normal_finish: true` only in step, stop, the exit hook / end_execution <- RET
C11.execute  execute is `while step().await? {}`
"""
from .. import absint as A
from .. import facts as F
from .. import hutil as U
from .. import memmodel as M
from .. import stepmodel as SM
from .rules_common import is_err

EFFECTS = ("reg_write", "mem_write", "store", "mutcall", "dispatch", "run_before", "run_after", "poll_before", "poll_after")


def fieldnames(loc):
    return [p[2] for p in loc[1] if isinstance(p, tuple) and p[0] == "f"]


def ev_index(o, pred):
    return [i for i, e in enumerate(o.path.events) if pred(e)]


def run(ctx):
    ck, facts = ctx.check, ctx.facts
    try:
        outs, I, body = SM.run_step(ctx, hooks=True)
    except KeyError as e:
        ck.violation("C11.guards", "api=step", str(e))
        return
    where = "%s:%d (step)" % (body["span"][0], body["span"][1])
    cuts = [o for o in outs if o.kind != "return"]
    for o in cuts:
        ck.undecided_("C11", "api=step", "analysis ended in %s at %s (%s)" % (o.kind, o.site, o.msg))
    rets = [o for o in outs if o.kind == "return"]
    ck.cov["step_paths"] = len(rets)
    ck.floor("step paths", len(rets), 40)
    guards(ctx, rets, where)
    limit(ctx, where)
    once_and_advance(ctx, rets, where)
    finish(ctx, rets, I, where)
    writers(ctx)
    execute(ctx)
    code_end(ctx)
    ck.sample({"rule": "C11", "step_paths": len(rets),
               "example_path": [e[0] + ":" + str(e[1])[:20] for e in rets[0].path.events
                                if e[0] in ("decode", "mnem", "dispatch", "store", "reg_write", "poll_before", "poll_after")]})


def code_end(ctx):
    """C11.end: the constructor sets code_end_addr := code_start_addr + code.len() (the end of the initial code),
    and nothing else writes it."""
    ck, facts = ctx.check, ctx.facts
    from .. import prims as P
    new = [k for k in facts.by_name("new") if facts.bodies[k].get("impl_self") == "axecutor::Axecutor"]
    if len(new) != 1:
        ck.violation("C11.end", "api=new", "anchor matches %d bodies" % len(new))
        return
    body = facts.bodies[new[0]]
    where = "%s:%d (new)" % (body["span"][0], body["span"][1])
    empty = ctx.roles.hook_roles()[4]

    def icpt(I, path, frame, t, name, args):
        if name == empty:
            return [(("init", "fresh_axecutor", 0), path)]
        if name in facts.bodies and facts.bodies[name].get("impl_self") == "axecutor::Axecutor" and name != body["path"]:
            p2 = path.copy()
            return [(A.OK(A.UNIT), path), (A.ERR(("e",)), p2)]
        return None
    I = A.Interp(facts, intercept=icpt)
    outs = list(I.run(body, [("codeslice",), A.W(("code_start",), 64), A.W(("initial_rip",), 64)], A.Path()))
    oks = [o for o in outs if o.kind == "return" and not is_err(o)]
    bad = None
    if not oks:
        bad = "no success path"
    for o in oks:
        v = o.value[3][0]
        end = None
        # the machine handed back: stores laid over a base value, and / or a struct expression (`Axecutor { .., ..base }`)
        fnames = [f_["name"] for f_ in facts.adts["axecutor::Axecutor"]["variants"][0]["fields"]]
        for _ in range(4):
            if v[0] == "ovl":
                for k_, val in v[2]:
                    if k_ == "code_end_addr":
                        end = val
                if end is not None:
                    break
                v = v[1]
            elif v[0] == "agg" and v[1] == "adt:axecutor::Axecutor" and len(v[3]) == len(fnames):
                end = v[3][fnames.index("code_end_addr")]
                break
            else:
                break
        if end is None:
            bad = bad or "code_end_addr is not set"
            continue
        aff = U.affine_norm(end)
        names = sorted(str(M.strip_all(k_)) for k_ in aff[0])
        want = sorted([str(("code_start",)), str(("len", ("codeslice",)))])
        if names != want or any(c != 1 for c in aff[0].values()) or aff[1] != 0:
            bad = bad or "code_end_addr := %s, expected code_start_addr + code.len()" % A.show(end)
    if bad:
        ck.violation("C11.end", "api=new", bad, where=where,
                     what="execution no longer finishes exactly when RIP reaches the end of the initial code")
    else:
        ck.ok("C11.end", "api=new")
    # other writers of code_end_addr
    for k, b in facts.bodies.items():
        if b["glue"]:
            continue
        for blk in b["blocks"]:
            for st in blk["s"]:
                if st[0] == "a":
                    names = [(e[2], e[3]) for e in st[1][1] if isinstance(e, list) and e[0] == "f"]
                    if names and names[-1] == ("code_end_addr", "axecutor::Axecutor") and k != body["path"]:
                        ck.violation("C11.end", "fn=%s" % b["name"], "writes code_end_addr", where=F.site_str(b, st[3]))


def cond_truth(c):
    t, op, val = c
    return (val == 1) if op == "==" else True


def guards(ctx, rets, where):
    ck = ctx.check
    # paths that assumed `finished` (initial) true
    n_fin = n_lim = 0
    bad = None
    saw_fin_guard = False
    for o in rets:
        fin = None
        lim = None
        for c in o.path.conds:
            t = U.strip(c[0])
            if t[0] == "field" and t[2] == "finished" and t[1][1] == ("init", "self", 0):
                fin = (c[2] != 0) if c[1] == "==" else True
                saw_fin_guard = True
            if t[0] == "bin" and t[1] == "Ge" and U.strip(t[2])[0] == "field" and U.strip(t[2])[2] == "executed_instructions_count":
                lim = cond_truth(c)
        effects = [e for e in o.path.events if e[0] in EFFECTS or e[0] == "decode"]
        if fin:
            n_fin += 1
            if not is_err(o) or effects:
                bad = bad or "finished machine: step %s" % ("has effects %s" % effects[0][0] if effects else "returns Ok")
        if lim:
            n_lim += 1
            if not is_err(o) or effects:
                bad = bad or "limit reached: step %s" % ("has effects %s" % effects[0][0] if effects else "returns Ok")
        if fin is None and not is_err(o):
            bad = bad or "a success path never tests `finished`"
        if fin is None and [e for e in o.path.events if e[0] in EFFECTS]:
            bad = bad or "effects before the `finished` test"
    if n_fin == 0 or n_lim == 0:
        bad = bad or "guard paths missing (finished=%d limit=%d)" % (n_fin, n_lim)
    if bad:
        ck.violation("C11.guards", "api=step", bad, where=where, what="a step after finish/limit must fail and change nothing")
    else:
        ck.ok("C11.guards", "api=step", 2)


def limit(ctx, where):
    """A7: count vs limit"""
    ck = ctx.check

    def role(t):
        t = M.strip_all(t)
        if t[0] == "field" and t[2] == "executed_instructions_count":
            return "count"
        if t[0] == "vfield" and M.strip_all(t[1])[0] == "field" and M.strip_all(t[1])[2] == "max_instructions":
            return "limit"
        return None

    def oracle(path, op, a, b):
        o = path.tags.get("order")
        if o is None:
            return None
        ra, rb = role(a), role(b)
        if ra is None or rb is None:
            return None
        x, y = o[ra], o[rb]
        return int({"Eq": x == y, "Ne": x != y, "Lt": x < y, "Le": x <= y, "Gt": x > y, "Ge": x >= y}[op])
    results = {}
    for name, o in (("count<limit", {"count": 0, "limit": 1}), ("count=limit", {"count": 0, "limit": 0}),
                    ("count>limit", {"count": 1, "limit": 0})):
        outs, I, body = SM.run_step(ctx, hooks=False, order=o, cmp_oracle=oracle)
        # only paths with a limit set and not finished
        rel = []
        for x in outs:
            has_lim = any(U.strip(c[0])[0] == "discr" and "max_instructions" in repr(c[0]) and c[2] == 1 for c in x.path.conds)
            fin = any(U.strip(c[0])[0] == "field" and U.strip(c[0])[2] == "finished" and cond_truth(c) and c[2] != 0 for c in x.path.conds)
            if has_lim and not fin:
                rel.append(x)
        proceeds = any(any(e[0] == "decode" for e in x.path.events) for x in rel)
        results[name] = proceeds
    want = {"count<limit": True, "count=limit": False, "count>limit": False}
    if results == want:
        ck.ok("C11.limit", "api=step", 3)
    else:
        ck.violation("C11.limit", "api=step", "proceeds under %s" % sorted(k for k, v in results.items() if v), where=where,
                     witness=results, what="instruction limit is off by one / inverted")


def once_and_advance(ctx, rets, where):
    ck, facts = ctx.check, ctx.facts
    bad_once = bad_adv = None
    n = 0
    for o in rets:
        evs = o.path.events
        disp = ev_index(o, lambda e: e[0] == "dispatch")
        incs = ev_index(o, lambda e: e[0] == "store" and fieldnames(e[1])[-1:] == ["executed_instructions_count"])
        ripw = ev_index(o, lambda e: e[0] == "reg_write" and U.reg_name(facts, e[2]) == "RIP")
        hooks_i = ev_index(o, lambda e: e[0] in ("run_before", "poll_before"))
        if not disp:
            if incs:
                bad_once = bad_once or "count incremented on a path that never dispatches"
            if not is_err(o) and ripw:
                # a step that reports success has executed its instruction: RIP was advanced past it, so it must have been
                # dispatched (a hook that stops execution before the instruction still lets the step finish the instruction)
                bad_once = bad_once or "a step returns Ok after advancing RIP without having dispatched the instruction"
            continue
        n += 1
        if len(disp) != 1:
            bad_once = bad_once or "%d dispatches in one step" % len(disp)
        d = disp[0]
        failed = evs[d][1] == "err"
        returned_insn_err = is_err(o) and failed and not any(e[0] == "poll_after" for e in evs)
        if returned_insn_err:
            if incs:
                bad_once = bad_once or "count incremented although the instruction's error is returned"
        else:
            if len(incs) != 1:
                bad_once = bad_once or "%d count increments on a path continuing past dispatch" % len(incs)
            else:
                if incs[0] < d:
                    bad_once = bad_once or "count incremented before dispatch"
                v = U.strip(evs[incs[0]][2])
                okv = v[0] == "bin" and v[1] == "Add" and A.is_int(v[3]) and v[3][1] == 1 and \
                    U.strip(v[2])[0] == "field" and U.strip(v[2])[2] == "executed_instructions_count"
                if not okv:
                    bad_once = bad_once or "count := %s" % A.show(v)
        # advance
        pre = [i for i in ripw if i < d]
        if len(pre) != 1:
            bad_adv = bad_adv or "%d RIP stores before dispatch" % len(pre)
        else:
            v = U.strip(evs[pre[0]][3])
            if not (v[0] == "next_ip" and v[1] == ("instr",)):
                bad_adv = bad_adv or "RIP := %s before dispatch" % A.show(v)
            if hooks_i and hooks_i[0] < pre[0]:
                bad_adv = bad_adv or "before-hooks run before RIP is advanced"
            if evs[d][2] != ("instr",):
                bad_adv = bad_adv or "dispatches %s, not the decoded instruction" % A.show(evs[d][2])
    if n == 0:
        bad_once = bad_once or "no dispatching path"
    for rule, bad in (("C11.once", bad_once), ("C11.advance", bad_adv)):
        if bad:
            ck.violation(rule, "api=step", bad, where=where)
        else:
            ck.ok(rule, "api=step", n)


def finish(ctx, rets, I, where):
    ck, facts = ctx.check, ctx.facts
    bad = None
    n_end = n_sig = 0
    for o in rets:
        evs = o.path.events
        disp = ev_index(o, lambda e: e[0] == "dispatch")
        if not disp:
            continue
        d = disp[0]
        fin_stores = [i for i in ev_index(o, lambda e: e[0] == "store" and fieldnames(e[1])[-1:] == ["finished"])]
        # the value stored, under everything the path has established (`finished |= at_end` stores old | (RIP == end):
        # 1 on the path where the comparison holds, the old value -- known to be false past the entry guard -- elsewhere)
        real = []
        fin_all = list(fin_stores)
        for i in fin_stores:
            sv = U.strip(evs[i][2])
            if sv[0] == "bin" and sv[1] == "BitOr":
                # finished := finished | y: sets the flag exactly when y holds, never clears it
                ops = [U.strip(sv[2]), U.strip(sv[3])]
                cur = [x for x in ops if x[0] == "field" and x[2] == "finished"]
                if len(cur) >= 1:
                    other = ops[1] if ops[0] is cur[0] else ops[0]
                    bo = A.bitvec(other, o.path)
                    if bo and bo[0] in (0, 1) and all(b_ == 0 for b_ in bo[1:]):
                        if bo[0] == 1:
                            real.append(i)
                        continue
            bv = A.bitvec(evs[i][2], o.path)
            if bv and all(b_ in (0, 1) for b_ in bv):
                if bv[0] == 1:
                    real.append(i)
                continue  # stores false where finished is false already: no change
            if not (A.is_int(evs[i][2]) and evs[i][2][1] == 1):
                bad = bad or "finished := %s" % A.show(evs[i][2])
            real.append(i)
        fin_stores = real
        # conditions established after dispatch
        at_end = None
        sig = None
        for c in o.path.conds:
            t = c[0]
            if t[0] == "bin" and t[1] == "Eq":
                a, b = U.strip(t[2]), U.strip(t[3])
                for x, y in ((a, b), (b, a)):
                    if x[0] == "reg" and x[1] == 64 and U.reg_name(facts, x[2]) in ("RIP", None) and y[0] == "field" and y[2] == "code_end_addr":
                        at_end = cond_truth(c) and (c[2] != 0 if c[1] == "==" else True)
                        if x[3] == 0:
                            bad = bad or "end-of-code test uses the pre-instruction RIP"
            tt = U.strip(t)
            if tt[0] == "field" and tt[2] == "signals_normal_finish":
                sig = (c[2] != 0) if c[1] == "==" else True
        failed = evs[d][1] == "err"
        if failed:
            if sig is None:
                bad = bad or "instruction error handled without testing the normal-finish signal"
            elif sig:
                n_sig += 1
                if not any(i > d for i in fin_stores):
                    bad = bad or "normal-finish signal does not set finished"
            else:
                if not is_err(o):
                    bad = bad or "an instruction error without finish signal is swallowed"
                if fin_stores:
                    bad = bad or "finished set on an instruction error"
        if at_end:
            n_end += 1
            if not any(i > d for i in fin_stores):
                bad = bad or "RIP == code_end_addr does not set finished"
        if at_end is False and not failed and fin_stores:
            bad = bad or "finished set although RIP != code_end_addr"
        if at_end is None and not is_err(o) and not failed:
            bad = bad or "a success path never compares RIP with code_end_addr"
        # return value
        if not is_err(o):
            v = U.strip(o.value[3][0])
            okv = (A.is_int(v) and v[1] == 0 and fin_stores) or \
                  (v[0] == "bin" and v[1] == "Eq" and U.strip(v[2])[0] == "field" and U.strip(v[2])[2] == "finished"
                   and A.is_int(v[3]) and v[3][1] == 0) or \
                  (v[0] == "bin" and v[1] == "Eq" and A.is_int(v[3]) and v[3][1] == 0 and fin_all and
                   U.strip(v[2]) == U.strip(evs[fin_all[-1]][2]))
            if not okv:
                bad = bad or "returns Ok(%s), expected Ok(!finished)" % A.show(v)
    if n_end == 0 or n_sig == 0:
        bad = bad or "finish paths missing (end-of-code=%d signal=%d)" % (n_end, n_sig)
    if bad:
        ck.violation("C11.finish", "api=step", bad, where=where, what="finish condition deviates")
    else:
        ck.ok("C11.finish", "api=step", n_end + n_sig)


def copies_signal_flag(b, op, depth=0):
    """operand `op` is a copy of some error's signals_normal_finish field: read directly, through a local that was
    assigned such a copy, or through a reference to the field (`let Self { signals_normal_finish, .. } = self`)"""
    if depth > 4 or op[0] not in ("c", "m"):
        return False
    loc, proj = op[1][0], op[1][1]
    if any(isinstance(e, list) and e[0] == "f" and e[2] == "signals_normal_finish" for e in proj):
        return True
    if any(e != "*" for e in proj):
        return False
    defs = [s2 for b2 in b["blocks"] for s2 in b2["s"] if s2[0] == "a" and s2[1][0] == loc and not s2[1][1]]
    if not defs:
        return False
    for s2 in defs:
        rv = s2[2]
        if rv[0] == "use" and copies_signal_flag(b, rv[1], depth + 1):
            continue
        if rv[0] == "ref" and any(isinstance(e, list) and e[0] == "f" and e[2] == "signals_normal_finish" for e in rv[2][1]):
            continue
        return False
    return True


def monotone_or(b, val, depth=0):
    """`finished |= x` / `finished = finished | x`: the stored value is an OR with the flag's current value, so the
    store can set the flag but never clear it"""
    def is_finished_place(op):
        return op[0] in ("c", "m") and any(isinstance(e, list) and e[0] == "f" and e[2] == "finished" for e in op[1][1])

    def defs(loc):
        return [st[2] for blk in b["blocks"] for st in blk["s"] if st[0] == "a" and st[1][0] == loc and not st[1][1]]
    if depth > 4:
        return False
    if val[0] == "bin" and val[1] == "BitOr":
        for op in (val[2], val[3]):
            if is_finished_place(op):
                return True
            if op[0] in ("c", "m") and not op[1][1]:
                ds = defs(op[1][0])
                if len(ds) == 1 and ds[0][0] == "use" and is_finished_place(ds[0][1]):
                    return True
        return False
    if val[0] == "use" and val[1][0] in ("c", "m") and not val[1][1]:
        ds = defs(val[1][0])
        return len(ds) == 1 and monotone_or(b, ds[0], depth + 1)
    return False


def writers(ctx):
    """A1: who stores true to `finished`; who builds signals_normal_finish: true; who calls end_execution."""
    ck, facts, D = ctx.check, ctx.facts, ctx.dispatch
    allowed_fin = set()
    step = SM.step_body(facts)["path"]
    allowed_fin.add(step)
    stop = [k for k in facts.by_name("stop") if facts.bodies[k].get("impl_self") == "axecutor::Axecutor"]
    allowed_fin |= set(stop)
    # the built-in exit hooks: the native hook closures that select the exit / exit_group syscall numbers (by role)
    from . import C13
    exit_hooks = {c for num, c in C13.hook_closures_by_syscall(ctx).items() if num in (60, 231)}
    raisers = set()
    n = 0
    for k, b in facts.bodies.items():
        if b["glue"]:
            continue
        for blk in b["blocks"]:
            for st in blk["s"]:
                if st[0] != "a":
                    continue
                names = [(e[2], e[3]) for e in st[1][1] if isinstance(e, list) and e[0] == "f"]
                if names and names[-1] == ("finished", "axecutor::MachineState"):
                    n += 1
                    owner = k
                    inst = "store finished in %s" % b["name"] if b["name"] else "store finished in closure of %s" % \
                        facts.bodies[k.split("::{closure")[0]]["name"]
                    val = st[2]
                    is_true = val[0] == "use" and val[1][0] == "k" and val[1][1].get("v") == 1
                    if not is_true:
                        is_true = monotone_or(b, val)
                    okw = owner in allowed_fin or k in exit_hooks
                    if okw and is_true:
                        ck.ok("C11.writers", inst)
                    elif not is_true and owner not in () and not (val[0] == "use" and val[1][0] == "k" and val[1][1].get("v") == 0
                                                                     and b["path"] == ctx.roles.hook_roles()[4]):
                        ck.violation("C11.writers", inst, "stores a non-constant/false value to finished",
                                     where=F.site_str(b, st[3]), what="finished can be cleared: execution could resume after finishing")
                    elif not okw:
                        ck.violation("C11.writers", inst, "unexpected writer of `finished`", where=F.site_str(b, st[3]))
                # a store to the signal field of an existing error value (`e.signals_normal_finish = true`)
                if names and names[-1] == ("signals_normal_finish", "helpers::errors::AxError"):
                    val = st[2]
                    inst = "AxError signal stored in %s" % (b["name"] or k)
                    if val[0] == "use" and val[1][0] == "k" and val[1][1].get("v") == 1:
                        raisers.add(k.split("::{closure")[0])
                        ck.ok("C11.writers", inst)
                    elif val[0] == "use" and val[1][0] == "k" and val[1][1].get("v") == 0:
                        ck.ok("C11.writers", inst)
                    elif val[0] == "use" and copies_signal_flag(b, val[1]):
                        ck.ok("C11.writers", inst)
                    else:
                        ck.violation("C11.writers", inst, "signals_normal_finish is set from a computed value", where=F.site_str(b, st[3]))
                # AxError aggregates with signals_normal_finish
                rv = st[2]
                if rv[0] == "agg" and rv[1][0] == "adt" and rv[1][1] == "helpers::errors::AxError":
                    fi = rv[1][4].index("signals_normal_finish")
                    v = rv[2][fi]
                    const_false = v[0] == "k" and v[1].get("v") == 0
                    const_true = v[0] == "k" and v[1].get("v") == 1
                    inst = "AxError built in %s" % (b["name"] or k)
                    copies_flag = v[0] in ("c", "m") and any(isinstance(e, list) and e[0] == "f" and e[2] == "signals_normal_finish"
                                                           for e in v[1][1])
                    if not copies_flag and v[0] in ("c", "m") and not v[1][1]:
                        # a local that is itself a copy of some error's flag
                        for b2 in b["blocks"]:
                            for s2 in b2["s"]:
                                if s2[0] == "a" and s2[1][0] == v[1][0] and not s2[1][1] and s2[2][0] == "use" and s2[2][1][0] in ("c", "m") \
                                        and any(isinstance(e, list) and e[0] == "f" and e[2] == "signals_normal_finish" for e in s2[2][1][1][1]):
                                    copies_flag = True
                    if not copies_flag and not const_false and not const_true:
                        copies_flag = copies_signal_flag(b, v)
                    if const_false:
                        ck.ok("C11.writers", inst)
                    elif const_true:
                        # a raiser of the normal-finish signal (by role): judged by who calls it, below
                        raisers.add(k.split("::{closure")[0])
                        ck.ok("C11.writers", inst)
                    elif copies_flag:
                        ck.ok("C11.writers", inst)   # a decorator that keeps the flag of the error it wraps
                    else:
                        ck.violation("C11.writers", inst, "signals_normal_finish is set from a computed value",
                                     where=F.site_str(b, st[3]))
    # callers of the raisers: only the handlers bound to Ret codes (closures count for the function they are written in)
    ret_handlers = {d["handler"] for c, d in D.codes.items() if d["mnemonic"] == "Ret"}
    for k, b in facts.bodies.items():
        if b["glue"]:
            continue
        owner_ = k.split("::{closure")[0]
        if owner_ in raisers:
            continue
        for blk in b["blocks"]:
            t = blk["term"]
            if t["k"] == "call" and F.callee_name(t) in raisers:
                inst = "normal-finish signal raised from %s" % (facts.bodies[owner_]["name"] if owner_ in facts.bodies else owner_)
                if owner_ in ret_handlers:
                    ck.ok("C11.writers", inst)
                else:
                    ck.violation("C11.writers", inst, "normal-finish signal raised outside RET", where=F.site_str(b, t["sp"]))
    if not raisers:
        ck.violation("C11.writers", "normal-finish signal", "nothing builds an error with the normal-finish signal set")
    ck.floor("finished writers", n, 3)


def execute(ctx):
    ck, facts = ctx.check, ctx.facts
    c = [k for k in facts.bodies if k.endswith("::execute::{closure#0}") and facts.bodies[k].get("coroutine")]
    if len(c) != 1:
        ck.violation("C11.execute", "api=execute", "coroutine body matches %d bodies" % len(c))
        return
    b = facts.bodies[c[0]]
    step = SM.step_body(facts)["path"]
    stepfn = step.rsplit("::{closure", 1)[0]
    local_calls = set()
    for blk in b["blocks"]:
        t = blk["term"]
        if t["k"] == "call" and t["f"].get("local"):
            n = F.callee_name(t)
            macros = b["spans"][t["sp"]][3]
            local_calls.add(n)
    bad = None
    extra = {n for n in local_calls if n not in (stepfn, step)}
    if extra:
        bad = "execute calls %s besides step" % sorted(x.rsplit("::", 1)[1] for x in extra)
    if stepfn not in local_calls:
        bad = bad or "execute does not call step"
    # shape: interpret: poll(step) Ready(Ok(true)) -> loop; Ready(Ok(false)) -> return Ok; Ready(Err) -> return Err
    def icpt(I, path, frame, t, name, args):
        if name == stepfn:
            path.events.append(("step_call",))
            return [(("future", "step"), path)]
        if name.endswith("::into_future") or name.endswith("Pin::<Ptr>::new_unchecked"):
            return [(args[0], path)]
        if name == step:
            outs = []
            for res, tag in ((("agg", SM.POLL, 0, (A.OK(A.INT(1, 8)),)), "true"), (("agg", SM.POLL, 0, (A.OK(A.INT(0, 8)),)), "false"),
                             (("agg", SM.POLL, 0, (A.ERR(("step_err",)),)), "err"), (("agg", SM.POLL, 1, ()), "pending")):
                p = path.copy()
                p.events.append(("step_result", tag))
                outs.append((res, p))
            return outs
        return None
    I = A.Interp(facts, intercept=icpt, may_inline=lambda n, bb: bb["kind"] == "Closure" and not bb.get("coroutine"))
    env = ("agg", "coroutine:" + b["path"], None, (("ref", (("H", "self"), ()), True),))
    outs = list(I.run(b, [env, ("resume_ctx",)], A.Path()))
    for o in outs:
        if o.kind != "return":
            continue
        res = [e[1] for e in o.path.events if e[0] == "step_result" and e[1] != "pending"]
        if not res:
            continue
        last = res[-1]
        if last == "err" and not is_err(o):
            bad = bad or "execute swallows a step error"
        if last == "false" and is_err(o):
            bad = bad or "execute fails after the final step"
        if last == "true":
            bad = bad or "execute returns although step asked to continue"
        if any(r != "true" for r in res[:-1]):
            bad = bad or "execute keeps stepping after %s" % [r for r in res[:-1] if r != "true"][0]
    if not any(o.kind == "return" and not is_err(o) for o in outs):
        bad = bad or "execute has no success return"
    if bad:
        ck.violation("C11.execute", "api=execute", bad, where="%s:%d" % (b["span"][0], b["span"][1]),
                     what="running to completion is not the same as stepping repeatedly")
    else:
        ck.ok("C11.execute", "api=execute")
