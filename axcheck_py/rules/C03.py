"""C03 Branches, calls and returns transfer control exactly as hardware does.

C03.cond        taken <=> architectural condition, all 64 flag classes (A4 x E1 cc)
C03.rcx         JRCXZ/JECXZ guard is (RCX|ECX) == 0
C03.target      value stored to RIP is near_branch64 / operand value / popped slot
C03.fallthrough not-taken path has no effect; step stores next_ip to RIP before dispatch
C03.forms       branch forms of the reference set stay implemented
"""
from .. import absint as A
from .. import facts as F
from .. import hmodel as H
from .. import hutil as U
from .. import prims as P

BRANCH_FLOWS = ("ConditionalBranch", "UnconditionalBranch", "IndirectBranch", "Call", "IndirectCall", "Return")
NEAR_BRANCH = "iced_x86::Instruction::near_branch64"


def rip_writes(facts, o):
    return [e for e in o.path.events if e[0] == "reg_write" and U.reg_name(facts, e[2]) == "RIP"]


def run(ctx):
    ck, facts, O, D, hm = ctx.check, ctx.facts, ctx.oracle, ctx.dispatch, ctx.hmodel
    impl = D.implemented()
    branch_codes = sorted(c for c in impl if O["codes"][c]["flow"] in BRANCH_FLOWS
                          and O["codes"][c]["mnemonic"] not in ("Syscall", "Int", "Int1", "Int3"))
    skipped = []
    n_cond = n_tgt = 0
    for code in branch_codes:
        oc = O["codes"][code]
        if not hm.producible(code):
            skipped.append(code)
            continue
        where = U.handler_where(facts, D, code)
        flow = oc["flow"]
        cc = oc["cc"]
        for shape in hm.shapes(code):
            label = shape[0]
            inst = "Code=%s/%s" % (code, label) if len(hm.shapes(code)) > 1 else "Code=%s" % code
            if flow == "ConditionalBranch" and cc != "None":
                # ---------------- C03.cond: exhaustive over 64 classes
                wrong = []
                fall_bad = []
                for cls in H.flag_classes():
                    outs, _ = hm.run(code, shape, flags=cls)
                    rets = [o for o in outs if o.kind == "return"]
                    bad = [o for o in outs if o.kind != "return"]
                    exp = U.CC[cc](cls)
                    taken = [bool(rip_writes(facts, o)) for o in rets]
                    if bad or not rets or any(t != exp for t in taken):
                        wrong.append((cls, exp, taken, [repr(o) for o in bad]))
                    if not exp:
                        for o in rets:
                            eff = U.effects(o)
                            if eff and not rip_writes(facts, o):
                                fall_bad.append((cls, [U.show_event(facts, e) for e in eff]))
                    # target on taken paths
                    for o in rets:
                        for e in rip_writes(facts, o):
                            check_target(ctx, code, inst, shape, o, e, where)
                n_cond += 1
                if wrong:
                    cls, exp, taken, bad = wrong[0]
                    ck.violation("C03.cond", inst, "%d of 64 flag classes deviate from cc=%s" % (len(wrong), cc),
                                 where=where, construct=D.codes[code]["handler"],
                                 witness={"first_class": U.fmt_class(cls), "expected_taken": exp,
                                          "observed_taken": taken, "other_outcomes": bad,
                                          "deviating_classes": [U.fmt_class(w[0]) for w in wrong]},
                                 what="branch taken under the wrong flag condition (e.g. %s: expected %s)" % (
                                     U.fmt_class(cls), "taken" if exp else "not taken"))
                else:
                    ck.ok("C03.cond", inst, 64)
                    ck.sample({"rule": "C03.cond", "instance": inst, "cc": cc, "classes": 64,
                               "taken_classes": sum(1 for c in H.flag_classes() if U.CC[cc](c))})
                if fall_bad:
                    ck.violation("C03.fallthrough", inst, "effects on the not-taken path", where=where,
                                 witness={"class": U.fmt_class(fall_bad[0][0]), "effects": fall_bad[0][1]})
                else:
                    ck.ok("C03.fallthrough", inst)
                continue
            outs, _ = hm.run(code, shape)
            rets = [o for o in outs if o.kind == "return"]
            bad = [o for o in outs if o.kind == "panic" and o.cls in ("X", "D", "NOOP")]
            if flow == "ConditionalBranch":
                # ---------------- C03.rcx (JRCXZ / JECXZ)
                width = {"Jrcxz": 64, "Jecxz": 32}.get(oc["mnemonic"])
                regn = {"Jrcxz": "RCX", "Jecxz": "ECX"}.get(oc["mnemonic"])
                okc = True
                why = None
                # per class of the counter: representative RCX values (zero; low half zero only; high half zero only;
                # single low / middle / top bits; all ones) decide every test the handler makes on any view of RCX
                views = {}
                for o in rets:
                    for c in o.path.conds:
                        for x in H.leaves(c[0]):
                            if x[0] == "reg" and U.reg_name(facts, x[2]) in ("RCX", "ECX", "CX", "CL"):
                                views[x] = x[1]
                for rcx in (0, 1, 0x8000_0000, 0xFFFF_FFFF, 0x1_0000_0000, 0xFFFF_FFFF_0000_0000, 1 << 63, (1 << 64) - 1):
                    env = {x: rcx & ((1 << w_) - 1) for x, w_ in views.items()}
                    want = (rcx & ((1 << width) - 1)) == 0
                    seen_any = False
                    for o in rets:
                        cons = True
                        for c in o.path.conds:
                            if not any(H.mentions(c[0], x) for x in views):
                                continue
                            g = U.eval_term(c[0], env, o.path)
                            if g is None:
                                okc, why = False, "a test on the counter cannot be evaluated: %s" % A.show(c[0])[:60]
                                continue
                            if (c[1] == "==" and g != c[2]) or (c[1] == "!=" and g in c[2]):
                                cons = False
                                break
                        if not cons:
                            continue
                        seen_any = True
                        taken = bool(rip_writes(facts, o))
                        if taken != want:
                            okc, why = False, "RCX=%#x: %s, architecture %s" % (
                                rcx, "taken" if taken else "not taken", "takes the branch" if want else "falls through")
                    if not seen_any:
                        okc, why = False, "no success path for RCX=%#x" % rcx
                for o in rets:
                    taken = bool(rip_writes(facts, o))
                    if not taken and U.effects(o):
                        ck.violation("C03.fallthrough", inst, "effects on the not-taken path", where=where,
                                     witness=[U.show_event(facts, e) for e in U.effects(o)])
                    for e in rip_writes(facts, o):
                        check_target(ctx, code, inst, shape, o, e, where)
                if len(set(bool(rip_writes(facts, o)) for o in rets)) != 2:
                    okc, why = False, "handler does not have both a taken and a not-taken path"
                if okc:
                    ck.ok("C03.rcx", inst)
                    ck.ok("C03.fallthrough", inst)
                else:
                    ck.violation("C03.rcx", inst, why, where=where)
                continue
            # ---------------- unconditional / call / ret: exactly one RIP store on every success path
            if not rets:
                ck.violation("C03.target", inst, "no success path", where=where,
                             witness=[repr(o) for o in outs])
                continue
            for o in rets:
                ws = rip_writes(facts, o)
                if flow == "Return" and is_finish_signal(o):
                    continue
                if len(ws) != 1:
                    # RET's normal-finish error return is a return of Err, not counted here
                    if is_err_return(o):
                        continue
                    ck.violation("C03.target", inst, "%d RIP stores on a success path" % len(ws), where=where)
                    continue
                check_target(ctx, code, inst, shape, o, ws[0], where)
                n_tgt += 1
            for o in bad:
                ck.violation("C03.target", inst, "shape %s rejected: %s" % (label, o.msg), where=o.site,
                             what="decoder-producible operand shape aborts in a control-transfer handler")
    ck.cov["unproducible_skipped"] = skipped
    ck.cov["branch_codes"] = branch_codes
    ck.cov["exhaustive"] = True  # all 64 flag classes x every conditional branch handler
    ck.floor("conditional branch handlers", n_cond, 32)
    ck.floor("branch codes (implemented, producible)", len(branch_codes) - len(skipped), 40)
    step_advance(ctx)
    forms(ctx, branch_codes)


def is_err_return(o):
    v = o.value
    return v is not None and v[0] == "agg" and v[1] == A.RESULT and v[2] == 1


def is_finish_signal(o):
    return is_err_return(o)


def guard_on_reg(facts, o, width, regn):
    """True/False: the path assumed (reg == 0) is true/false; None: no such test."""
    for t, op, val in o.path.conds:
        if t[0] == "bin" and t[1] in ("Eq", "Ne") and A.is_int(t[3]) and t[3][1] == 0:
            x = U.strip(t[2])
            if x[0] == "reg" and x[1] == width and U.reg_name(facts, x[2]) == regn:
                truth = (val == 1) if op == "==" else (val != (0,) and False)
                if op == "!=":
                    truth = True  # "!= 0" on a boolean term means true
                if t[1] == "Ne":
                    truth = not truth
                return truth
    return None


def check_target(ctx, code, inst, shape, o, e, where):
    ck, facts, O = ctx.check, ctx.facts, ctx.oracle
    oc = O["codes"][code]
    val = U.strip(e[3])
    kinds = oc["kinds"]
    label = shape[0]
    expect = None
    okv = False
    if kinds and kinds[0].startswith("br64"):
        expect = "near_branch64(instr)"
        okv = val[0] == "ret" and val[1] == NEAR_BRANCH and val[2] == (P.INSTR,)
    elif kinds and kinds[0] == "r64_or_mem":
        # the operand is evaluated on the machine state at instruction entry (before any push / register write):
        # register, address and memory versions must all be the entry versions
        if label == "reg":
            expect = "reg_read_64(op0) on the entry state"
            okv = val[0] == "reg" and val[1] == 64 and val[2] == ("opreg", 0) and val[3] == 0
        else:
            expect = "mem_read_64(mem_addr(op0)) on the entry state"
            ad = U.strip(val[2]) if val[0] == "mem" else ("?",)
            okv = val[0] == "mem" and val[1] == 64 and ad[0] == "addr" and ad[1] == ("opmem", 0) and ad[2] == 0 and val[3] == 0
    elif oc["flow"] == "Return":
        expect = "mem_read_64(f(RSP))"
        if val[0] == "mem" and val[1] == 64:
            lv = H.leaves(val[2])
            okv = len(lv) == 1 and all(x[0] == "reg" and x[1] == 64 and U.reg_name(facts, x[2]) == "RSP" for x in lv)
    else:
        ck.undecided_("C03.target", inst, "no target rule for operand kinds %s" % kinds)
        return
    # the trace/RIP agreement is C18's; here only the RIP value
    if okv:
        ck.ok("C03.target", inst)
        ck.sample({"rule": "C03.target", "instance": inst, "rip_value": A.show(val), "expected": expect})
    else:
        stale = ""
        if val[0] in ("reg", "mem") and (val[3] != 0 or (val[0] == "mem" and U.strip(val[2])[0] == "addr" and U.strip(val[2])[2] != 0)):
            stale = " (operand read after the instruction already changed registers/memory)"
        ck.violation("C03.target", inst, "RIP := %s, expected %s%s" % (A.show(val), expect, stale), where=where,
                     what="branch target computed from the wrong source or from a state the instruction already modified")


def step_advance(ctx):
    """In step: RIP := next_ip(decoded instruction) exactly once before hooks and dispatch, and the dispatched instruction
    is the decoded one -- decided on the interpreted paths of the step coroutine (the analysis C11.advance uses), not on
    the shape of its MIR, so helpers extracted from step do not matter."""
    from .. import stepmodel as SM
    from . import C11
    ck = ctx.check
    try:
        outs, I, body = SM.run_step(ctx, hooks=True)
    except KeyError as e:
        ck.violation("C03.advance", "api=step", str(e))
        return
    rets = [o for o in outs if o.kind == "return"]
    where = "%s:%d (step)" % (body["span"][0], body["span"][1])

    class _Fwd:
        def __init__(self, ck_):
            self.ck, self.cov, self.samples, self.assumptions, self.violations = ck_, {}, [], ck_.assumptions, ck_.violations

        def ok(self, rule, instance=None, n=1):
            if rule == "C11.advance":
                self.ck.ok("C03.advance", instance, n)

        def violation(self, rule, instance, observed, **kw):
            if rule == "C11.advance":
                self.ck.violation("C03.advance", instance, observed, **kw)

        def undecided_(self, *a, **k): pass
        def floor(self, *a, **k): pass
        def sample(self, *a, **k): pass
    sub = type("Sub", (), {})()
    sub.__dict__.update(ctx.__dict__)
    sub.check = _Fwd(ck)
    C11.once_and_advance(sub, rets, where)


def value_copies(body):
    """local -> source local for plain `_a = copy/move _b` assignments (single def)."""
    defs = {}
    cnt = {}
    for b in body["blocks"]:
        for st in b["s"]:
            if st[0] == "a" and not st[1][1]:
                cnt[st[1][0]] = cnt.get(st[1][0], 0) + 1
                rv = st[2]
                if rv[0] == "use" and rv[1][0] in ("c", "m") and not rv[1][1][1]:
                    defs[st[1][0]] = rv[1][1][0]
    out = {}
    for k, v in defs.items():
        if cnt.get(k) == 1:
            seen = {k}
            while v in defs and cnt.get(v) == 1 and v not in seen:
                seen.add(v)
                v = defs[v]
            out[k] = v
    return out


def root_of_ref(body, bb, op):
    """for an operand that is `&_x` built in block bb: return x"""
    if op[0] not in ("c", "m"):
        return None
    l = op[1][0]
    for st in body["blocks"][bb]["s"]:
        if st[0] == "a" and st[1][0] == l and st[2][0] == "ref" and not st[2][2][1]:
            return st[2][2][0]
    return None


def forms(ctx, branch_codes):
    ref = ctx.reference("forms.json")
    if ref is None:
        return
    impl = ctx.dispatch.implemented()
    for c in ref["implemented"]:
        oc = ctx.oracle["codes"].get(c)
        if oc is None or oc["flow"] not in BRANCH_FLOWS:
            continue
        if c in impl:
            ctx.check.ok("C03.forms", "Code=" + c)
        else:
            ctx.check.violation("C03.forms", "Code=" + c, "no longer implemented",
                                where=U.handler_where(ctx.facts, ctx.dispatch, c) if c in ctx.dispatch.codes else None,
                                what="a control-transfer form of the reference set no longer executes")
