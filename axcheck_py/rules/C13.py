"""C13 Built-in brk handler gives the guest a working, growing heap.

C13.select  the handler acts only for RAX == 12 and otherwise leaves everything untouched (Unhandled)
Decided per class {first use, heap exists} x {p=0, 0<p<base, p=base, p>base}: every comparison among 0, p, brk_start and
the allocator's result is answered by the class (a comparison oracle), so the rules do not depend on how the hook
spells its tests.
C13.query   p=0: RAX := heap base + current length, no resize
C13.move    p=base, p>base: exactly one resize(base, p - base); RAX == p (affine); brk_length := p - base only after
            the resize succeeded; untouched when it fails
C13.first   first use allocates through the non-overlapping allocator; base := its result, length := the allocated size
C13.reach   the resize primitive can succeed for a non-zero size (shared with C10.overlap, self case)
"""
from .. import absint as A
from .. import facts as F
from .. import hutil as U
from .. import prims as P
from .rules_common import is_err
from . import C08
from . import C10

AXE = "axecutor::Axecutor"
HANDLED, UNHANDLED = 0, 1


def fieldnames(loc):
    return [p[2] for p in loc[1] if isinstance(p, tuple) and p[0] == "f"]


def run_hook_closure(ctx, cpath, extra=None, oracle=None, mem_fail_paths=False):
    facts = ctx.facts
    b = facts.bodies[cpath]
    pr = P.HandlerPrims(facts, ctx.roles, mem_fail_paths=mem_fail_paths)

    def icpt(I, path, frame, t, name, args):
        if extra is not None:
            r = extra(I, path, frame, t, name, args)
            if r is not None:
                return r
        return pr.intercept(I, path, frame, t, name, args)
    I = A.Interp(facts, intercept=icpt)
    I.cmp_oracle = oracle
    env = ("agg", "closure:" + cpath, None, ())
    tmp = ("L", ("hook-env", cpath), 0)
    p = A.Path()
    p.store[tmp] = env
    if b["kind"] == "Closure":
        outs = list(I.run(b, [("ref", (tmp, ()), False), P.self_ref(True), ("mnem",)], p))
    else:
        outs = list(I.run(b, [P.self_ref(True), ("mnem",)], p))  # a named function registered as the hook
    return outs, I, b


_HOOKS_BY_NUM = {}


def native_hook_bodies(facts):
    """the built-in native hooks of the syscall helper module: top-level closures with the hook signature, and named
    functions with the signature (&mut Axecutor, SupportedMnemonic) -> Result<HookResult, _> (a closure given a name)"""
    out = []
    for k, b in sorted(facts.bodies.items()):
        if b["glue"] or not k.startswith("helpers::syscalls::"):
            continue
        if b["kind"] == "Closure":
            if k.count("{closure#") == 1 and b["argc"] == 3:
                out.append(k)
        else:
            l1 = b["locals"][1] if b["argc"] == 2 else None
            rt = b["locals"][0]
            if b["kind"] in ("Fn", "AssocFn") and isinstance(l1, list) and l1[0] == "ref" and l1[1] and l1[2] == ["adt", "axecutor::Axecutor", []] \
                    and isinstance(rt, list) and rt[:2] == ["adt", "std::result::Result"] and "HookResult" in str(rt):
                out.append(k)
    return out


def hook_closures_by_syscall(ctx):
    """{syscall number: closure path} of the built-in native hooks: every top-level closure of the syscall helper
    module with the native-hook signature is interpreted once; the number is the constant its RAX test selects.
    Independent of the names of the registering functions."""
    key = id(ctx.facts)
    if key in _HOOKS_BY_NUM:
        return _HOOKS_BY_NUM[key]
    facts = ctx.facts
    out = {}
    for k, b in sorted(facts.bodies.items()):
        if b["glue"] or not k.startswith("helpers::syscalls::"):
            continue
        if b["kind"] == "Closure":
            if k.count("{closure#") != 1 or b["argc"] != 3:
                continue
        else:
            # a named function with the native-hook signature (&mut Axecutor, SupportedMnemonic) -> Result<HookResult, _>
            l1 = b["locals"][1] if b["argc"] == 2 else None
            rt = b["locals"][0]
            if not (b["kind"] in ("Fn", "AssocFn") and isinstance(l1, list) and l1[0] == "ref" and l1[1] and l1[2] == ["adt", "axecutor::Axecutor", []]
                    and isinstance(rt, list) and rt[:2] == ["adt", "std::result::Result"] and "HookResult" in str(rt)):
                continue
        try:
            outs, I, _ = run_hook_closure(ctx, k, None)
        except Exception:  # noqa
            continue
        for o in outs:
            if o.kind == "return":
                s_ = rax_selector(facts, o)
                if s_:
                    out.setdefault(s_[0], k)
    _HOOKS_BY_NUM[key] = out
    return out


def hook_result(o):
    """'handled' | 'unhandled' | 'err' | None"""
    v = o.value
    if o.kind != "return" or v is None or v[0] != "agg":
        return None
    if v[2] == 1:
        return "err"
    r = v[3][0]
    if r[0] == "agg" and r[1] == "adt:state::hooks::HookResult":
        return "handled" if r[2] == HANDLED else "unhandled"
    return None


def effects(o):
    return [e for e in o.path.events if e[0] in ("reg_write", "mem_write", "store", "mutcall", "alloc", "resize")]


def rax_selector(facts, o):
    """the constant RAX was compared with on this path: (value, truth)"""
    for t, op, val in o.path.conds:
        if t[0] == "bin" and t[1] in ("Ne", "Eq") and A.is_int(t[3]):
            x = U.strip(t[2])
            if x[0] == "reg" and x[1] == 64 and U.reg_name(facts, x[2]) == "RAX":
                truth = (val == 1) if op == "==" else True
                eq = truth if t[1] == "Eq" else not truth
                return t[3][1], eq
        # `match rax { 60 => .., _ => .. }`: the register value itself is the scrutinee
        x = U.strip(t)
        if x[0] == "reg" and x[1] == 64 and U.reg_name(facts, x[2]) == "RAX":
            if op == "==" and isinstance(val, int):
                return val, True
            if op == "!=" and isinstance(val, tuple) and len(val) == 1:
                return val[0], False
    return None


def run(ctx):
    ck, facts = ctx.check, ctx.facts
    cl = [hook_closures_by_syscall(ctx).get(12)]
    if cl[0] is None:
        ck.violation("C13.select", "brk hook", "no native hook closure selects RAX == 12 (brk)")
        return
    alloc = facts.method(AXE, "mem_init_zero_anywhere")["path"]
    resize = facts.method(AXE, "mem_resize_section")["path"]

    def extra(I, path, frame, t, name, args):
        if name == alloc:
            p2 = path.copy()
            path.events.append(("alloc", args[1]))
            return [(A.OK(A.W(("heapbase",), 64)), path), (A.ERR(("e",)), p2)]
        if name == resize:
            p2 = path.copy()
            path.events.append(("resize", args[1], args[2]))
            p2.events.append(("resize_err", args[1], args[2]))
            return [(A.OK(A.UNIT), path), (A.ERR(("e",)), p2)]
        return None
    START = ("field", ("field", ("field", ("init", "self", 0), "state"), "syscalls"), "brk_start")
    LENGTH = ("field", ("field", ("field", ("init", "self", 0), "state"), "syscalls"), "brk_length")
    sel_bad = q_bad = m_bad = f_bad = None
    nq = nm = nf = nb = 0
    npaths = 0
    covered = set()
    where = None
    # A7-style classes: the argument p relative to 0 and the heap base, x first use or not. Every comparison among
    # {0, p, brk_start (entry value), the allocator's result} is decided by the class; anything else forks.
    for first in (False, True):
        for cname, prank in (("p=0", 0), ("0<p<base", 1), ("p=base", 2), ("p>base", 3)):
            def rank(t, first=first, prank=prank):
                t = U.strip(t)
                if A.is_int(t):
                    return 0 if t[1] == 0 else None
                if t[0] == "reg" and U.reg_name(facts, t[2]) == "RDI":
                    return prank
                if t == START:
                    return 0 if first else 2
                if t == ("heapbase",):
                    return 2
                return None

            def oracle(path, op, x, y, rank=rank):
                rx, ry = rank(x), rank(y)
                if rx is None or ry is None:
                    return None
                return int({"Eq": rx == ry, "Ne": rx != ry, "Lt": rx < ry, "Le": rx <= ry, "Gt": rx > ry, "Ge": rx >= ry}[op])
            outs, I, b = run_hook_closure(ctx, cl[0], extra, oracle)
            where = "%s:%d (brk hook)" % (b["span"][0], b["span"][1])
            rets = [o for o in outs if o.kind == "return"]
            npaths += len(rets)
            for o in rets:
                sel = rax_selector(facts, o)
                res = hook_result(o)
                if sel is None:
                    sel_bad = sel_bad or "a path does not test RAX"
                    continue
                if sel[0] != 12:
                    sel_bad = sel_bad or "selects syscall %d, brk is 12" % sel[0]
                if not sel[1]:
                    if res != "unhandled" or effects(o):
                        sel_bad = sel_bad or "other syscalls: %s" % ("has effects" if effects(o) else "not left Unhandled")
                    continue
                evs = o.path.events
                did_alloc = any(e[0] == "alloc" for e in evs)
                if did_alloc != first and res != "err":
                    f_bad = f_bad or ("no allocation on first use (brk_start == 0)" if first else "allocates although the heap exists")
                base = A.W(("heapbase",), 64) if did_alloc else A.W(START, 64)
                raxw = [e for e in evs if e[0] == "reg_write" and U.reg_name(facts, e[2]) == "RAX"]
                if did_alloc:
                    nf += 1
                    al = [e for e in evs if e[0] == "alloc"][0]
                    st = [e for e in evs if e[0] == "store"]
                    sstart = [e for e in st if fieldnames(e[1])[-1:] == ["brk_start"]]
                    slen = [e for e in st if fieldnames(e[1])[-1:] == ["brk_length"]]
                    if not sstart or U.strip(sstart[0][2]) != ("heapbase",):
                        f_bad = f_bad or "heap base is not the allocator's result"
                    if not slen or U.strip(slen[0][2]) != U.strip(al[1]):
                        f_bad = f_bad or "initial length %s differs from the allocated size %s" % (
                            A.show(slen[0][2]) if slen else None, A.show(al[1]))
                if res == "err":
                    if any(e[0] == "resize_err" for e in evs):
                        ri = [i for i, e in enumerate(evs) if e[0] == "resize_err"][0]
                        if any(e[0] == "store" and fieldnames(e[1])[-1:] == ["brk_length"] for e in evs[ri:]):
                            m_bad = m_bad or "brk_length changed although the resize failed"
                    continue
                if res != "handled":
                    sel_bad = sel_bad or "brk (%s) is left %s" % (cname, res)
                    continue
                covered.add((first, cname))
                rs = [e for e in evs if e[0] == "resize"]
                cur_len = None
                for e in evs:
                    if e[0] == "store" and fieldnames(e[1])[-1:] == ["brk_length"]:
                        cur_len = e[2]
                if prank == 0:
                    nq += 1
                    want = ("bin", "Add", base, cur_len if cur_len is not None else A.W(LENGTH, 64), 64)
                    if len(raxw) != 1:
                        q_bad = q_bad or "%d RAX writes on the query path" % len(raxw)
                    elif not U.affine_eq(raxw[0][3], want):
                        q_bad = q_bad or "brk(0) returns %s, the current break is %s" % (A.show(U.strip(raxw[0][3])), A.show(want))
                    if rs:
                        q_bad = q_bad or "brk(0) resizes the heap"
                elif prank == 1:
                    nb += 1  # below the heap base: not specified by the property (crash freedom is C19's)
                else:
                    nm += 1
                    rd = [e for e in evs if e[0] == "reg_read" and U.reg_name(facts, e[2]) == "RDI"]
                    p = A.W(("reg", 64, rd[0][2], 0), 64) if rd else None
                    if p is None:
                        m_bad = m_bad or "brk(p), %s: the argument register is never read" % cname
                        continue
                    if len(rs) != 1:
                        m_bad = m_bad or "brk(p), %s: %d resize calls, expected one (the break does not move)" % (cname, len(rs))
                        continue
                    if U.strip(rs[0][1]) != U.strip(base):
                        m_bad = m_bad or "resizes the area at %s, heap base is %s" % (A.show(rs[0][1]), A.show(base))
                    if not U.affine_eq(rs[0][2], ("bin", "Sub", p, base, 64)):
                        m_bad = m_bad or "requests size %s, expected p - base" % A.show(rs[0][2])
                    if len(raxw) != 1 or not U.affine_eq(raxw[0][3], p):
                        m_bad = m_bad or "brk(p), %s: returns %s, expected p" % (cname, A.show(raxw[0][3]) if raxw else None)
                    ri = evs.index(rs[0])
                    ls = [i for i, e in enumerate(evs) if e[0] == "store" and fieldnames(e[1])[-1:] == ["brk_length"] and i > ri]
                    early0 = [i for i, e in enumerate(evs) if e[0] == "store" and fieldnames(e[1])[-1:] == ["brk_length"] and i < ri and not did_alloc]
                    if early0:
                        m_bad = m_bad or "brk_length updated before the resize succeeded (a refused resize leaves the new length behind)"
                    elif not ls:
                        m_bad = m_bad or "brk_length not updated after a successful resize"
                    elif not U.affine_eq(evs[ls[-1]][2], rs[0][2]):
                        m_bad = m_bad or "brk_length := %s differs from the resized size" % A.show(evs[ls[-1]][2])
                    early = [i for i, e in enumerate(evs) if e[0] == "store" and fieldnames(e[1])[-1:] == ["brk_length"] and i < ri and not did_alloc]
                    if early:
                        m_bad = m_bad or "brk_length updated before the resize succeeded"
    ck.cov["brk_paths"] = npaths
    ck.floor("brk classes with a Handled path", len(covered), 8)
    if nq == 0:
        q_bad = q_bad or "no query path"
    if nm == 0:
        m_bad = m_bad or "no move path"
    if nf == 0:
        f_bad = f_bad or "no first-use path"
    for rule, bad, what in (("C13.select", sel_bad, None), ("C13.query", q_bad, "brk(0) must return the current program break"),
                            ("C13.move", m_bad, None), ("C13.first", f_bad, None)):
        if bad:
            ck.violation(rule, "brk hook", bad, where=where, what=what or bad)
        else:
            ck.ok(rule, "brk hook")
    ck.sample({"rule": "C13", "paths": npaths, "query_paths": nq, "move_paths": nm, "first_use_paths": nf, "below_base_paths": nb,
               "classes": "{first use, heap exists} x {p=0, 0<p<base, p=base, p>base}"})
    # ---- reach
    body = facts.method(AXE, "mem_resize_section")
    rej_self = []
    for o in C08.orderings(True):
        if o["os"] != o["ns"] or o["ns"] == o["ne"]:
            continue
        args = [P.self_ref(True), A.W(("start_addr",), 64), A.W(("new_size",), 64)]
        outs2, _ = C10.run_scan(ctx, body, args, ("start_addr",), [("new_size",)], o)
        passed, rejected = C10.scan_outcome(outs2)
        if rejected and not passed:
            rej_self.append(C10.M.fmt_order(o))
    if rej_self:
        ck.violation("C13.reach", "api=mem_resize_section", "every non-zero resize of the heap area is rejected (%d orderings)" % len(rej_self),
                     where="%s:%d" % (body["span"][0], body["span"][1]), witness={"orderings": rej_self},
                     what="any non-zero brk fails: the resize primitive rejects the area itself")
    else:
        ck.ok("C13.reach", "api=mem_resize_section")
