"""C13 Built-in brk handler gives the guest a working, growing heap.

C13.select  the handler acts only for RAX == 12 and otherwise leaves everything untouched (Unhandled)
C13.query   brk(0) returns heap base + current length
C13.move    brk(p): resize(base, p - base); RAX == p (affine); brk_length := p - base only after the resize succeeded
C13.first   first use allocates through the non-overlapping allocator; base := its result, length := the allocated size
C13.reach   the resize primitive can succeed for a non-zero size (shared with C10.overlap, self case)
"""
from .. import absint as A
from .. import facts as F
from .. import hutil as U
from .. import prims as P
from .rules_common import is_err
from . import C08
from . import C10

AXE = "axecutor::Axecutor"
HANDLED, UNHANDLED = 0, 1


def fieldnames(loc):
    return [p[2] for p in loc[1] if isinstance(p, tuple) and p[0] == "f"]


def run_hook_closure(ctx, cpath, extra=None):
    facts = ctx.facts
    b = facts.bodies[cpath]
    pr = P.HandlerPrims(facts, ctx.roles)

    def icpt(I, path, frame, t, name, args):
        if extra is not None:
            r = extra(I, path, frame, t, name, args)
            if r is not None:
                return r
        return pr.intercept(I, path, frame, t, name, args)
    I = A.Interp(facts, intercept=icpt)
    env = ("agg", "closure:" + cpath, None, ())
    tmp = ("L", ("hook-env", cpath), 0)
    p = A.Path()
    p.store[tmp] = env
    outs = list(I.run(b, [("ref", (tmp, ()), False), P.self_ref(True), ("mnem",)], p))
    return outs, I, b


def hook_result(o):
    """'handled' | 'unhandled' | 'err' | None"""
    v = o.value
    if o.kind != "return" or v is None or v[0] != "agg":
        return None
    if v[2] == 1:
        return "err"
    r = v[3][0]
    if r[0] == "agg" and r[1] == "adt:state::hooks::HookResult":
        return "handled" if r[2] == HANDLED else "unhandled"
    return None


def effects(o):
    return [e for e in o.path.events if e[0] in ("reg_write", "mem_write", "store", "mutcall", "alloc", "resize")]


def rax_selector(facts, o):
    """the constant RAX was compared with on this path: (value, truth)"""
    for t, op, val in o.path.conds:
        if t[0] == "bin" and t[1] in ("Ne", "Eq") and A.is_int(t[3]):
            x = U.strip(t[2])
            if x[0] == "reg" and x[1] == 64 and U.reg_name(facts, x[2]) == "RAX":
                truth = (val == 1) if op == "==" else True
                eq = truth if t[1] == "Eq" else not truth
                return t[3][1], eq
    return None


def run(ctx):
    ck, facts = ctx.check, ctx.facts
    try:
        reg = facts.method(AXE, "register_brk")
    except KeyError as e:
        ck.violation("C13.select", "brk hook", str(e))
        return
    cl = facts.closures_of(reg["path"])
    if len(cl) != 1:
        ck.violation("C13.select", "brk hook", "register_brk has %d closures" % len(cl))
        return
    alloc = facts.method(AXE, "mem_init_zero_anywhere")["path"]
    resize = facts.method(AXE, "mem_resize_section")["path"]

    def extra(I, path, frame, t, name, args):
        if name == alloc:
            p2 = path.copy()
            path.events.append(("alloc", args[1]))
            return [(A.OK(A.W(("heapbase",), 64)), path), (A.ERR(("e",)), p2)]
        if name == resize:
            p2 = path.copy()
            path.events.append(("resize", args[1], args[2]))
            p2.events.append(("resize_err", args[1], args[2]))
            return [(A.OK(A.UNIT), path), (A.ERR(("e",)), p2)]
        return None
    outs, I, b = run_hook_closure(ctx, cl[0], extra)
    where = "%s:%d (brk hook)" % (b["span"][0], b["span"][1])
    rets = [o for o in outs if o.kind == "return"]
    ck.cov["brk_paths"] = len(rets)
    ck.floor("brk hook paths", len(rets), 6)
    START = ("field", ("field", ("field", ("init", "self", 0), "state"), "syscalls"), "brk_start")
    LENGTH = ("field", ("field", ("field", ("init", "self", 0), "state"), "syscalls"), "brk_length")
    sel_bad = q_bad = m_bad = f_bad = None
    nq = nm = nf = 0
    for o in rets:
        sel = rax_selector(facts, o)
        res = hook_result(o)
        if sel is None:
            sel_bad = sel_bad or "a path does not test RAX"
            continue
        if sel[0] != 12:
            sel_bad = sel_bad or "selects syscall %d, brk is 12" % sel[0]
        if not sel[1]:
            if res != "unhandled" or effects(o):
                sel_bad = sel_bad or "other syscalls: %s" % ("has effects" if effects(o) else "not left Unhandled")
            continue
        evs = o.path.events
        first = any(e[0] == "alloc" for e in evs)
        base = A.W(("heapbase",), 64) if first else A.W(START, 64)
        # RDI == 0 ?
        rdi_zero = None
        for t, op, val in o.path.conds:
            if t[0] == "bin" and t[1] == "Eq" and A.is_int(t[3]) and t[3][1] == 0:
                x = U.strip(t[2])
                if x[0] == "reg" and U.reg_name(facts, x[2]) == "RDI":
                    rdi_zero = (val == 1) if op == "==" else True
        raxw = [e for e in evs if e[0] == "reg_write" and U.reg_name(facts, e[2]) == "RAX"]
        if first:
            nf += 1
            al = [e for e in evs if e[0] == "alloc"][0]
            st = [e for e in evs if e[0] == "store"]
            sstart = [e for e in st if fieldnames(e[1])[-1:] == ["brk_start"]]
            slen = [e for e in st if fieldnames(e[1])[-1:] == ["brk_length"]]
            if not sstart or U.strip(sstart[0][2]) != ("heapbase",):
                f_bad = f_bad or "heap base is not the allocator's result"
            if not slen or U.strip(slen[0][2]) != U.strip(al[1]):
                f_bad = f_bad or "initial length %s differs from the allocated size %s" % (
                    A.show(slen[0][2]) if slen else None, A.show(al[1]))
        if res == "err":
            continue
        if rdi_zero:
            nq += 1
            if len(raxw) != 1:
                q_bad = q_bad or "%d RAX writes on the query path" % len(raxw)
            else:
                cur_len = None
                for e in evs:
                    if e[0] == "store" and fieldnames(e[1])[-1:] == ["brk_length"]:
                        cur_len = e[2]
                want = ("bin", "Add", base, cur_len if cur_len is not None else A.W(LENGTH, 64), 64)
                if not U.affine_eq(raxw[0][3], want):
                    q_bad = q_bad or "brk(0) returns %s, the current break is %s" % (A.show(U.strip(raxw[0][3])), A.show(want))
            if any(e[0] == "resize" for e in evs):
                q_bad = q_bad or "query path resizes the heap"
        elif rdi_zero is False and any(e[0] == "checked" and e[1] == "Sub" and e[4] == "none" for e in evs):
            # p below the heap base: refuse, report the current break, change nothing
            if any(e[0] in ("resize", "resize_err") for e in evs) or \
                    any(e[0] == "store" and fieldnames(e[1])[-1:] == ["brk_length"] for e in evs if not first):
                m_bad = m_bad or "a break below the heap base resizes the heap"
            cur_len = None
            for e in evs:
                if e[0] == "store" and fieldnames(e[1])[-1:] == ["brk_length"]:
                    cur_len = e[2]
            want = ("bin", "Add", base, cur_len if cur_len is not None else A.W(LENGTH, 64), 64)
            if len(raxw) != 1 or not U.affine_eq(raxw[0][3], want):
                m_bad = m_bad or "a break below the heap base returns %s, expected the current break" % (
                    A.show(raxw[0][3]) if raxw else None)
        elif rdi_zero is False:
            nm += 1
            rs = [e for e in evs if e[0] == "resize"]
            if len(rs) != 1:
                m_bad = m_bad or "%d resize calls on the move path" % len(rs)
                continue
            rdi = [U.strip(c[0][2]) for c in o.path.conds if c[0][0] == "bin" and U.strip(c[0][2])[0] == "reg"
                   and U.reg_name(facts, U.strip(c[0][2])[2]) == "RDI"]
            p = A.W(rdi[0], 64) if rdi else None
            if U.strip(rs[0][1]) != U.strip(base):
                m_bad = m_bad or "resizes the area at %s, heap base is %s" % (A.show(rs[0][1]), A.show(base))
            if p is not None and not U.affine_eq(rs[0][2], ("bin", "Sub", p, base, 64)):
                m_bad = m_bad or "requests size %s, expected p - base" % A.show(rs[0][2])
            if len(raxw) != 1 or (p is not None and not U.affine_eq(raxw[0][3], p)):
                m_bad = m_bad or "returns %s, expected p" % (A.show(raxw[0][3]) if raxw else None)
            # brk_length stored after the resize
            ri = evs.index(rs[0])
            ls = [i for i, e in enumerate(evs) if e[0] == "store" and fieldnames(e[1])[-1:] == ["brk_length"] and i > ri]
            if not ls:
                m_bad = m_bad or "brk_length not updated after a successful resize"
            elif not U.affine_eq(evs[ls[-1]][2], rs[0][2]):
                m_bad = m_bad or "brk_length := %s differs from the resized size" % A.show(evs[ls[-1]][2])
            early = [i for i, e in enumerate(evs) if e[0] == "store" and fieldnames(e[1])[-1:] == ["brk_length"] and i < ri and not first]
            if early:
                m_bad = m_bad or "brk_length updated before the resize succeeded"
        # failed resize leaves brk_length alone
    for o in rets:
        if hook_result(o) == "err" and any(e[0] == "resize_err" for e in o.path.events):
            evs = o.path.events
            ri = [i for i, e in enumerate(evs) if e[0] == "resize_err"][0]
            if any(e[0] == "store" and fieldnames(e[1])[-1:] == ["brk_length"] for e in evs[ri:]):
                m_bad = m_bad or "brk_length changed although the resize failed"
    if nq == 0:
        q_bad = q_bad or "no query path"
    if nm == 0:
        m_bad = m_bad or "no move path"
    if nf == 0:
        f_bad = f_bad or "no first-use path"
    for rule, bad, what in (("C13.select", sel_bad, None), ("C13.query", q_bad, "brk(0) must return the current program break"),
                            ("C13.move", m_bad, None), ("C13.first", f_bad, None)):
        if bad:
            ck.violation(rule, "brk hook", bad, where=where, what=what or bad)
        else:
            ck.ok(rule, "brk hook")
    ck.sample({"rule": "C13", "paths": len(rets), "query_paths": nq, "move_paths": nm, "first_use_paths": nf})
    # ---- reach
    body = facts.method(AXE, "mem_resize_section")
    rej_self = []
    for o in C08.orderings(True):
        if o["os"] != o["ns"] or o["ns"] == o["ne"]:
            continue
        args = [P.self_ref(True), A.W(("start_addr",), 64), A.W(("new_size",), 64)]
        outs2, _ = C10.run_scan(ctx, body, args, ("start_addr",), [("new_size",)], o)
        passed, rejected = C10.scan_outcome(outs2)
        if rejected and not passed:
            rej_self.append(C10.M.fmt_order(o))
    if rej_self:
        ck.violation("C13.reach", "api=mem_resize_section", "every non-zero resize of the heap area is rejected (%d orderings)" % len(rej_self),
                     where="%s:%d" % (body["span"][0], body["span"][1]), witness={"orderings": rej_self},
                     what="any non-zero brk fails: the resize primitive rejects the area itself")
    else:
        ck.ok("C13.reach", "api=mem_resize_section")
