"""C20 Execution is a deterministic function of the explicit inputs.

C20.sources  A11: callers of rand are exactly the two seeding functions and the pipe() hook; the seeding functions are
             called only by the constructor and feed only registers / xmm_registers; hash-map iteration happens only in
             the debug renderers, never in the cone of step / trace / call_stack / error texts; no time, env, pid, thread
             or address source anywhere in non-glue code
C20.reads    every handler reads only its operands and the architecturally implicit registers; step reads only RIP
"""
from .. import absint as A
from .. import facts as F
from .. import hutil as U
from .. import stepmodel as SM
from .rules_common import is_err
from . import C18

AXE = "axecutor::Axecutor"
RAND_CRATES = ("rand", "rand_core", "getrandom", "rand_chacha")
ENV_PREFIXES = ("std::time::", "std::env::", "std::process::id", "std::thread::current", "std::thread::Thread::id")
MAP_ITER = ("::iter", "::keys", "::values", "::into_iter", "::drain", "::iter_mut", "::values_mut", "::into_keys", "::into_values")


def run(ctx):
    sources(ctx)
    reads(ctx)


def owner(k):
    return k.split("::{closure")[0]


def sources(ctx):
    ck, facts = ctx.check, ctx.facts
    rand_callers = {}
    map_iters = {}
    env = []
    ptr = []
    shared = []
    for k, b in facts.bodies.items():
        if b["glue"]:
            continue
        for blk in b["blocks"]:
            for st in blk["s"]:
                if st[0] == "a" and st[2][0] == "cast" and "Expose" in st[2][1]:
                    ptr.append((k, F.site_str(b, st[3]), "pointer->integer cast"))
            t = blk["term"]
            if t["k"] != "call":
                continue
            n = F.callee_name(t)
            kr = t["f"].get("krate")
            if kr in RAND_CRATES:
                rand_callers.setdefault(k, F.site_str(b, t["sp"]))
            if n.startswith(ENV_PREFIXES):
                env.append((k, F.site_str(b, t["sp"]), n))
            # state shared between machines of one process: thread-locals, statics behind a lock or atomics. Immutable
            # lazy_static tables are read through Deref and are not matched here.
            if n.startswith(("std::thread::LocalKey", "std::thread::local::LocalKey")) or \
                    (n.startswith(("std::sync::atomic::", "core::sync::atomic::")) and n.rsplit("::", 1)[1] in
                     ("store", "swap", "fetch_add", "fetch_sub", "fetch_or", "fetch_and", "fetch_xor", "compare_exchange",
                      "compare_exchange_weak", "fetch_update", "load")) or \
                    (n.startswith(("std::sync::Mutex", "std::sync::RwLock", "std::sync::OnceLock", "std::sync::poison::mutex::Mutex",
                                   "std::sync::poison::rwlock::RwLock")) and n.rsplit("::", 1)[1] in ("lock", "write", "read", "get_or_init", "set", "try_lock")):
                shared.append((k, F.site_str(b, t["sp"]), n.split("::<")[0]))
            if "new_pointer" in n:
                ptr.append((k, F.site_str(b, t["sp"]), "{:p} formatting"))
            g = " ".join(t["f"].get("gargs", []))
            if ("collections::HashMap" in n or "collections::HashSet" in n or "hash_map::" in n or
                    ("IntoIterator" in (t["f"].get("def") or "") and "HashMap" in g)) and n.endswith(MAP_ITER):
                map_iters.setdefault(k, F.site_str(b, t["sp"]))
            elif n.endswith("::into_iter") and "HashMap" in g and "RandomState" in g:
                map_iters.setdefault(k, F.site_str(b, t["sp"]))
    # ---- rand callers
    # the seeding functions, by role: the callees of the blank-machine constructor whose private cone draws from rand;
    # everything in those cones (helpers, closures) may call rand
    allowed = set()
    seed_roots = set()
    empty_b = facts.bodies[ctx.roles.hook_roles()[4]]

    def draws(k, seen):
        """collects the private cone of k into `seen`; true when anything in it calls rand"""
        if k in seen or k not in facts.bodies:
            return False
        seen.add(k)
        hit = k in rand_callers or any(c in rand_callers for c in facts.closures_of(k))
        for kk in [k] + list(facts.closures_of(k)):
            for blk in facts.bodies[kk]["blocks"]:
                t = blk["term"]
                if t["k"] == "call":
                    cn = F.callee_name(t)
                    cb = facts.bodies.get(cn)
                    if cb is not None and not cb["glue"] and cb["vis"] != "pub" and cb["kind"] != "Closure":
                        hit = draws(cn, seen) or hit
        return hit
    for blk in empty_b["blocks"]:
        t = blk["term"]
        if t["k"] == "call":
            cn = F.callee_name(t)
            seen = set()
            if cn in facts.bodies and not facts.bodies[cn]["glue"] and draws(cn, seen):
                seed_roots.add(cn)
                allowed |= seen
                for k_ in list(seen):
                    allowed |= set(facts.closures_of(k_))
    if not seed_roots:
        ck.violation("C20.sources", "seeding", "the blank-machine constructor calls nothing that draws random values")
    pipe_closures = set()
    try:
        from . import C13
        pc = C13.hook_closures_by_syscall(ctx).get(22)  # the pipe() hook: descriptor numbers are the stated exception
        if pc:
            pipe_closures = {pc}
    except Exception:  # noqa
        pass
    for k, site in sorted(rand_callers.items()):
        inst = "rand caller=%s" % (facts.bodies[owner(k)]["name"] + ("{closure}" if k != owner(k) else ""))
        if k in allowed or owner(k) in allowed or k in pipe_closures or any(k.startswith(pc_ + "::{closure") for pc_ in pipe_closures):
            ck.ok("C20.sources", inst)
        else:
            ck.violation("C20.sources", inst, "calls into rand", where=site,
                         what="a new randomness source can reach machine state or messages")
    ck.floor("rand callers (positive control)", len(rand_callers), 3)
    # ---- seeding functions: called only by the constructor; results stored to registers / xmm_registers
    for k, b in facts.bodies.items():
        if b["glue"]:
            continue
        for blk in b["blocks"]:
            t = blk["term"]
            if t["k"] == "call" and F.callee_name(t) in seed_roots:
                inst = "seeding called from %s" % b["name"]
                if b["path"] == ctx.roles.hook_roles()[4]:
                    # the result feeds the matching field of the MachineState aggregate
                    dst = t["dest"][0]
                    fed = None
                    for b2 in b["blocks"]:
                        for st in b2["s"]:
                            if st[0] == "a" and st[2][0] == "agg" and st[2][1][0] == "adt" and st[2][1][1] == "axecutor::MachineState":
                                names = st[2][1][4]
                                for i, o in enumerate(st[2][2]):
                                    if o[0] in ("c", "m") and o[1][0] == dst:
                                        fed = names[i]
                    if fed in ("registers", "xmm_registers"):
                        ck.ok("C20.sources", inst + "->" + fed)
                    else:
                        ck.violation("C20.sources", inst, "random seed flows into %s" % fed, where=F.site_str(b, t["sp"]))
                else:
                    ck.violation("C20.sources", inst, "seeding function called outside the constructor", where=F.site_str(b, t["sp"]))
    # ---- map iteration
    roots = []
    try:
        roots.append(SM.step_body(facts)["path"])
    except KeyError:
        pass
    for nm in ("trace", "call_stack"):
        try:
            roots.append(facts.method(AXE, nm)["path"])
        except KeyError:
            pass
    # every instruction handler, hook closure, and AxError conversion is part of the observable cone
    roots.append(ctx.dispatch.top["path"])
    for k, b in facts.bodies.items():
        if b["glue"]:
            continue
        if (b.get("impl_self") == "helpers::errors::AxError") or k.startswith("helpers::syscalls::"):
            roots.append(k)
    cone = C18.cone_of(facts, roots, fmt_edges=True)
    ck.cov["observable_cone_bodies"] = len(cone)
    for k, site in sorted(map_iters.items()):
        b = facts.bodies[k]
        inst = "hash-map iteration in %s" % (b["name"] or facts.bodies[owner(k)]["name"])
        if k in cone:
            ck.violation("C20.sources", inst, "iterates a RandomState hash map inside the observable cone", where=site,
                         what="iteration order of a hash map can reach state, traces or error texts")
        else:
            ck.ok("C20.sources", inst)
    ck.floor("hash-map iteration sites (positive control)", len(map_iters), 2)
    ck.floor("observable cone", len(cone), 700)
    for k, site, what in shared:
        if "__static_ref_initialize" in k or "lazy_static" in k or "lazy::Lazy" in k:
            continue  # the one-time initialisation of an immutable table
        ck.violation("C20.sources", "fn=%s" % facts.bodies[owner(k)]["name"], "process-level mutable state: %s" % what, where=site,
                     what="state shared between independently constructed machines (thread-local / static): one machine's run "
                          "depends on what another one did")
    for k, site, what in env + ptr:
        ck.violation("C20.sources", "fn=%s" % facts.bodies[owner(k)]["name"], what, where=site,
                     what="process-level nondeterminism source")
    if not env and not ptr:
        ck.ok("C20.sources", "no time/env/pid/address source")
    ck.sample({"rule": "C20.sources", "rand_callers": sorted(facts.bodies[owner(k)]["name"] for k in rand_callers),
               "map_iteration": sorted(facts.bodies[owner(k)]["name"] or k for k in map_iters)})


def const_register(facts, body, op, depth=0):
    """name of the register an operand denotes when it is a constant (possibly moved through locals or converted from
    an iced register constant with into()/from()), else None"""
    if depth > 6:
        return None
    if op[0] == "k":
        v = op[1].get("v")
        ty = op[1].get("ty")
        if v is None or not (isinstance(ty, list) and ty[0] == "adt"):
            return None
        ev = facts.enum_variant_by_discr(ty[1], v)
        return ev[1] if ev else None
    if op[0] not in ("c", "m") or op[1][1]:
        return None
    loc = op[1][0]
    defs = []
    for blk in body["blocks"]:
        for st in blk["s"]:
            if st[0] == "a" and st[1][0] == loc and not st[1][1]:
                defs.append(("s", st))
        t = blk["term"]
        if t["k"] == "call" and t.get("dest") and t["dest"][0] == loc and not t["dest"][1]:
            defs.append(("c", t))
    if len(defs) != 1:
        return None
    kind, d = defs[0]
    if kind == "s":
        if d[2][0] == "use":
            return const_register(facts, body, d[2][1], depth + 1)
        if d[2][0] == "agg" and d[2][1][0] == "adt" and not d[2][2] and len(d[2][1]) > 3:
            return d[2][1][3]  # a field-less enum constant is built as an aggregate
        return None
    n = F.callee_name(d)
    if n.endswith(("::into", "::from")) and len(d["args"]) == 1:
        return const_register(facts, body, d["args"][0], depth + 1)
    return None


def reads(ctx):
    ck, facts, O, D, hm = ctx.check, ctx.facts, ctx.oracle, ctx.dispatch, ctx.hmodel
    from .C01 import EXPLICIT_FULL, FIXED_KIND_REG
    n = 0
    for code in sorted(D.implemented()):
        oc = O["codes"][code]
        if not hm.producible(code) or oc["mnemonic"] in ("Syscall", "Int", "Int1", "Int3", "Cpuid"):
            continue
        where = U.handler_where(facts, D, code)
        for shape in hm.shapes(code):
            inst_o = oc["inst"][shape[0]]
            allowed = {"RIP"}
            for r, a in inst_o["used_regs"]:
                allowed.add(O["registers"][r]["full"])
            for kd in oc["kinds"]:
                if kd in FIXED_KIND_REG:
                    allowed.add(O["registers"][FIXED_KIND_REG[kd]]["full"])
            outs, I = hm.run(code, shape)
            bad = None
            for o in outs:
                for e in o.path.events:
                    if e[0] == "reg_read":
                        rn = U.reg_name(facts, e[2])
                        if rn is None:
                            bad = bad or "reads a register of unknown provenance"
                        elif rn.startswith("op"):
                            continue
                        elif O["registers"].get(rn, {}).get("full") not in allowed and rn not in allowed:
                            bad = bad or "reads %s, which the instruction does not use" % rn
            n += 1
            inst = "Code=%s/%s" % (code, shape[0])
            if bad:
                ck.violation("C20.reads", inst, bad, where=where, what="result depends on a register the guest never named")
            else:
                ck.ok("C20.reads", inst)
    ck.floor("handler shapes", n, 490)
    # step itself
    outs, I, body = SM.run_step(ctx, hooks=True)
    bad = None
    for o in outs:
        for e in o.path.events:
            if e[0] == "reg_read" and U.reg_name(facts, e[2]) != "RIP":
                bad = bad or "step reads %s" % (U.reg_name(facts, e[2]) or A.show(e[2]))
    if bad:
        ck.violation("C20.reads", "api=step", bad)
    else:
        ck.ok("C20.reads", "api=step")
    # the primitives of the handler / step models: byte accessors, fetch, decoder front end, error decorators and the
    # trace / call-stack renderers build the error texts and traces. None of them may read a register other than RIP:
    # an unwritten register holds the constructor's random value. (who-may-call over the resolved call graph)
    R = ctx.roles
    from . import C08
    dn, da, fetch = R.decoders()
    roots = [R.mem_read_bytes, R.mem_write_bytes, fetch, dn, da] + C08.hint_builder(ctx)
    for nm in ("call_stack", "trace", "resolve_symbol"):
        try:
            roots.append(facts.method(AXE, nm)["path"])
        except KeyError:
            pass
    readers = {p_ for n_, p_ in R.reg_read.items()} | {R.reg_read_pub128}
    cone2 = C18.cone_of(facts, roots)
    nb = 0
    for k in sorted(cone2):
        b = facts.bodies[k]
        if b["glue"] or k in readers:
            continue
        nb += 1
        for blk in b["blocks"]:
            t = blk["term"]
            if t["k"] != "call" or F.callee_name(t) not in readers:
                continue
            a = t["args"][1] if len(t["args"]) > 1 else None
            rip = const_register(facts, b, a) == "RIP" if a is not None else False
            if not rip:
                ck.violation("C20.reads", "fn=%s" % (b["name"] or k.split("::")[-2]), "reads a register while building an error text / trace",
                             where=F.site_str(b, t["sp"]),
                             what="an unwritten register holds the constructor's random value: two identically prepared machines report different texts")
    ck.cov["error_text_cone_bodies"] = nb
    ck.floor("error-text / trace cone (bodies)", nb, 8)
    if not any(v["rule"] == "C20.reads" and v["instance"].startswith("fn=") for v in ck.violations):
        ck.ok("C20.reads", "error texts and traces", nb)
