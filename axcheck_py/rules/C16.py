"""C16 Malformed ELF input yields an error, never a crash or runaway allocation (crash/allocation surface).

C16.abort   no class-X abort on any loader path (class-D by-design rejections are counted and listed)
C16.arith   no unguarded overflow-checked arithmetic / slice bound on a header field
C16.alloc   every allocation size derived from a header field is dominated by a comparison bounding it
C16.loops   every loop of the loader is an iterator loop over a parsed table
Assumes: the `elf` crate's parsers return ParseError rather than panic (entry points listed in the evidence).
"""
from .. import absint as A
from .. import elfmodel as EM
from .. import facts as F
from .. import hmodel as H
from .. import hutil as U
from .. import panics as PN
from .rules_common import is_err


def run(ctx):
    ck, facts = ctx.check, ctx.facts
    try:
        outs, I, body, ep = EM.run_loader(ctx)
    except KeyError as e:
        ck.violation("C16.abort", "api=from_binary", str(e))
        return
    where = "%s:%d (from_binary)" % (body["span"][0], body["span"][1])
    ck.cov["loader_paths"] = len(outs)
    ck.floor("loader paths", len(outs), 100)
    # ---- aborts
    dsites = {}
    xsites = {}
    for o in outs:
        if o.kind == "panic":
            tgt = dsites if o.cls == "D" else xsites
            tgt.setdefault((o.site, o.cls, o.msg), 0)
            tgt[(o.site, o.cls, o.msg)] += 1
        if o.kind == "cut":
            ck.undecided_("C16", "api=from_binary", "analysis cut at %s (%s)" % (o.site, o.msg))
    ck.cov["by_design_rejections"] = sorted("%s %s" % (s, m) for (s, c, m) in dsites)
    if xsites:
        # key by what aborts, not by line
        kinds = {}
        for (site, cls, msg), n in xsites.items():
            kinds.setdefault("%s of %s" % (msg, callee_before(body, site)), []).append(site)
        for k, sites in sorted(kinds.items()):
            ck.violation("C16.abort", "api=from_binary", "%s abort: %s" % ("X", k), where=sorted(set(sites))[0],
                         witness={"sites": sorted(set(sites))},
                         what="an unknown p_type makes the loader abort (the lookup is unwrapped inside a debug message, dev profile)")
    else:
        ck.ok("C16.abort", "api=from_binary", len(outs))
    # ---- arithmetic on header fields
    reported = {}
    nsites = set()
    for o in outs:
        for ev, verdict, reason in PN.triage(o.path, EM.header_leaf):
            nsites.add((ev[4], ev[1], ev[2]))
            if verdict == "reported":
                reported.setdefault(PN.describe(ev), (ev, reason))
    # slice bounds and copy lengths: relational obligations (a tainted bound must be tied to the length it indexes)
    nslice = 0
    for o in outs:
        for what, x, y, strict, site, upto in EM.slice_obligations(o.path):
            nslice += 1
            nsites.add((site, "Slice", what))
            if EM.implies_le(o.path, x, y, upto, strict):
                continue
            lv = [l for l in H.leaves(EM.norm_len(x)) | H.leaves(EM.norm_len(y)) if EM.header_leaf(l)]
            if lv:
                desc = "%s: %s %s %s is not established on the path" % (what, A.show(EM.norm_len(x))[:50], "<" if strict else "<=",
                                                                        A.show(EM.norm_len(y))[:50])
                reported.setdefault(desc, (("assert", "Slice", what, {}, site), "no comparison ties the bound to the length"))
    ck.cov["slice_obligations"] = nslice
    # round_up_to_page_size may be a separate function: its assert is on its parameter; taint flows through inlining
    if reported:
        for desc, (ev, reason) in sorted(reported.items()):
            ck.violation("C16.arith", "api=from_binary", desc, where=ev[4], witness={"reason": reason},
                         what="an adversarial header field overflows (abort in this profile) instead of producing an error")
    else:
        ck.ok("C16.arith", "api=from_binary", max(len(nsites), 1))
    ck.cov["arith_sites"] = len(nsites)
    # ---- allocation taint
    abad = {}
    nalloc = 0
    for o in outs:
        for i, e in enumerate(o.path.events):
            if e[0] not in ("init_zero", "vec_alloc"):
                continue
            nalloc += 1
            size = e[2] if e[0] == "init_zero" else e[1]
            # every file-controlled quantity the size grows with needs a dominating comparison that bounds it from above
            # (against a constant, the input length, or another bounded quantity)
            x = unbounded(size, o.path)
            if x is not None:
                abad.setdefault("allocation sized by %s, which no comparison on the path bounds from above" % A.show(U.strip(x))[:60], e)
    if abad:
        for desc, e in sorted(abad.items()):
            ck.violation("C16.alloc", "api=from_binary", desc, where=where,
                         what="a huge p_memsz makes the loader attempt an allocation unrelated to the input size (process abort)")
    else:
        ck.ok("C16.alloc", "api=from_binary", max(nalloc, 1))
    ck.floor("zero-fill allocation sites seen", nalloc, 1)
    # ---- loops
    loops = I.loops_of(body)
    bl = body["blocks"]
    lbad = None
    for h, lp in loops.items():
        if not any(bl[n]["term"]["k"] == "call" and F.callee_name(bl[n]["term"]).endswith("::next") and
                   "Iterator" in (bl[n]["term"]["f"].get("def") or "") for n in lp["nodes"]):
            lbad = lbad or "free loop at %s" % F.site_str(body, bl[h]["term"]["sp"])
    if lbad:
        ck.violation("C16.loops", "api=from_binary", lbad, where=where)
    else:
        ck.ok("C16.loops", "api=from_binary", max(len(loops), 1))
    ck.cov["loader_loops"] = len(loops)
    ck.cov["elf_crate_entry_points_trusted"] = sorted(ep.elf_entry_points)
    ck.assumptions.append("the elf crate's parsers return ParseError rather than panic")
    ck.sample({"rule": "C16", "paths": len(outs), "by_design_rejections": len(dsites), "arith_sites": len(nsites),
               "alloc_sites": nalloc})


ALLOC_CAP = 1 << 40


def tainted(t, depth=0):
    """does the term depend on anything read from the file (looking through min/max/saturating results)"""
    if not isinstance(t, tuple) or not t or depth > 40:
        return False
    if EM.header_leaf(t):
        return True
    if t and t[0] in ("int", "str", "k"):
        return False
    return any(tainted(x, depth + 1) for x in t if isinstance(x, tuple))


def strip_wide(t):
    while t[0] in ("w", "cast") and isinstance(t[1], tuple):
        t = t[1]
    return t


def upper_bounds(path, t):
    """the terms U with  t <= U  (or t < U, t == U) recorded as a branch condition on the path; t may also sit inside a
    sum on the smaller side (x + c <= U bounds x; wrap-around of that sum is C16.arith's obligation)"""
    t = strip_wide(t)
    out = []
    for c in path.conds:
        ct = c[0]
        tv = U.cond_truth(c)
        if tv is None or not isinstance(ct, tuple) or ct[0] != "bin":
            continue
        op = ct[1]
        if op not in ("Lt", "Le", "Gt", "Ge", "Eq"):
            continue
        if tv == 0:
            op = {"Lt": "Ge", "Le": "Gt", "Gt": "Le", "Ge": "Lt", "Eq": None}[op]
            if op is None:
                continue
        pairs = [(ct[2], ct[3])] if op in ("Lt", "Le") else [(ct[3], ct[2])] if op in ("Gt", "Ge") else [(ct[2], ct[3]), (ct[3], ct[2])]
        for small, big in pairs:
            if addend_of(t, strip_wide(small)) and not H.mentions(big, t):
                out.append(big)
    return out


def addend_of(x, t, depth=0):
    if t == x:
        return True
    if depth < 8 and t[0] == "bin" and t[1] == "Add":
        return addend_of(x, strip_wide(t[2]), depth + 1) or addend_of(x, strip_wide(t[3]), depth + 1)
    return False


def unbounded(t, path, depth=0):
    """None if the value of t is bounded from above on this path, else the file-controlled sub-term that is not"""
    if depth > 12:
        return t
    if t[0] == "cast" and isinstance(t[-1], int) and t[-1] <= 32:
        return None
    t = strip_wide(t)
    if t[0] == "int":
        # a constant counts as a bound only when it is an allocation one may attempt (the overflow guards of checked
        # additions also compare against constants, near 2^64)
        return None if t[1] < ALLOC_CAP else t
    if not tainted(t):
        return None
    if any(unbounded(u, path, depth + 1) is None for u in upper_bounds(path, t)):
        return None
    if t[0] == "bin":
        op, a, b = t[1], t[2], t[3]
        ua = unbounded(a, path, depth + 1)
        if op in ("Sub", "Shr", "Div"):
            return ua
        ub = unbounded(b, path, depth + 1)
        if op in ("BitAnd", "Rem"):
            return None if ua is None or ub is None else ua
        return ua if ua is not None else ub
    if t[0] == "ret" and isinstance(t[2], tuple):
        us = [unbounded(a, path, depth + 1) for a in t[2] if isinstance(a, tuple)]
        if t[1] == "min":
            return None if any(u is None for u in us) else us[0]
        return next((u for u in us if u is not None), None)
    return t


def callee_before(body, site):
    """name of the crate/extern call on the same source line that produced the unwrapped value"""
    for blk in body["blocks"]:
        t = blk["term"]
        if t["k"] == "call" and F.site_str(body, t["sp"]) == site:
            n = F.callee_name(t)
            if not n.startswith(("std::option", "std::result", "core::", "std::fmt", "alloc::")):
                return n.rsplit("::", 1)[1]
    return "?"


def is_in_debug_log(facts, body, site):
    """is the aborting call inside a debug_log! expansion?"""
    for blk in body["blocks"]:
        t = blk["term"]
        if F.site_str(body, t["sp"]) == site and any("debug_log" in m for m in body["spans"][t["sp"]][3]):
            return True
    return False
