"""C02 Status flags after every instruction match hardware where defined.

C02.class   per implemented form and flag: definitely written / constant / untouched as the
            architecture says (iced rflags tables), joined over all success paths and shapes
C02.count   shift forms, all 256 counts: flags untouched iff the architecturally masked count is 0
C02.reads   the rflags bits a handler's control flow or results depend on are within iced's rflags_read
C02.setter  transfer function of the flag setters derived from their own MIR for every mask pair in use
"""
from .. import absint as A
from .. import facts as F
from .. import flags as FL
from .. import hmodel as H
from .. import hutil as U

EXCLUDED_MNEMONICS = ("Syscall", "Int", "Int1", "Int3", "Cpuid")
SHIFT_MNEMONICS = ("Shl", "Shr", "Sar", "Sal", "Rol", "Ror", "Rcl", "Rcr", "Shld", "Shrd")


def is_rflags_loc(loc):
    root, proj = loc
    names = [p[2] for p in proj if isinstance(p, tuple) and p[0] == "f"]
    return names[-1:] == ["rflags"]


def path_flag_effect(ctx, ss, I, o):
    """Per-flag set over {'old','0','1','top','other'} for one success path; None if undecided."""
    R = ctx.roles
    by_width = {n: p for p, n in R.flag_setters.items()}
    cur = {k: {"old"} for k in FL.BIT}
    used = []
    for e in o.path.events:
        if e[0] == "set_flags":
            n = e[1]
            sm = I.decide(o.path, e[2])
            cm = I.decide(o.path, e[3])
            if sm is None or cm is None:
                return None, "non-constant flag masks set=%s clear=%s" % (A.show(e[2]), A.show(e[3])), used
            s = ss.summary(by_width[n], sm, cm)
            used.append((n, sm, cm))
            if s is None:
                return None, "flag setter aborts for masks set=%#x clear=%#x" % (sm, cm), used
            for k in FL.BIT:
                cur[k] = FL.compose(cur[k], s[k])
        elif e[0] == "store" and is_rflags_loc(e[1]):
            bv = A.bitvec(e[2], o.path)
            for k, bit in FL.BIT.items():
                c = FL.bit_class(bv[bit], bit)
                cur[k] = FL.compose(cur[k], {c})
    return cur, None, used


def expected(oc_inst, flag):
    b = FL.ICED_BITS[flag]
    if oc_inst["rflags_undefined"] & b:
        return "undef"
    if oc_inst["rflags_cleared"] & b:
        return "0"
    if oc_inst["rflags_set"] & b:
        return "1"
    if oc_inst["rflags_written"] & b:
        return "W"
    return "U"


def dep_bits(t, depth=0):
    """(bits of rflags the term may depend on, is_bitwise) -- computed per result bit, so masks and shifts by constants
    keep track of which flag ends up where: ((f >> 7) ^ (f >> 11)) & 1 depends on bits 7 and 11 only"""
    pos = dep_pos(t, depth)
    out = set()
    for s_ in pos:
        out |= s_
    return out, True


def _spread(u, w):
    return [set(u) for _ in range(w)]


def dep_pos(t, depth=0):
    """per result bit (LSB first) the set of rflags bits it may depend on"""
    if not isinstance(t, tuple) or not t:
        return []
    try:
        w = A.width_of(t) or 64
    except Exception:  # noqa
        w = 64
    if depth > 40:
        return _spread(range(64), w)
    if t == H.RFLAGS:
        return [{i} for i in range(64)]
    k = t[0]
    if k == "int":
        return [set() for _ in range(w)]
    if k == "w":
        p = dep_pos(t[1], depth + 1)
        return (p + [set() for _ in range(w)])[:w] if p else [set() for _ in range(w)]
    if k == "bin":
        op, a, b = t[1], t[2], t[3]
        pa, pb = dep_pos(a, depth + 1), dep_pos(b, depth + 1)
        n = max(len(pa), len(pb), 1)
        pa = pa + [set() for _ in range(n - len(pa))]
        pb = pb + [set() for _ in range(n - len(pb))]
        if op == "BitAnd":
            out = []
            for i in range(n):
                if A.is_int(U.strip(b)) and not (U.strip(b)[1] >> i) & 1:
                    out.append(set())
                elif A.is_int(U.strip(a)) and not (U.strip(a)[1] >> i) & 1:
                    out.append(set())
                else:
                    out.append(pa[i] | pb[i])
            return out
        if op in ("BitOr", "BitXor"):
            return [pa[i] | pb[i] for i in range(n)]
        if op in ("Shr", "ShrUnchecked", "Shl", "ShlUnchecked") and A.is_int(U.strip(b)):
            kk = U.strip(b)[1]
            if op.startswith("Shr"):
                return [pa[i + kk] if i + kk < n else set() for i in range(n)]
            return [pa[i - kk] if i - kk >= 0 else set() for i in range(n)]
        u = set()
        for s_ in pa + pb:
            u |= s_
        if op in ("Eq", "Ne", "Lt", "Le", "Gt", "Ge"):
            return [u] + [set() for _ in range(7)]
        return _spread(u, n)
    if k == "un":
        p = dep_pos(t[2], depth + 1)
        if t[1] == "Not":
            return p
        u = set()
        for s_ in p:
            u |= s_
        return _spread(u, max(len(p), 1))
    if k == "cast":
        p = dep_pos(t[1], depth + 1)
        tw = t[4] if isinstance(t[4], int) else w
        fill = set(p[-1]) if p and len(t) > 3 and t[3] is True else set()
        return (p + [set(fill) for _ in range(tw)])[:tw]
    u = set()
    for x in t[1:]:
        if isinstance(x, tuple):
            for s_ in dep_pos(x, depth + 1):
                u |= s_
    return _spread(u, w)


def run(ctx):
    ck, facts, O, D, hm = ctx.check, ctx.facts, ctx.oracle, ctx.dispatch, ctx.hmodel
    ss = FL.SetterSummaries(facts, ctx.roles)
    impl = D.implemented()
    n_forms = 0
    skipped = []
    excluded = []
    n_flagwriting = 0
    for code in sorted(impl):
        oc = O["codes"][code]
        if oc["mnemonic"] in EXCLUDED_MNEMONICS:
            excluded.append(code)
            continue
        if not hm.producible(code):
            skipped.append(code)
            continue
        where = U.handler_where(facts, D, code)
        n_forms += 1
        joined = {k: set() for k in FL.BIT}
        undec = None
        is_shift = oc["mnemonic"] in SHIFT_MNEMONICS and ("imm8" in oc["kinds"] or "cl" in oc["kinds"])
        earlyouts = []
        reads = set()
        npaths = 0
        for shape in hm.shapes(code):
            outs, I = hm.run(code, shape)
            for o in outs:
                if o.kind != "return" or C_is_err(o):
                    continue
                npaths += 1
                eff, why, used = path_flag_effect(ctx, ss, I, o)
                if eff is None:
                    undec = why
                    continue
                all_old = all(v == {"old"} for k, v in eff.items() if k in FL.ARCH_FLAGS)
                if is_shift and all_old:
                    earlyouts.append((shape[0], o))
                    continue
                for k in FL.BIT:
                    joined[k] |= eff[k]
                # rflags dependence (C02.reads)
                for c in o.path.conds:
                    reads |= dep_bits(c[0])[0]
                for e in o.path.events:
                    if e[0] in ("reg_write", "mem_write"):
                        reads |= dep_bits(e[3])[0]
                    elif e[0] == "set_flags":
                        for x in e[2:5]:
                            reads |= dep_bits(x)[0]
        inst = "Code=%s" % code
        if undec:
            ck.undecided_("C02.class", inst, undec)
        exp_inst = oc["inst"]["reg"]
        any_written = False
        for fl in FL.ARCH_FLAGS + ("DF",):
            exp = expected(exp_inst, fl)
            got = joined[fl]
            if not got:
                if exp == "U" or exp == "undef":
                    ck.ok("C02.class", inst)
                else:
                    ck.violation("C02.class", inst, "flag=%s no flag-writing success path, architecture: %s" % (fl, exp),
                                 where=where)
                continue
            if got != {"old"}:
                any_written = True
            verdict = None
            if "top" in got or "other" in got:
                verdict = "flag=%s derived from an unrelated bit (%s)" % (fl, sorted(got))
            elif exp == "undef":
                pass
            elif exp == "U":
                if got != {"old"}:
                    verdict = "flag=%s modified %s, architecture leaves it unaffected" % (fl, sorted(got))
            elif exp == "0":
                if got != {"0"}:
                    verdict = "flag=%s is %s, architecture clears it" % (fl, sorted(got))
            elif exp == "1":
                if got != {"1"}:
                    verdict = "flag=%s is %s, architecture sets it" % (fl, sorted(got))
            elif exp == "W":
                if "old" in got:
                    if got == {"old"}:
                        verdict = "flag=%s never written, architecture defines it" % fl
                    else:
                        verdict = "flag=%s sticky %s: left stale on some success path, architecture defines it" % (
                            fl, sorted(got))
            if verdict:
                ck.violation("C02.class", inst, verdict, where=where,
                             witness={"flag": fl, "joined_over_paths": sorted(got), "architecture": exp,
                                      "success_paths": npaths},
                             what="status flag handling deviates from the architecture")
            else:
                ck.ok("C02.class", inst)
        if any_written:
            n_flagwriting += 1
        if len(ck.samples) < 6 and any_written:
            ck.sample({"rule": "C02.class", "instance": inst, "joined": {k: sorted(v) for k, v in joined.items()},
                       "architecture": {fl: expected(exp_inst, fl) for fl in FL.ARCH_FLAGS}})
        # ---- reads
        allowed = set()
        rr = exp_inst["rflags_read"]
        for fl, b in FL.ICED_BITS.items():
            if rr & b and fl in H.FLAG_BITS:
                allowed.add(H.FLAG_BITS[fl])
        extra = reads - allowed
        if extra:
            ck.violation("C02.reads", inst, "depends on rflags bits %s outside rflags_read" % sorted(extra), where=where,
                         witness={"depends_on_bits": sorted(reads), "architecture_reads_bits": sorted(allowed)})
        else:
            ck.ok("C02.reads", inst)
    # ---- shift counts (exhaustive sweep shared with C01/C06)
    from .. import shiftsweep as SS
    res = SS.sweep(ctx)
    for form, r in sorted(res["forms"].items()):
        where = U.handler_where(facts, D, form.split("/")[0])
        if r["flags"]:
            for desc, cs in sorted(r["flags"].items()):
                ck.violation("C02.count", "Code=" + form, "%s: counts %s" % (desc, SS.compress(cs)), where=where,
                             witness={"counts": cs, "count_mask": hex(r["mask"])},
                             what="flag handling for masked shift counts deviates from the architecture")
        else:
            ck.ok("C02.count", "Code=" + form, 256)
    ck.cov["shift_count_evaluations"] = res["evaluations"]
    # setter table
    for (setter, sm, cm), s in sorted(ss.cache.items()):
        inst = "setter=u%d set=%#x clear=%#x" % (ctx.roles.flag_setters[setter], sm, cm)
        if s is None:
            ck.violation("C02.setter", inst, "flag setter aborts for a mask pair a handler passes")
        else:
            ck.ok("C02.setter", inst)
    setter_values(ctx)
    result_agreement(ctx)
    mul_flags(ctx)
    carry_points(ctx)
    ck.cov["setter_mask_pairs"] = len(ss.cache)
    ck.cov["unproducible_skipped"] = skipped
    ck.cov["excluded_os_interface"] = excluded
    ck.cov["forms_checked"] = n_forms
    ck.cov["flag_writing_forms"] = n_flagwriting
    ck.floor("forms checked", n_forms, 290)
    ck.floor("flag-writing forms", n_flagwriting, 150)
    ck.floor("flag setters", len(ctx.roles.flag_setters), 4)


def strip_casts(t):
    while t[0] in ("w", "cast"):
        t = t[1]
    return t


def result_agreement(ctx):
    """C02.result: the value handed to the flag setter (from which ZF/SF/PF are derived) is the value the instruction
    writes, at the operand's width; for CMP/TEST (nothing written) it is congruent to d-s / d&s modulo 2^K."""
    from .. import congruence as CG
    from . import C01
    ck, facts, O, D, hm = ctx.check, ctx.facts, ctx.oracle, ctx.dispatch, ctx.hmodel
    n = 0
    for code in sorted(D.implemented()):
        oc = O["codes"][code]
        mn = oc["mnemonic"]
        if mn in EXCLUDED_MNEMONICS or not hm.producible(code) or mn in SHIFT_MNEMONICS or mn in ("Mul", "Imul", "Div", "Idiv"):
            continue
        width = C01.KIND_BITS.get(oc["kinds"][0]) if oc["kinds"] else None
        where = U.handler_where(facts, D, code)
        for shape in hm.shapes(code):
            outs, I = hm.run(code, shape)
            bad = None
            seen = False
            for o in outs:
                if o.kind != "return" or C_is_err(o):
                    continue
                sf = [e for e in o.path.events if e[0] == "set_flags"]
                if not sf:
                    continue
                sm = I.decide(o.path, sf[-1][2])
                if sm is not None and sm == 0x7FFFFFFFFFFFFFFF:
                    continue  # flags untouched on this path
                seen = True
                e = sf[-1]
                if width and e[1] != width:
                    bad = bad or "flags derived at %d bits, operand is %d bits wide" % (e[1], width)
                res = e[4]
                ws = [x for x in o.path.events if (x[0] == "reg_write" and U.reg_name(facts, x[2]) == "op0")
                      or (x[0] == "mem_write" and x[1] != "bytes" and C01.operand_of_leaf(facts, ("mem", 0, x[2], 0)) == 0)]
                if ws:
                    if strip_casts(ws[-1][3]) != strip_casts(res):
                        bad = bad or "flags derived from %s, value written is %s" % (A.show(strip_casts(res))[:50], A.show(strip_casts(ws[-1][3]))[:50])
                elif mn in ("Cmp", "Test"):
                    lv = [x for x in H.leaves(res) if x[0] in ("reg", "mem", "opimm")]
                    roles = {x: C01.operand_of_leaf(facts, x) for x in lv}
                    if any(v is None for v in roles.values()):
                        continue
                    try:
                        for a in range(CG.MOD):
                            for b in range(CG.MOD):
                                env = {}
                                for x, k in roles.items():
                                    env[x] = a if k == 0 else b
                                    env[A.W(x, 64)] = env[x]
                                got = CG.eval_mod(res, env, I, o.path)
                                want = ((a - b) if mn == "Cmp" else (a & b)) % CG.MOD
                                if got != want:
                                    bad = bad or "%s derives flags from %d (mod %d) for d=%d s=%d, architecture %d" % (mn.upper(), got, CG.MOD, a, b, want)
                                    raise StopIteration
                        # a sign-extended narrow immediate: the bits above it follow its sign (modulo 2^(N+4), at points
                        # on both sides of every boundary)
                        sexk = [kd for kd in oc["kinds"] if "sex" in kd]
                        if sexk:
                            nb = int(sexk[0][3:sexk[0].index("sex")])
                            kb = nb + 4
                            top = (1 << kb) - 1
                            for a in (0, 1, (1 << nb) - 1, 1 << nb, 0xABC % (1 << kb), top):
                                for b in (1, (1 << (nb - 1)) - 1, top & ~((1 << (nb - 1)) - 1), top, top - 0x54):
                                    env = {}
                                    for x, k in roles.items():
                                        env[x] = a if k == 0 else b
                                        env[A.W(x, 64)] = env[x]
                                    got = CG.eval_k(res, env, kb, I, o.path)
                                    want = ((a - b) if mn == "Cmp" else (a & b)) % (1 << kb)
                                    ck.cov["sign_extension_points"] = ck.cov.get("sign_extension_points", 0) + 1
                                    if got != want:
                                        bad = bad or ("%s derives flags from %#x (mod 2^%d) for d=%#x imm=%#x, architecture %#x: the "
                                                      "immediate is not sign-extended to the operand size" % (mn.upper(), got, kb, a, b, want))
                                        raise StopIteration
                    except (CG.Undecided, StopIteration):
                        pass
            if not seen:
                continue
            n += 1
            inst = "Code=%s/%s" % (code, shape[0])
            if bad:
                ck.violation("C02.result", inst, bad, where=where, what="ZF/SF/PF are derived from something other than the instruction's result")
            else:
                ck.ok("C02.result", inst)
    ck.floor("flag-result forms", n, 240)


def _muls(t, acc):
    if isinstance(t, tuple):
        if t and t[0] == "bin" and t[1] in ("Mul", "MulUnchecked", "MulOvf"):
            acc.add(t)
        for x in t:
            if isinstance(x, tuple):
                _muls(x, acc)


def mul_flags(ctx):
    """C02.mulflags: MUL / IMUL set CF = OF = 1 exactly when the full product does not fit the destination width
    (MUL: upper half non-zero; IMUL: the product is not the sign-extension of its low half). Decided per class of the
    product: the handler's own tests on the 2N-bit product term are evaluated for the products whose bits N-1..2N-1 are
    all zero, all one, and every single-bit deviation from either (MUL: upper bits zero, each single upper bit, and bit
    N-1 alone); forms that use overflowing_mul are judged on the two values of its overflow flag."""
    from . import C01
    ck, facts, O, D, hm = ctx.check, ctx.facts, ctx.oracle, ctx.dispatch, ctx.hmodel
    CF, OF = 0x1, 0x800
    n = 0
    for code in sorted(D.implemented()):
        oc = O["codes"][code]
        mn = oc["mnemonic"]
        if mn not in ("Mul", "Imul") or not hm.producible(code):
            continue
        N = C01.KIND_BITS.get(oc["kinds"][0])
        where = U.handler_where(facts, D, code)
        signed = mn == "Imul"
        for shape in hm.shapes(code):
            inst = "Code=%s/%s" % (code, shape[0])
            outs, I = hm.run(code, shape)
            rets = [o for o in outs if o.kind == "return" and not C_is_err(o)]
            prods = set()
            for o in rets:
                for c in o.path.conds:
                    _muls(c[0], prods)
                for e in o.path.events:
                    if e[0] == "set_flags":
                        _muls(e[2], prods)
                        _muls(e[3], prods)
            wide = [t for t in prods if t[1] != "MulOvf" and t[4] == 2 * N]
            ovf = [t for t in prods if t[1] == "MulOvf"]
            bad = None
            und = None

            def verdict(o, env):
                sf = [e for e in o.path.events if e[0] == "set_flags"]
                if not sf:
                    return None
                st, cl = I.decide(o.path, sf[-1][2]), I.decide(o.path, sf[-1][3])
                if st is None:
                    st = U.eval_term(sf[-1][2], env, o.path)
                if cl is None:
                    cl = U.eval_term(sf[-1][3], env, o.path)
                if st is None or cl is None:
                    return None
                if st & CF and st & OF:
                    return 1
                if cl & CF and cl & OF and not st & (CF | OF):
                    return 0
                return "mixed"
            if len(wide) == 1:
                P = wide[0]
                if signed:
                    reps = []
                    top = ((1 << (N + 1)) - 1) << (N - 1)
                    low = 0x5A5A5A5A5A5A5A5A5A5A & ((1 << (N - 1)) - 1)
                    reps.append((low, 0))
                    reps.append((top | low, 0))
                    for i in range(N - 1, 2 * N):
                        reps.append((low | (1 << i), 1))
                        reps.append(((top | low) & ~(1 << i), 1))
                else:
                    low = 0x5A5A5A5A5A5A5A5A5A5A & ((1 << N) - 1)
                    reps = [(low, 0), (low | (1 << (N - 1)), 0), (0, 0)]
                    for i in range(N, 2 * N):
                        reps.append((low | (1 << i), 1))
                for v, want in reps:
                    env = {P: v}
                    got = set()
                    for o in rets:
                        consistent = True
                        for c in o.path.conds:
                            if not H.mentions(c[0], P):
                                continue
                            g = U.eval_term(c[0], env, o.path)
                            if g is None:
                                und = und or "a test on the product cannot be evaluated: %s" % A.show(c[0])[:60]
                                continue
                            if (c[1] == "==" and g != c[2]) or (c[1] == "!=" and g in c[2]):
                                consistent = False
                                break
                        if consistent:
                            got.add(verdict(o, env))
                    got.discard(None)
                    if not got:
                        und = und or "no path decides CF/OF for product %#x" % v
                    elif got != {want}:
                        bad = bad or "product %#x (%s): CF/OF %s, architecture %s" % (
                            v, "does not fit" if want else "fits", sorted(got, key=str), "set" if want else "cleared")
                ck.cov["mul_product_classes"] = ck.cov.get("mul_product_classes", 0) + len(reps)
            elif len(ovf) == 1 and not wide:
                t = ovf[0]
                if A.width_of(t[2]) != N or bool(rets and rets[0].path.tags.get(("signed", t))) != signed:
                    # the tag lives on whichever path built the term; look on all
                    sg = any(o.path.tags.get(("signed", t)) for o in rets)
                    if A.width_of(t[2]) != N or sg != signed:
                        bad = bad or "overflow flag of a %d-bit %s multiplication, architecture %d-bit %s" % (
                            A.width_of(t[2]), "signed" if sg else "unsigned", N, "signed" if signed else "unsigned")
                for o in rets:
                    d = I.decide(o.path, t)
                    if d is None:
                        continue
                    v = verdict(o, {})
                    if v is not None and v != d:
                        bad = bad or "overflow = %d: CF/OF %s" % (d, v)
            else:
                und = "no single 2N-bit product or overflow flag found (%d wide products, %d overflow flags)" % (len(wide), len(ovf))
            n += 1
            if bad:
                ck.violation("C02.mulflags", inst, bad, where=where, what="CF/OF of a multiplication do not tell whether the product fits")
            elif und:
                ck.undecided_("C02.mulflags", inst, und)
            else:
                ck.ok("C02.mulflags", inst)
    ck.floor("MUL/IMUL forms x shapes", n, 30)


def setter_values(ctx):
    """C02.setter.zsp: for every flag setter (width N) and every result value of a finite class family that covers all
    cases ZF, SF and PF distinguish (all 256 low bytes x {upper bits clear, only the sign bit, one middle bit}), the setter
    is interpreted with the result fixed: ZF <=> result == 0, SF <=> bit N-1, PF <=> even parity of the low byte.
    For the 8-bit setter the enumeration is the complete domain."""
    from .. import prims as P
    ck, facts, R = ctx.check, ctx.facts, ctx.roles
    SETM = 0x4 | 0x40 | 0x80  # PF | ZF | SF requested, nothing else
    total = 0
    for setter, n in sorted(R.flag_setters.items(), key=lambda kv: kv[1]):
        body = facts.bodies[setter]
        uppers = [0] if n == 8 else [0, 1 << (n - 1), 1 << (n - 2), (1 << (n - 1)) | (1 << 8)]
        bad = None
        cnt = 0
        for up in uppers:
            for low in range(256):
                val = (up | low) & ((1 << n) - 1)
                I = A.Interp(facts)
                I.widen_at = 12
                I.concrete_ranges = True
                outs = list(I.run(body, [P.self_ref(), A.INT(SETM, 64), A.INT(0, 64), A.INT(val, n)], A.Path()))
                rets = [o for o in outs if o.kind == "return"]
                cnt += 1
                if len(rets) != 1 or len(outs) != 1:
                    bad = bad or "result=%#x: %d outcomes (%s)" % (val, len(outs), [repr(o) for o in outs][:2])
                    continue
                v = I.read_loc(rets[0].path, FL.RFLAGS_LOC)
                bv = A.bitvec(v, rets[0].path)
                zf, sf, pf = bv[6], bv[7], bv[2]
                wz = 1 if val == 0 else 0
                wsf = (val >> (n - 1)) & 1
                wpf = 1 if bin(val & 0xFF).count("1") % 2 == 0 else 0
                if (zf, sf, pf) != (wz, wsf, wpf):
                    bad = bad or "result=%#x: ZF,SF,PF = %s,%s,%s, architecture %d,%d,%d" % (val, zf, sf, pf, wz, wsf, wpf)
        total += cnt
        inst = "setter=u%d" % n
        if bad:
            ck.violation("C02.setter.zsp", inst, bad, where="%s:%d" % (body["span"][0], body["span"][1]),
                         what="zero / sign / parity flag derived wrongly from the result")
        else:
            ck.ok("C02.setter.zsp", inst, cnt)
    ck.cov["setter_value_evaluations"] = total


CARRY_REF = ("Add", "Adc", "Sub", "Sbb", "Cmp", "Neg", "Inc", "Dec")


def arch_carry(mn, d, s, cin, n):
    """(result, CF or None when unaffected, OF) of the arithmetic instruction on n-bit operands"""
    m = (1 << n) - 1
    sg = lambda v: v - (1 << n) if v >> (n - 1) else v
    if mn in ("Add", "Adc", "Inc"):
        s_ = 1 if mn == "Inc" else s
        c_ = cin if mn == "Adc" else 0
        full = d + s_ + c_
        sfull = sg(d) + sg(s_) + c_
        return full & m, (None if mn == "Inc" else int(full > m)), int(not (-(1 << (n - 1)) <= sfull < (1 << (n - 1))))
    if mn == "Neg":
        d, s = 0, d
    s_ = 1 if mn == "Dec" else s
    c_ = cin if mn == "Sbb" else 0
    full = d - s_ - c_
    sfull = sg(d) - sg(s_) - c_
    cf = None if mn == "Dec" else int(full < 0)
    return full & m, cf, int(not (-(1 << (n - 1)) <= sfull < (1 << (n - 1))))


def carry_points(ctx):
    """C02.carry: CF and OF of the additive instructions, evaluated with the operands fixed at the points where carries and
    signed overflows begin and end (0, 1, the largest positive, the most negative value, -1, for both operands and both
    incoming carries): the handler's own flag computation is interpreted on constants and compared with the architectural
    definition. Exhaustive for the classes the *architecture* distinguishes (operand signs x carry into the top bit x
    carry-in); an implementation that goes wrong only strictly inside a class is not seen."""
    import os
    import json
    from .. import shiftsweep as SS
    from . import C01
    ck, facts, O, D, hm = ctx.check, ctx.facts, ctx.oracle, ctx.dispatch, ctx.hmodel
    cache = os.path.join(F.CACHE, "sweeps")
    os.makedirs(cache, exist_ok=True)
    cp = os.path.join(cache, "carry-%s-%s.json" % (facts.tree, SS.checker_hash()))
    if os.path.exists(cp):
        with open(cp) as fh:
            res = json.load(fh)
    else:
        res = {}
        for code in sorted(D.implemented()):
            oc = O["codes"][code]
            mn = oc["mnemonic"]
            if mn not in CARRY_REF or not hm.producible(code) or not oc["kinds"]:
                continue
            n = C01.KIND_BITS.get(oc["kinds"][0])
            if n not in (8, 16, 32, 64):
                continue
            shapes = [sh for sh in hm.shapes(code) if sh[0] == "reg"] or hm.shapes(code)[:1]
            label, kinds, spec = shapes[0]
            m = (1 << n) - 1
            pts = [0, 1, (1 << (n - 1)) - 1, 1 << (n - 1), m]
            unary = mn in ("Neg", "Inc", "Dec")
            # immediates: the values the form can encode, sign-extended to the operand size
            sk = oc["kinds"][1] if len(oc["kinds"]) > 1 else ""
            spts = pts
            if "imm" in sk:
                ib = int("".join(ch for ch in sk[3:5] if ch.isdigit()) or 8)
                ib = min(ib, n)
                spts = sorted({0, 1, (1 << (ib - 1)) - 1, (m & ~((1 << (ib - 1)) - 1)) if "sex" in sk or ib == n else 1 << (ib - 1), m if ("sex" in sk or ib == n) else (1 << ib) - 1})
            bad = []
            npts = 0
            und = None
            for cin in ((0, 1) if mn in ("Adc", "Sbb") else (0,)):
                for dv in pts:
                    for sv in ([0] if unary else spts):
                        assume = {}
                        spec2 = dict(spec)
                        ok_shape = True
                        for k_, val in ((0, dv), (1, sv)):
                            sp_ = spec.get(k_)
                            if sp_ is None:
                                continue
                            if sp_[0] == "R":
                                w_ = C01.KIND_BITS.get(oc["kinds"][k_], n)
                                assume[("reg", w_, ("opreg", k_), 0)] = [(val >> i_) & 1 for i_ in range(64)]
                            elif sp_[0] == "I":
                                spec2[k_] = ("IC", sp_[1], val)
                            else:
                                ok_shape = False
                        if not ok_shape:
                            continue
                        outs, I = hm.run(code, (label, kinds, spec2), flags={"CF": cin}, assume=assume)
                        want = arch_carry(mn, dv, sv, cin, n)
                        for o in outs:
                            if o.kind != "return" or C_is_err(o):
                                continue
                            cf, of = cin, None
                            for e in o.path.events:
                                if e[0] == "set_flags":
                                    sm, cm = I.decide(o.path, e[2]), I.decide(o.path, e[3])
                                    if sm is None or cm is None:
                                        cf = of = "?"
                                        break
                                    if sm == 0x7FFFFFFFFFFFFFFF:
                                        continue
                                    cf = 1 if sm & 1 else (0 if cm & 1 else cf)
                                    of = 1 if sm & 0x800 else (0 if cm & 0x800 else of)
                            npts += 1
                            if cf == "?" or of is None:
                                und = und or "flag masks are not constants at d=%#x s=%#x" % (dv, sv)
                                continue
                            if want[1] is not None and cf != want[1]:
                                bad.append("CF=%d for d=%#x s=%#x cf=%d, architecture %d" % (cf, dv, sv, cin, want[1]))
                            if of != want[2]:
                                bad.append("OF=%d for d=%#x s=%#x cf=%d, architecture %d" % (of, dv, sv, cin, want[2]))
            res[code] = {"bad": bad[:6], "nbad": len(bad), "points": npts, "und": und}
        tmp = cp + ".tmp%d" % os.getpid()
        with open(tmp, "w") as fh:
            json.dump(res, fh)
        os.replace(tmp, cp)
    nforms = 0
    for code, r in sorted(res.items()):
        where = U.handler_where(facts, D, code)
        inst = "Code=%s" % code
        if r["nbad"]:
            ck.violation("C02.carry", inst, "%s (%d of %d points)" % (r["bad"][0], r["nbad"], r["points"]), where=where,
                         witness={"points": r["bad"]}, what="carry / overflow flag of an addition or subtraction deviates from the architecture")
            nforms += 1
        elif r["points"] and not r["und"]:
            ck.ok("C02.carry", inst, r["points"])
            nforms += 1
        else:
            ck.undecided_("C02.carry", inst, r["und"] or "no point evaluated")
    ck.cov["carry_point_evaluations"] = sum(r["points"] for r in res.values())
    ck.floor("additive forms with CF/OF evaluated at the boundary points", nforms, 85)


def C_is_err(o):
    v = o.value
    return v is not None and v[0] == "agg" and v[1] == A.RESULT and v[2] == 1


def early_guard(o):
    """mask m such that the path assumed (count & m) == 0 with count an operand/register leaf; None if absent"""
    for t, op, val in o.path.conds:
        if t[0] == "bin" and t[1] in ("Eq", "Ne") and A.is_int(t[3]) and t[3][1] == 0:
            truth = (val == 1) if op == "==" else True
            if t[1] == "Ne":
                truth = not truth
            if not truth:
                continue
            bv = A.bitvec(t[2], A.Path())  # structural: without the path's own facts
            m = 0
            src = None
            ok = True
            for i, b in enumerate(bv):
                if b == 0:
                    continue
                if b is None or b == 1:
                    ok = False
                    break
                if b[1] != i or b[2]:
                    ok = False
                    break
                src = b[0]
                m |= 1 << i
            if ok and m and src is not None and src[0] in ("opimm", "reg"):
                return m
    return None
