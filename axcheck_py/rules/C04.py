"""C04 PUSH/POP/CALL/RET use RSP and stack memory like hardware.

C04.slot   each stack access is at the architectural offset from the entry RSP (iced used_memory)
C04.rsp    RSP := entry RSP + stack_pointer_increment on every success path
C04.value  CALL stores the return address (RIP after the pre-advance); PUSH stores its operand
C04.only   no other memory store on a success path
C04.empty  RET's top-level sentinel compares the address of the slot it would read
"""
from .. import absint as A
from .. import hmodel as H
from .. import hutil as U

STACK_MNEMONICS = ("Push", "Pop", "Call", "Ret")


def affine(facts, t):
    """term -> (base leaf or None, signed offset) for RSP-relative addresses, else None"""
    t = U.strip(t)
    off = 0
    while t[0] == "bin" and t[1] in ("Add", "Sub") and A.is_int(t[3]):
        k = t[3][1]
        if k >= 1 << 63:
            k -= 1 << 64
        off += k if t[1] == "Add" else -k
        t = U.strip(t[2])
    if t[0] == "reg" and t[1] == 64:
        return U.reg_name(facts, t[2]), off, t[3]
    return None


def signed64(v):
    return v - (1 << 64) if v >= 1 << 63 else v


def is_err(o):
    v = o.value
    return v is not None and v[0] == "agg" and v[1] == A.RESULT and v[2] == 1


def fmt_off(o):
    return "R0%+d" % o if o else "R0+0"


def run(ctx):
    ck, facts, O, D, hm = ctx.check, ctx.facts, ctx.oracle, ctx.dispatch, ctx.hmodel
    impl = D.implemented()
    codes = sorted(c for c in impl if O["codes"][c]["mnemonic"] in STACK_MNEMONICS)
    skipped = []
    n = 0
    for code in codes:
        oc = O["codes"][code]
        if not hm.producible(code):
            skipped.append(code)
            continue
        where = U.handler_where(facts, D, code)
        shapes = hm.shapes(code)
        for shape in shapes:
            label = shape[0]
            inst = "Code=%s/%s" % (code, label) if len(shapes) > 1 else "Code=%s" % code
            inst_o = oc["inst"][label]
            outs, I = hm.run(code, shape)
            rets = [o for o in outs if o.kind == "return" and not is_err(o)]
            if not rets:
                ck.undecided_("C04", inst, "no success path (C01.operands reports it)")
                continue
            n += 1
            spinc = inst_o["sp_inc"]
            exp_mem = [m for m in inst_o["used_mem"] if m["base"] == "RSP"]
            slot_bad = rsp_bad = val_bad = only_bad = None
            for o in rets:
                accesses = []
                for e in o.path.events:
                    if e[0] in ("mem_write", "mem_read") and e[1] != "bytes":
                        af = affine(facts, e[2])
                        if af is not None and af[0] == "RSP":
                            accesses.append((e[0], e[1], af[1], af[2], e))
                        elif e[0] == "mem_write":
                            a = U.strip(e[2])
                            if not (a[0] == "addr" and a[1][0] == "opmem"):
                                only_bad = only_bad or "store at %s" % A.show(a)
                for m in exp_mem:
                    kind = "mem_write" if m["access"] == "Write" else "mem_read"
                    bits = {"UInt64": 64, "UInt16": 16, "UInt32": 32}.get(m["size"])
                    want = signed64(m["disp"])
                    got = [a for a in accesses if a[0] == kind]
                    if len(got) != 1:
                        slot_bad = slot_bad or "%d stack %ss on a success path" % (len(got), kind[4:])
                        continue
                    g = got[0]
                    if g[3] != 0:
                        slot_bad = slot_bad or "stack address uses RSP after it was modified"
                    elif g[2] != want or g[1] != bits:
                        slot_bad = slot_bad or "%s_%d@%s, architecture %s_%s@%s" % (
                            "store" if kind == "mem_write" else "load", g[1], fmt_off(g[2]),
                            "store" if kind == "mem_write" else "load", bits, fmt_off(want))
                    # stored value
                    if kind == "mem_write":
                        v = U.strip(g[4][3])
                        if oc["mnemonic"] == "Call":
                            if not (v[0] == "reg" and v[1] == 64 and U.reg_name(facts, v[2]) == "RIP"):
                                val_bad = val_bad or "CALL stores %s, not RIP (the return address)" % A.show(v)
                        elif oc["mnemonic"] == "Push":
                            lv = H.leaves(g[4][3])
                            okv = all((x[0] == "reg" and x[2] == ("opreg", 0)) or (x[0] == "mem") or x[0] == "opimm"
                                      or (x[0] == "ret" and "immediate" in x[1]) for x in lv)
                            if not okv:
                                val_bad = val_bad or "PUSH stores %s" % A.show(v)
                            # the pushed operand is read on the entry state (PUSH RSP pushes the old RSP, push [rsp+8] reads
                            # through the old RSP): register / address / memory versions must be the entry versions
                            for x in lv:
                                if x[0] == "reg" and x[3] != 0:
                                    val_bad = val_bad or "PUSH reads its operand after RSP was already changed"
                                if x[0] == "mem" and (x[3] != 0 or (U.strip(x[2])[0] == "addr" and U.strip(x[2])[2] != 0)):
                                    val_bad = val_bad or "PUSH reads its memory operand after the stack was already changed"
                    else:
                        # the loaded value must reach its destination unchanged
                        pass
                # RSP update
                ws = [e for e in o.path.events if e[0] == "reg_write" and U.reg_name(facts, e[2]) == "RSP"]
                if len(ws) != 1:
                    rsp_bad = rsp_bad or "%d RSP writes on a success path" % len(ws)
                else:
                    af = affine(facts, ws[0][3])
                    if af is None or af[0] != "RSP" or af[2] != 0:
                        rsp_bad = rsp_bad or "RSP := %s" % A.show(ws[0][3])
                    elif af[1] != spinc:
                        rsp_bad = rsp_bad or "RSP := %s, architecture %s" % (fmt_off(af[1]), fmt_off(spinc))
                extra_w = [a for a in accesses if a[0] == "mem_write"]
                if len(extra_w) > len([m for m in exp_mem if m["access"] == "Write"]):
                    only_bad = only_bad or "%d stack stores" % len(extra_w)
            for rule, bad in (("C04.slot", slot_bad), ("C04.rsp", rsp_bad), ("C04.value", val_bad), ("C04.only", only_bad)):
                if bad:
                    ck.violation(rule, inst, bad, where=where,
                                 what="stack access deviates from the hardware convention" if rule == "C04.slot" else bad)
                else:
                    ck.ok(rule, inst)
            if len(ck.samples) < 8:
                ck.sample({"rule": "C04.slot", "instance": inst, "architecture": exp_mem, "sp_inc": spinc,
                           "observed": [U.show_event(facts, e) for e in rets[0].path.events
                                        if e[0] in ("mem_write", "mem_read", "reg_write")]})
            # ---- RET sentinel
            if oc["mnemonic"] == "Ret":
                errs = [o for o in outs if o.kind == "return" and is_err(o)]
                sentinel(ctx, inst, rets, errs, where)
    ck.cov["stack_codes"] = codes
    ck.cov["unproducible_skipped"] = skipped
    ck.floor("stack handler shapes", n, 13)


def sentinel(ctx, inst, rets, errs, where):
    """the address compared with stack_top on the finish path == the address the success path loads from"""
    ck, facts = ctx.check, ctx.facts
    cmp_addr = None
    from .. import hmodel as H
    for o in rets + errs:
        for t, op, val in o.path.conds:
            if t[0] == "bin" and t[1] in ("Eq", "Ne"):
                # any spelling of `address == stack_top`: lhs - rhs is  +-(reg + k - stack_top)
                d = U.affine_norm(("bin", "Sub", t[2], t[3], 64))
                tops = [l for l in d[0] if U.strip(l)[0] == "field" and U.strip(l)[2] == "stack_top"]
                regs = [l for l in d[0] if U.strip(l)[0] == "reg" and U.strip(l)[1] == 64]
                if len(tops) == 1 and len(regs) == 1 and len(d[0]) == 2 and d[0][tops[0]] == -d[0][regs[0]] and abs(d[0][regs[0]]) == 1:
                    k = signed64(d[1]) * d[0][regs[0]]
                    r = U.strip(regs[0])
                    cmp_addr = (U.reg_name(facts, r[2]), k, r[3])
    load = None
    for o in rets:
        for e in o.path.events:
            if e[0] == "mem_read":
                load = affine(facts, e[2])
    # the normal-finish signal is raised only on paths where that comparison holds: any other RET that ends execution
    # swallows a return (it neither loads RIP nor moves RSP) and reports success
    adt = facts.adts.get("helpers::errors::AxError")
    fi = [f_["name"] for f_ in adt["variants"][0]["fields"]].index("signals_normal_finish") if adt else None
    stray = None
    nfin = 0
    for o in errs:
        sig = False
        stack = [o.value]
        while stack:
            x = stack.pop()
            if isinstance(x, tuple) and x:
                if x[0] == "agg" and x[1] == "adt:helpers::errors::AxError" and fi is not None and len(x[3]) > fi:
                    f_ = x[3][fi]
                    sig = sig or (A.is_int(f_) and f_[1] == 1)
                stack.extend(y for y in x if isinstance(y, tuple))
        if not sig:
            continue
        nfin += 1
        held = False
        for t, op, val in o.path.conds:
            if t[0] == "bin" and t[1] in ("Eq", "Ne"):
                d = U.affine_norm(("bin", "Sub", t[2], t[3], 64))
                if any(U.strip(l)[0] == "field" and U.strip(l)[2] == "stack_top" for l in d[0]):
                    truth = (val != 0) if op == "==" else True
                    if truth == (t[1] == "Eq"):
                        held = True
        if not held:
            stray = stray or "execution is ended (normal-finish signal) on a path where the return slot was not compared equal to stack_top"
    if stray:
        ck.violation("C04.empty", inst + ",finish", stray, where=where,
                     what="a RET that should pop and jump ends the run instead: RSP and RIP stay, the run reports success")
    elif nfin:
        ck.ok("C04.empty", inst + ",finish", nfin)
    if cmp_addr is None:
        ck.violation("C04.empty", inst, "no comparison with stack_top", where=where)
    elif load is None or cmp_addr[:2] != load[:2]:
        ck.violation("C04.empty", inst, "sentinel compares %s, load is at %s" % (cmp_addr, load), where=where)
    else:
        ck.ok("C04.empty", inst)
