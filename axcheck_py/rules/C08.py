"""C08 Guest memory is a consistent little-endian byte store with strict bounds.

C08.bounds     A7: area bytes are touched only when start <= address and address+len <= end, and every in-range
               request is served (all weak orderings of the four endpoints)
C08.atomic     no error exit after the first store to area bytes
C08.le         typed accessors: byte count N/8, from_le_bytes/to_le_bytes of uN, caller's address unchanged
C08.total      no unguarded overflow-checked arithmetic on API parameters / area fields in the memory API
C08.invariant  MemoryArea.length == data.len() wherever an area is built or resized
"""
from .. import absint as A
from .. import facts as F
from .. import hutil as U
from .. import memmodel as M
from .. import panics as PN
from .. import prims as P
from .rules_common import is_err
from . import C09

AXE = "axecutor::Axecutor"


def run(ctx):
    bounds(ctx)
    atomic(ctx)
    read_value(ctx)
    typed_atomic(ctx)
    little_endian(ctx)
    total(ctx)
    invariant(ctx)


def orderings(with_ne=True):
    items = ["ns", "ne", "os", "oe"] if with_ne else ["ns", "os", "oe"]
    out = []
    for o in M.weak_orderings(items):
        if o["os"] > o["oe"]:
            continue
        if with_ne and o["ns"] > o["ne"]:
            continue
        out.append(o)
    return out


def bounds(ctx):
    ck = ctx.check
    total_o = 0
    for api, body, bit, mkargs, extents in C09.accessor_specs(ctx):
        where = "%s:%d (%s)" % (body["span"][0], body["span"][1], body["name"])
        with_ne = bool(extents)
        unsound = []
        spurious = []
        undecided = []
        for o in orderings(with_ne):
            outs, unroled, _ = C09.run_accessor(ctx, body, mkargs(), extents, order=o, mask=7)
            total_o += 1
            cuts = [x for x in outs if x.kind == "cut"]
            touched = [x for x in outs if x.kind == "return" and not is_err(x) and C09.data_events(x)]
            any_touch = [x for x in outs if C09.data_events(x)]
            if with_ne:
                inside = o["os"] <= o["ns"] and o["ne"] <= o["oe"]
                must = o["os"] <= o["ns"] < o["oe"] and o["ne"] <= o["oe"]
            else:
                inside = o["os"] <= o["ns"] < o["oe"]
                must = inside
            if unroled:
                undecided.append((M.fmt_order(o), unroled[0]))
            if any_touch and not inside:
                unsound.append(M.fmt_order(o))
            if must and not touched:
                spurious.append(M.fmt_order(o))
        inst = "api=%s" % api
        if unsound:
            ck.violation("C08.bounds", inst, "area bytes touched out of range under %d orderings (first: %s)" % (
                len(unsound), unsound[0]), where=where, witness={"orderings": unsound},
                what="bounds check admits an access outside [start, start+length)")
        else:
            ck.ok("C08.bounds", inst + ",sound")
        if spurious:
            ck.violation("C08.bounds", inst, "in-range request rejected under %d orderings (first: %s)" % (
                len(spurious), spurious[0]), where=where, witness={"orderings": spurious},
                what="bounds check rejects an access inside the area")
        else:
            ck.ok("C08.bounds", inst + ",complete")
        for u in undecided[:1]:
            ck.undecided_("C08.bounds", inst, "comparison outside the endpoint roles: %s" % (u,))
    ck.cov["orderings_evaluated"] = total_o
    ck.cov["exhaustive"] = True
    ck.sample({"rule": "C08.bounds", "orderings": total_o,
               "roles": "ns=address ne=address+len os=area.start oe=area.start+area.length"})
    ck.floor("orderings evaluated", total_o, 60)


def atomic(ctx):
    ck = ctx.check
    for api, body, bit, mkargs, extents in C09.accessor_specs(ctx):
        if api != "mem_write_bytes":
            continue
        where = "%s:%d (%s)" % (body["span"][0], body["span"][1], body["name"])
        outs, _, _ = C09.run_accessor(ctx, body, mkargs(), extents, mask=7)
        bad = None
        nstore = 0
        for o in outs:
            de = [e for e in C09.data_events(o) if e[0] in ("mutcall", "store")]
            if de:
                nstore += 1
                if o.kind == "return" and is_err(o):
                    bad = bad or "error return after area bytes were modified"
                if o.kind == "panic" and o.cls in ("D",):
                    bad = bad or "rejection after area bytes were modified"
        if nstore == 0:
            bad = bad or "no store to area bytes found"
        if bad:
            ck.violation("C08.atomic", "api=" + api, bad, where=where)
        else:
            ck.ok("C08.atomic", "api=" + api)


def resolve_minmax(t, I, path, depth=0):
    """min(a, b) / max(a, b) replaced by the operand the ordering class selects"""
    if not isinstance(t, tuple) or depth > 40:
        return t
    if t and t[0] == "ret" and t[1] in ("min", "max") and isinstance(t[2], tuple) and len(t[2]) == 2:
        a, b = (resolve_minmax(x, I, path, depth + 1) for x in t[2])
        d = I.decide(path, I.binop(path, "Le", a, b, 8, False))
        if d is not None:
            lo, hi = (a, b) if d else (b, a)
            return lo if t[1] == "min" else hi
        return ("ret", t[1], (a, b), t[3]) if len(t) > 3 else ("ret", t[1], (a, b))
    return tuple(resolve_minmax(x, I, path, depth + 1) if isinstance(x, tuple) else x for x in t)


def read_value(ctx):
    """C08.value: what mem_read_bytes hands back, as a byte-sequence expression: on every success path it is one piece of
    the data of the area that contains the address, from offset address - start, `length` bytes long -- not bytes stitched
    together from several places (seeded change S77 continued a read into the adjacent area)."""
    from .. import seqmodel as SQ
    ck, facts, R = ctx.check, ctx.facts, ctx.roles
    body = facts.bodies[R.mem_read_bytes]
    where = "%s:%d (%s)" % (body["span"][0], body["span"][1], body["name"])
    ADDR, LEN = A.W(("address",), 64), A.W(("length",), 64)
    atom = lambda v: v[0] == "field" and v[2] == "data"
    bad = None
    nok = 0
    und = None
    for o_ in orderings(True):
        if not (o_["os"] <= o_["ns"] < o_["oe"] and o_["ns"] < o_["ne"]):
            continue  # the address lies inside the area; whether a request reaching beyond it may succeed is C08.bounds'
            # business, but whatever is returned is still one piece of that area
        mp = M.MemPrims(facts)
        sm = SQ.SeqMapPrims(facts, (), (), chain=mp.intercept, atom_pred=atom)
        I = A.Interp(facts, intercept=sm.intercept, max_paths=20000)
        roles = M.EndpointRoles(("address",), [("length",)])
        I.cmp_oracle = M.make_cmp_oracle(roles, [])
        path = A.Path()
        path.tags["order"] = o_
        try:
            outs = list(I.run(body, [P.self_ref(False), ADDR, LEN], path))
        except Exception as e:  # noqa
            und = und or "interpretation failed: %s" % e
            continue
        for o in outs:
            if o.kind != "return" or is_err(o):
                continue
            v = resolve_minmax(o.value[3][0], I, o.path)
            nf = SQ.normal_form(v) if SQ.is_seq(SQ.strip(v), atom) else None
            if nf is None:
                und = und or "returned value is not a sequence expression the model can read: %s" % A.show(v)[:60]
                continue
            nok += 1
            if len(nf) != 1 or not atom(SQ.strip(nf[0][0])):
                bad = bad or "returns %s, expected one piece of the containing area's data" % SQ.show_nf(nf)
                continue
            if not o_["ne"] <= o_["oe"]:
                continue  # offset / length are judged for requests inside the area
            a_, lo, hi = nf[0]
            start = ("field", SQ.strip(a_)[1], "start")
            want_lo = U.affine_norm(("bin", "Sub", ADDR, start, 64))
            want_len = U.affine_norm(LEN)
            got_len = SQ.aff_add(hi, [{k: -c for k, c in lo[0].items()}, (-lo[1]) % (1 << 64)])
            if [dict(lo[0]), lo[1]] != [dict(want_lo[0]), want_lo[1]]:
                bad = bad or "returns bytes from offset %s of the area, expected address - start" % SQ.show_aff(lo)
            elif [dict(got_len[0]), got_len[1]] != [dict(want_len[0]), want_len[1]]:
                bad = bad or "returns %s bytes, expected `length`" % SQ.show_aff(got_len)
    inst = "api=%s" % body["name"]
    if bad:
        ck.violation("C08.value", inst, bad, where=where, what="a read does not return the bytes stored at the requested addresses")
    elif nok and not und:
        ck.ok("C08.value", inst, nok)
    else:
        ck.undecided_("C08.value", inst, und or "no success path")
    ck.cov["read_value_paths"] = nok


def typed_atomic(ctx):
    """C08.atomic for the typed writers: interpreted with the byte store able to refuse, no path on which a part of the value
    has been handed to the byte store ends with a refusal (a store split in two gated halves commits the first half and then
    fails on the second: seeded change S59)"""
    ck, facts, R = ctx.check, ctx.facts, ctx.roles
    ADDR = A.W(("address",), 64)
    seen = set()
    writers = [(b_, p_) for b_, p_ in sorted(R.mem_write.items())] + [(129, getattr(R, "mem_write_pub128", None))]
    for bits, pth in writers:
        if pth is None or pth in seen or pth not in facts.bodies:
            continue
        seen.add(pth)
        body = facts.bodies[pth]
        pr = P.HandlerPrims(facts, R)
        pr.mem_fail_paths = True
        pr.normalize_le = False
        # the function under analysis is a primitive of the handler model itself: let it run, intercept what it calls
        own = pth

        def icpt(I, path, frame, t, name, args, pr=pr, own=own):
            if name == own and frame.depth == 0:
                return None
            return pr.intercept(I, path, frame, t, name, args)
        I = A.Interp(facts, intercept=icpt)
        DATA = A.W(("data",), 128 if bits >= 128 else 64)
        try:
            outs = list(I.run(body, [P.self_ref(True), ADDR, DATA], A.Path()))
        except Exception as e:  # noqa
            ck.undecided_("C08.atomic", "api=%s" % body["name"], "interpretation failed: %s" % e)
            continue
        bad = None
        nfail = 0
        for o in outs:
            if o.kind != "return" or not is_err(o):
                continue
            evs = o.path.events
            fi = [i for i, e in enumerate(evs) if e[0] == "mem_fault"]
            if not fi:
                continue
            nfail += 1
            if any(e[0] == "mem_write" for e in evs[:fi[-1]]):
                bad = bad or "part of the value is stored before a later part of the same store is refused"
        inst = "api=%s" % body["name"]
        if bad:
            ck.violation("C08.atomic", inst, bad, where="%s:%d (%s)" % (body["span"][0], body["span"][1], body["name"]),
                         what="a refused store has already changed memory")
        elif nfail:
            ck.ok("C08.atomic", inst, nfail)
        else:
            ck.undecided_("C08.atomic", inst, "no refusal path found")


def little_endian(ctx):
    """typed accessors against the byte store, by bit provenance: the reader's value has byte i of the N/8 bytes read at
    the caller's address in bits 8i..8i+7 and zeroes above; the writer hands the byte store N/8 bytes at the caller's
    address, byte i being bits 8i..8i+7 of the value. Independent of which conversions spell it."""
    ck, facts, R = ctx.check, ctx.facts, ctx.roles
    pr = P.HandlerPrims(facts, R)
    pr.normalize_le = False  # this rule reads the byte tuples itself
    ADDR = A.W(("address",), 64)
    n = 0

    def icpt(I, path, frame, t, name, args):
        if name == R.mem_read_bytes and A.is_int(args[2]) and args[2][1] <= 16:
            path.events.append(("mem_read", "bytes", args[1], args[2], None))
            return [(A.OK(("agg", "array", None, tuple(A.W(("mbyte", i), 8) for i in range(args[2][1])))), path)]
        return pr.intercept(I, path, frame, t, name, args)
    for bits in (8, 16, 32, 64, 128):
        # ---- reader
        body = facts.bodies[R.mem_read[bits]]
        I = A.Interp(facts, intercept=icpt)
        outs = list(I.run(body, [P.self_ref(False), ADDR], A.Path()))
        inst = "api=mem_read_%d" % bits
        where = "%s:%d" % (body["span"][0], body["span"][1])
        oks = [o for o in outs if o.kind == "return" and not is_err(o)]
        bad = None
        if not oks:
            bad = "no success path"
        for o in oks:
            rd = [e for e in o.path.events if e[0] == "mem_read" and e[1] == "bytes"]
            if len(rd) != 1:
                bad = bad or "%d byte reads" % len(rd)
                continue
            if rd[0][2] != ADDR:
                bad = bad or "reads at %s, not the caller's address" % A.show(rd[0][2])
            ln = I.decide(o.path, rd[0][3])
            if ln != bits // 8:
                bad = bad or "reads %s bytes, expected %d" % (ln, bits // 8)
                continue
            v = o.value[3][0]
            bv = A.bitvec(v, o.path)
            w = 128 if bits == 128 else 64
            bv = bv + [0] * (w - len(bv))
            exp = [(("mbyte", i // 8), i % 8, False) for i in range(bits)] + [0] * (w - bits)
            if bv[:w] != exp:
                k = [i for i in range(w) if bv[i] != exp[i]][0]
                bad = bad or "bit %d of the value is %s, expected %s" % (
                    k, "bit %d of byte %d" % (bv[k][1], bv[k][0][1]) if isinstance(bv[k], tuple) and bv[k][0][0] == "mbyte" else bv[k],
                    "bit %d of byte %d" % (k % 8, k // 8) if k < bits else 0)
        n += 1
        if bad:
            ck.violation("C08.le", inst, bad, where=where, what="typed reader disagrees with the byte store")
        else:
            ck.ok("C08.le", inst)
        # ---- writer
        body = facts.bodies[R.mem_write[bits]]
        I = A.Interp(facts, intercept=icpt)
        DATA = A.W(("data",), 128 if bits == 128 else 64)
        outs = list(I.run(body, [P.self_ref(True), ADDR, DATA], A.Path()))
        inst = "api=mem_write_%d" % bits
        where = "%s:%d" % (body["span"][0], body["span"][1])
        oks = [o for o in outs if o.kind == "return" and not is_err(o)]
        bad = None
        if not oks:
            bad = "no success path"
        for o in oks:
            # every store the writer hands on (byte tuples or narrower typed stores, in one piece or several): together
            # they put bits 8i..8i+7 of the value at address + i, each byte once
            wr = [e for e in o.path.events if e[0] == "mem_write"]
            if not wr:
                bad = bad or "0 byte writes"
                continue
            placed = {}
            for e in wr:
                d_ = U.affine_norm(("bin", "Sub", e[2], ADDR, 64))
                if d_[0]:
                    bad = bad or "writes at %s, not at an offset from the caller's address" % A.show(e[2])[:50]
                    continue
                off = d_[1]
                if e[1] == "bytes":
                    buf = e[3]
                    while buf[0] in ("deref", "w"):
                        buf = buf[1]
                    if not (buf[0] == "agg" and buf[1] == "array"):
                        bad = bad or "written bytes are not a byte tuple the analysis can read (%s)" % A.show(buf)[:50]
                        continue
                    pieces = [A.bitvec(x, o.path)[:8] for x in buf[3]]
                else:
                    bv_ = A.bitvec(e[3], o.path)
                    bv_ = bv_ + [0] * (e[1] - len(bv_))
                    pieces = [bv_[8 * j:8 * j + 8] for j in range(e[1] // 8)]
                for j, xb in enumerate(pieces):
                    if off + j in placed:
                        bad = bad or "byte %d is written twice" % (off + j)
                    placed[off + j] = xb
            if bad:
                continue
            if sorted(placed) != list(range(bits // 8)):
                bad = bad or "writes bytes %s, expected 0..%d" % (sorted(placed)[:20], bits // 8 - 1)
                continue
            for i in range(bits // 8):
                exp = [(("data",), 8 * i + k, False) for k in range(8)]
                if placed[i] != exp:
                    bad = bad or "byte %d written is not bits %d..%d of the value" % (i, 8 * i, 8 * i + 7)
            if bits < 64:
                if o.path.maxbits.get(("data",)) != bits and o.path.maxbits.get(DATA) != bits:
                    bad = bad or "no range guard data <= %#x" % ((1 << bits) - 1)
        n += 1
        if bad:
            ck.violation("C08.le", inst, bad, where=where, what="typed writer disagrees with the byte store")
        else:
            ck.ok("C08.le", inst)
    ck.floor("typed accessors", n, 10)


def term_calls(t, acc=None, depth=0):
    if acc is None:
        acc = set()
    if not isinstance(t, tuple) or depth > 30:
        return acc
    if t and t[0] == "ret":
        acc.add(t[1])
    for x in t[1:] if t else ():
        if isinstance(x, tuple):
            term_calls(x, acc, depth + 1)
    return acc


def tainted(x):
    """API parameters and area fields"""
    if x[0] in ("address", "length", "dataslice", "len", "section_start", "start_addr", "new_size", "start", "prot"):
        return True
    if x[0] == "field" and (M.is_area_field(x, "start") or M.is_area_field(x, "length")):
        return True
    return False


def hint_builder(ctx):
    """the private error decorator reached from the raw accessors: (self, u64, u64, String) -> AxError"""
    facts = ctx.facts
    c = []
    for k, b in facts.bodies.items():
        if b["glue"] or b["kind"] == "Closure":
            continue
        s = [b["locals"][i] for i in range(b["argc"] + 1)]
        # on the machine or on its state: (&X, u64, u64, String) -> AxError
        if len(s) == 5 and s[0] == ["adt", "helpers::errors::AxError", []] and s[2] == ["u", 64] and s[3] == ["u", 64] \
                and isinstance(s[1], list) and s[1][0] == "ref":
            c.append(k)
    return c


def area_end_invariant(ctx):
    """start + length of an area never overflows if every function that creates or resizes an area refuses
    (touches nothing) when checked_add(start, len) is None. Decided by interpreting both lifecycle functions with
    the checked sum forced to None. Together with C10.who (only they write start/length) this is a type invariant."""
    facts = ctx.facts
    oks = []
    for nme, args in (("mem_init_area_named", lambda: [P.self_ref(True), A.W(("start",), 64), ("datavec",), ("name",)]),
                      ("mem_resize_section", lambda: [P.self_ref(True), A.W(("start_addr",), 64), A.W(("new_size",), 64)])):
        body = facts.method(AXE, nme)
        seen_checked = [False]

        def icpt(I, path, frame, t, name, a):
            if name == "core::num::<impl u64>::checked_add":
                seen_checked[0] = True
                return [(A.NONE, path)]
            return None
        mp = M.MemPrims(facts, extra=icpt)
        I = A.Interp(facts, intercept=mp.intercept)
        outs = list(I.run(body, args(), A.Path()))
        clean = seen_checked[0] and outs and all(
            ((o.kind == "return" and is_err(o)) or (o.kind == "panic" and o.cls == "D")) and
            not any(e[0] in ("mutcall", "store") for e in o.path.events) for o in outs)
        oks.append((nme, bool(clean)))
    return all(v for _, v in oks), oks


def total(ctx):
    ck, facts = ctx.check, ctx.facts
    inv_ok, inv_detail = area_end_invariant(ctx)
    ck.cov["area_end_invariant"] = {"holds": inv_ok, "lifecycle": inv_detail}
    targets = []
    for api, body, bit, mkargs, extents in C09.accessor_specs(ctx):
        targets.append((api, body, mkargs, extents))
    hb = hint_builder(ctx)
    for k in hb:
        targets.append(("hint-builder", facts.bodies[k],
                        lambda: [P.self_ref(False), A.W(("address",), 64), A.W(("length",), 64), ("opname",)], [("length",)]))
    ck.floor("hint builder role", len(hb), 1)
    seen_sites = {}
    for api, body, mkargs, extents in targets:
        outs, _, _ = C09.run_accessor(ctx, body, mkargs(), extents, mask=7)
        reported = {}
        nsites = set()
        for o in outs:
            for ev, verdict, reason in PN.triage(o.path, tainted):
                site = (ev[4], ev[1], ev[2])
                nsites.add(site)
                if verdict == "reported" and inv_ok and is_area_end_sum(ev):
                    verdict, reason = "discharged", "area-end invariant (checked at every creation/resize)"
                if verdict == "reported":
                    desc = PN.describe(ev)
                    reported.setdefault(desc, (ev, reason))
                else:
                    seen_sites.setdefault((api, site), (verdict, reason))
        if reported:
            for desc, (ev, reason) in sorted(reported.items()):
                ck.violation("C08.total", "api=%s" % api, desc, where=ev[4],
                             witness={"reason": reason}, what="extreme address/length crashes (overflow) instead of returning an error")
        else:
            ck.ok("C08.total", "api=%s" % api)
        ck.cov.setdefault("arith_sites", {})[api] = len(nsites)
    ck.cov["undischarged_not_reported"] = sorted(
        "%s %s: %s" % (a, s, v[1]) for (a, s), v in seen_sites.items() if v[0] == "not-reported")[:40]


def is_area_end_sum(ev):
    ops = ev[3]
    a, b = ops.get("a"), ops.get("b")
    return ev[1] == "Overflow" and ev[2] == "Add" and a is not None and b is not None and \
        M.is_area_field(a, "start") and M.is_area_field(b, "length")


def invariant(ctx):
    """length == data.len() at every construction / mutation site of an area."""
    ck, facts = ctx.check, ctx.facts
    sites = 0
    resize_path = facts.method(AXE, "mem_resize_section")["path"]
    for k, b in facts.bodies.items():
        if b["glue"]:
            continue
        for bi, blk in enumerate(b["blocks"]):
            for st in blk["s"]:
                if st[0] != "a":
                    continue
                rv = st[2]
                # construction
                if rv[0] == "agg" and rv[1][0] == "adt" and rv[1][1] == C09.AREA_ADT:
                    sites += 1
                    names = rv[1][4]
                    li, di = names.index("length"), names.index("data")
                    lt = origin(b, rv[2][li])
                    dt = origin(b, rv[2][di])
                    inst = "construct in %s" % b["name"]
                    if lt is not None and lt[0] == "len_of" and lt[1] == dt:
                        ck.ok("C08.invariant", inst)
                    else:
                        ck.violation("C08.invariant", inst, "length := %s, data := %s" % (lt, dt),
                                     where=F.site_str(b, st[3]), what="area built with length != data.len()")
                # field stores
                names = [e[2] for e in st[1][1] if isinstance(e, list) and e[0] == "f" and e[3] == C09.AREA_ADT]
                if names and names[-1] in ("length", "data", "start"):
                    if b["path"] == resize_path:
                        continue  # decided on final values below
                    sites += 1
                    check_field_store(ctx, b, bi, st, names[-1])
    # the resize function: length == data.len() on the final values of every success path, per size class
    # (sequence model shared with C10.resize; independent of whether it assigns fields or mutates the vector in place)
    from . import C10
    sub = type("Sub", (), {})()
    sub.__dict__.update(ctx.__dict__)

    class _Quiet:
        def __init__(self, ck_):
            self.cov, self.samples, self.assumptions, self.violations = {}, [], ck_.assumptions, ck_.violations

        def ok(self, *a, **k): pass
        def violation(self, *a, **k): pass
        def undecided_(self, *a, **k): pass
        def floor(self, *a, **k): pass
        def sample(self, *a, **k): pass
    sub.check = _Quiet(ck)
    ibad = C10.resize_copy(sub)
    sites += 1
    rb = facts.bodies[resize_path]
    if ibad:
        ck.violation("C08.invariant", "resize in %s" % rb["name"], ibad, where="%s:%d" % (rb["span"][0], rb["span"][1]),
                     what="resize leaves length != data.len(): the bounds test and the byte vector disagree")
    else:
        ck.ok("C08.invariant", "resize in %s" % rb["name"])
    ck.floor("area construction/mutation sites", sites, 2)


def origin(body, op):
    """very small provenance: ('local', n) | ('len_of', origin) | ('vec_zero', origin) | ('const', v)"""
    if op[0] == "k":
        return ("const", op[1].get("v"))
    if op[0] not in ("c", "m") or op[1][1]:
        return ("place", repr(op[1]))
    loc = op[1][0]
    if loc <= body["argc"]:
        return ("param", loc)
    defs = []
    for blk in body["blocks"]:
        for st in blk["s"]:
            if st[0] == "a" and st[1][0] == loc and not st[1][1]:
                defs.append(("s", st))
        t = blk["term"]
        if t["k"] == "call" and t["dest"][0] == loc and not t["dest"][1]:
            defs.append(("c", t))
    if len(defs) != 1:
        return ("multi", loc)
    kind, d = defs[0]
    if kind == "s":
        rv = d[2]
        if rv[0] == "use":
            return origin(body, rv[1])
        if rv[0] == "cast":
            return origin(body, rv[2])
        if rv[0] == "ref":
            return ("ref",) + (origin(body, ["c", rv[2]]),)
        return ("rv", rv[0])
    n = F.callee_name(d)
    if n.endswith("::len"):
        a = origin(body, d["args"][0])
        if a[0] == "ref":
            a = a[1]
        return ("len_of", a)
    if "from_elem" in n:
        return ("vec_zero", origin(body, d["args"][1]))
    return ("call", n.rsplit("::", 1)[1])


def check_field_store(ctx, body, bi, st, fname):
    """resize: data := vec![0; n] and length := n with the same n (both stores in one function)."""
    ck = ctx.check
    inst = "store %s in %s" % (fname, body["name"])
    # collect both stores of this body
    stores = {}
    for blk in body["blocks"]:
        for s2 in blk["s"]:
            if s2[0] != "a":
                continue
            names = [e[2] for e in s2[1][1] if isinstance(e, list) and e[0] == "f" and e[3] == C09.AREA_ADT]
            if names and names[-1] in ("length", "data", "start"):
                stores[names[-1]] = origin(body, s2[2][1]) if s2[2][0] == "use" else ("rv", s2[2][0])
    if "start" in stores:
        ck.violation("C08.invariant", inst, "area start is reassigned", where=F.site_str(body, st[3]))
        return
    d, l = stores.get("data"), stores.get("length")
    if d is None or l is None:
        ck.violation("C08.invariant", inst, "only one of data/length is updated (data=%s length=%s)" % (d, l),
                     where=F.site_str(body, st[3]), what="resize leaves length != data.len()")
        return
    if d[0] == "vec_zero" and d[1] == l:
        ck.ok("C08.invariant", inst)
    elif d[0] == "multi":
        # `let mut new_data = vec![0; n]; ..copy..; area.data = new_data`
        n = vec_zero_len(body, d[1])
        if n is not None and n == l:
            ck.ok("C08.invariant", inst)
        else:
            ck.violation("C08.invariant", inst, "data := vec of %s, length := %s" % (n, l), where=F.site_str(body, st[3]))
    else:
        ck.violation("C08.invariant", inst, "data := %s, length := %s" % (d, l), where=F.site_str(body, st[3]))


def vec_zero_len(body, loc):
    for blk in body["blocks"]:
        t = blk["term"]
        if t["k"] == "call" and t["dest"][0] == loc and "from_elem" in F.callee_name(t):
            return origin(body, t["args"][1])
    return None
