from .. import absint as A


def is_err(o):
    v = o.value
    return v is not None and v[0] == "agg" and v[1] == A.RESULT and v[2] == 1


def is_ok(o):
    v = o.value
    return o.kind == "return" and v is not None and v[0] == "agg" and v[1] == A.RESULT and v[2] == 0
