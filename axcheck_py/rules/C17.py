"""C17 Stack initialisation yields the System V entry frame for any argv/envp (layout structure).

C17.order   layout = argc (= argv.len()), argv string addresses in order, 0, envp string addresses in order, 0
C17.strings each pointer is the result of the 'anywhere' allocator for bytes(arg) ++ [0]
C17.align   the alignment test precedes the RSP store: a success return implies RSP & 0xf == 0
C17.slot    argc sits at the address a hardware POP would read (RSP), and RSP / stack_top are the same value
C17.space   the frame starts at the top of the allocated area: the space below RSP is the requested length (affine check)
C17.retry   an occupied candidate address never aborts the initialisation: the error of creating the stack area is not
            returned to the caller (the search goes on), unless the very same (start, size) range was probed before
C17.search  the searches for the string areas and the stack area return their error only after a probe (C10.search)
C17.plain   init_stack: aligned RSP inside the new area; stack_top = RSP + the RET sentinel offset
Declined: success for every list length (value-dependent), parity reasoning about the alignment assertion.
"""
from .. import absint as A
from .. import facts as F
from .. import hmodel as H
from .. import hutil as U
from .. import prims as P
from .rules_common import is_err

AXE = "axecutor::Axecutor"


def fieldnames(loc):
    return [p[2] for p in loc[1] if isinstance(p, tuple) and p[0] == "f"]


def strip_align(t):
    """look through alignment masks: x & !0xf -> x"""
    t = U.strip(t)
    if t[0] == "bin" and t[1] == "BitAnd" and A.is_int(t[3]) and (t[3][1] | 0xF) == (1 << 64) - 1:
        return strip_align(t[2])
    if t[0] == "bin" and t[1] in ("Add", "Sub"):
        return ("bin", t[1], strip_align(t[2]), strip_align(t[3]), t[4])
    return t


def run(ctx):
    program_start(ctx)
    plain(ctx)
    search(ctx)


def search(ctx):
    """C17.search: neither the placement of the argument strings nor that of the stack area gives up before it has
    probed the address space, unless on conditions over its own parameters only (decided by C10's search analysis)"""
    from . import C10
    facts = ctx.facts
    for nme in ("mem_init_anywhere", "init_stack", "init_stack_program_start"):
        try:
            b = program_start_body(facts) if nme == "init_stack_program_start" else facts.method(AXE, nme)
        except KeyError as e:
            ctx.check.violation("C17.search", "api=" + nme, str(e))
            continue
        C10.search_probe(ctx, b, nme, rule="C17.search")


def program_start_body(facts):
    """the function that builds the entry frame: the public `init_stack_program_start` itself, or the one local callee it
    forwards (length, argv, envp) to -- found through the call, not by name"""
    pub = facts.method(AXE, "init_stack_program_start")
    cands = []
    for blk in pub["blocks"]:
        t = blk["term"]
        if t["k"] == "call":
            cb = facts.bodies.get(F.callee_name(t))
            if cb is not None and cb.get("argc") == 4 and not cb["glue"] and cb["locals"][2] == ["u", 64]:
                cands.append(cb)
    if len(cands) == 1:
        return cands[0]
    if not cands:
        return pub
    raise KeyError("init_stack_program_start forwards to %d candidates" % len(cands))


def program_start(ctx):
    ck, facts = ctx.check, ctx.facts
    try:
        b = program_start_body(facts)
    except KeyError as e:
        ck.violation("C17.order", "api=init_stack_program_start", str(e))
        return
    where = "%s:%d (%s)" % (b["span"][0], b["span"][1], b["name"])
    pr = P.HandlerPrims(facts, ctx.roles)
    anyw = facts.method(AXE, "mem_init_anywhere")["path"]
    zn = facts.method(AXE, "mem_init_zero_named")["path"]
    cnt = [0]

    def icpt(I, path, frame, t, name, args):
        short = name.rsplit("::", 1)[1] if "::" in name else name
        if name == anyw:
            cnt[0] += 1
            p2 = path.copy()
            data = I._deref_all(path, args[1])
            path.events.append(("anywhere", data, args[2], cnt[0]))
            return [(A.OK(A.W(("straddr", cnt[0]), 64)), path), (A.ERR(("e",)), p2)]
        if name == zn:
            p2 = path.copy()
            path.events.append(("stack_area", args[1], args[2]))
            p2.events.append(("stack_area_err", args[1], args[2]))
            return [(A.OK(A.UNIT), path), (A.ERR(("stack_area_err", args[1], args[2])), p2)]
        lb = facts.bodies.get(name)
        if lb is not None and lb.get("argc") == 3 and lb["locals"][0] in ("bool", ["bool"]) and lb["locals"][1][0] == "ref" \
                and lb["locals"][2] == ["u", 64] and lb["locals"][3] == ["u", 64]:
            # a range predicate over the area list (a candidate probe): both answers, the arguments are remembered
            p2 = path.copy()
            path.events.append(("probe", name, args[1], args[2], 1))
            p2.events.append(("probe", name, args[1], args[2], 0))
            return [(A.INT(1, 8), path), (A.INT(0, 8), p2)]
        if short == "push" and args and args[0][0] == "ref":
            tgt = I.read_loc(path, args[0][1])
            path.events.append(("push", args[0][1], args[1], tgt))
            return None
        if short in ("as_bytes",) or name.endswith("::from") and "Vec" in name:
            return None
        return pr.intercept(I, path, frame, t, name, args)
    I = A.Interp(facts, intercept=icpt, max_paths=200000)
    I.widen_at = 3
    outs = list(I.run(b, [P.self_ref(True), A.W(("length",), 64), ("argv",), ("envp",)], A.Path()))
    oks = [o for o in outs if o.kind == "return" and not is_err(o)]
    ck.cov["paths"] = len(outs)
    ck.floor("success paths", len(oks), 10)
    obad = sbad = abad = slot_bad = space_bad = None
    no_model = None
    n_slot = 0
    # ---- retry: a failed creation of the stack area is not the function's result
    rbad = None
    ncreate = 0
    for o in outs:
        if o.kind != "return":
            continue
        ncreate += sum(1 for e in o.path.events if e[0] in ("stack_area", "stack_area_err"))
        if not is_err(o):
            continue
        for x in H.leaves_all(o.value, "stack_area_err"):
            probed = any(e[0] == "probe" and U.affine_eq(e[2], x[1]) and U.affine_eq(e[3], x[2]) for e in o.path.events)
            if not probed:
                pr_ = [e for e in o.path.events if e[0] == "probe"]
                rbad = rbad or ("the error of creating the stack area at a candidate address is returned instead of trying the next "
                                "candidate%s" % ("; the range probed (%s bytes) is not the range allocated" % A.show(U.strip(pr_[-1][3]))[:40] if pr_ else ""))
    if ncreate == 0:
        rbad = rbad or "no stack area creation found"
    if rbad:
        ck.violation("C17.retry", "api=init_stack_program_start", rbad, where=where,
                     what="with another area in the way of the first candidate, initialisation fails although free candidates remain")
    else:
        ck.ok("C17.retry", "api=init_stack_program_start", ncreate)
    for o in oks:
        evs = o.path.events
        # the layout vector = the first vector pushed to
        pushes = [e for e in evs if e[0] == "push"]
        argc_pushed = lambda ps: any(U.strip(e[2]) == ("len", ("argv",)) for e in ps)
        if not pushes or not argc_pushed(pushes):
            if any(argc_pushed([e for e in o2.path.events if e[0] == "push"]) for o2 in oks):
                obad = obad or "no layout pushes"
            else:
                # no path ever pushes argc to a vector: the frame is assembled some other way (iterator chains, ...)
                no_model = "the frame is not built by pushing to a vector: outside the layout model"
                for x in [x for x in evs if x[0] == "anywhere"]:
                    i = evs.index(x)
                    term = [e for e in evs[:i] if e[0] == "push" and A.is_int(U.strip(e[2])) and U.strip(e[2])[1] == 0]
                    if not term and not ends_with_nul(x[1]):
                        sbad = sbad or "a string is allocated without its NUL terminator"
            continue
        layout_loc = pushes[0][1]
        lay = [e for e in pushes if e[1] == layout_loc]
        seq = []
        for e in lay:
            v = U.strip(e[2])
            if v == ("len", ("argv",)):
                seq.append("C")
            elif A.is_int(v) and v[1] == 0:
                seq.append("Z")
            elif v[0] == "straddr":
                # which list did the string come from?
                al = [x for x in evs if x[0] == "anywhere" and x[3] == v[1]]
                src = repr(al[0][1]) + repr([c for c in o.path.conds]) if al else ""
                seq.append("a" if al and string_source(o, al[0]) == "argv" else ("e" if al and string_source(o, al[0]) == "envp" else "?"))
            else:
                seq.append("?")
        s = "".join(seq)
        import re
        if not re.fullmatch(r"Ca*Ze*Z", s):
            obad = obad or "layout order %s does not match argc argv* 0 envp* 0" % s
        # strings: NUL terminated copies
        for x in [x for x in evs if x[0] == "anywhere"]:
            i = evs.index(x)
            term = [e for e in evs[:i] if e[0] == "push" and e[1] != layout_loc and A.is_int(U.strip(e[2])) and U.strip(e[2])[1] == 0]
            if not term and not ends_with_nul(x[1]):
                sbad = sbad or "a string is allocated without its NUL terminator"
        # alignment test before RSP store
        rsp = [e for e in evs if e[0] == "reg_write" and U.reg_name(facts, e[2]) == "RSP"]
        st = [e for e in evs if e[0] == "store" and fieldnames(e[1])[-1:] == ["stack_top"]]
        if len(rsp) != 1:
            abad = abad or "%d RSP writes" % len(rsp)
            continue
        aligned = False
        rbits = A.bitvec(rsp[0][3], A.Path())[:4]
        for c in o.path.conds:
            t = c[0]
            if t[0] == "bin" and t[1] in ("Eq", "Ne") and A.is_int(t[3]) and t[3][1] == 0:
                truth_eq = ((c[2] == 1) if c[1] == "==" else (0 in c[2])) == (t[1] == "Eq")
                # any spelling of `value mod 16 == 0` (mask, remainder, ...): the tested term's bits are exactly the
                # low four bits of the stored RSP value (bit provenance)
                xb = A.bitvec(t[2], A.Path())
                if truth_eq and xb[:4] == rbits and all(b_ == 0 for b_ in xb[4:]) and all(b_ is not None for b_ in rbits):
                    aligned = True
                # the same value term under a mod-16 operator (when its bits are not individually known)
                x = t[2]
                if truth_eq and x[0] == "bin" and A.is_int(x[3]) and ((x[1] == "BitAnd" and x[3][1] == 0xF) or (x[1] == "Rem" and x[3][1] == 16)) \
                        and U.strip(x[2]) == U.strip(rsp[0][3]):
                    aligned = True
        if not aligned:
            bv = A.bitvec(rsp[0][3], A.Path())
            if all(b == 0 for b in bv[:4]):
                aligned = True  # aligned by construction (mask), the test folds away
        if not aligned:
            abad = abad or "RSP stored without the 16-byte alignment test on that value"
        if not st or U.strip(st[-1][2]) != U.strip(rsp[0][3]):
            slot_bad = slot_bad or "stack_top := %s differs from RSP := %s" % (A.show(st[-1][2]) if st else None, A.show(rsp[0][3]))
        # slot convention from exactly-unrolled paths (no widening)
        if not any(e[0] == "loop_widened" and "init_stack_program_start" in e[1] and False for e in evs):
            mw = [e for e in evs if e[0] == "mem_write" and e[1] == 64]
            if mw and not H.mentions(rsp[0][3], ("top", "loop")) and "'top'" not in repr(rsp[0][3]):
                n_slot += 1
                last = mw[-1]
                d = U.affine_norm(("bin", "Sub", strip_align(last[2]), strip_align(rsp[0][3]), 64))
                if d[0]:
                    slot_bad = slot_bad or "argc slot is not at a constant offset from RSP"
                else:
                    k = d[1] if d[1] < (1 << 63) else d[1] - (1 << 64)
                    if k != 0:
                        slot_bad = slot_bad or "argc stored at RSP%+d, a hardware POP reads [RSP]" % k
                # space: area size vs frame top
                sa = [e for e in evs if e[0] == "stack_area"]
                if sa:
                    first = mw[0]
                    size = U.affine_norm(strip_align(sa[-1][2]))
                    top = U.affine_norm(("bin", "Sub", strip_align(first[2]), strip_align(sa[-1][1]), 64))
                    extra = {k_: v for k_, v in size[0].items() if top[0].get(k_, 0) != v}
                    if any(k_[0] in ("len", "bin") or "len" in repr(k_) for k_ in extra):
                        space_bad = space_bad or "frame top is computed from `length`; the 8*n extension of the area lies above it"
    if n_slot == 0 and not no_model:
        slot_bad = slot_bad or "no exactly-unrolled frame path"
    if no_model and not (obad or slot_bad or space_bad):
        # a frame assembled in some other way (iterator chains, a pop loop, ...): the layout rules have nothing to judge.
        # Not a verdict on the code: recorded as undecided, the alignment / retry / search rules still apply
        for rule in ("C17.order", "C17.slot", "C17.space"):
            ck.undecided_(rule, "api=init_stack_program_start", no_model)
        ck.cov["layout_model_applies"] = False
    for rule, bad, what in (
            ("C17.order", obad, None), ("C17.strings", sbad, None), ("C17.align", abad, None),
            ("C17.slot", slot_bad, "entry frame follows the emulator's shifted stack convention, not the hardware's"),
            ("C17.space", space_bad, "the space left below RSP shrinks with the number of arguments: long lists fail")):
        if bad:
            ck.violation(rule, "api=init_stack_program_start", bad, where=where, what=what or bad)
        elif no_model and rule in ("C17.order", "C17.slot", "C17.space"):
            continue
        else:
            ck.ok(rule, "api=init_stack_program_start")
    ck.sample({"rule": "C17", "paths": len(outs), "success_paths": len(oks), "exact_frame_paths": n_slot})


def ends_with_nul(data, depth=0):
    """the byte string handed to the allocator ends with a 0 byte by construction: `x.chain(once(0)).collect()`,
    `[x, &[0]].concat()`, ..."""
    d = data
    while isinstance(d, tuple) and d and d[0] in ("w", "deref", "to_vec") and isinstance(d[1], tuple):
        d = d[1]
    if not isinstance(d, tuple) or not d or depth > 6:
        return False
    if d[0] == "ret" and isinstance(d[2], tuple) and d[2]:
        meth = str(d[1]).rsplit("::", 1)[-1]
        if meth in ("collect", "to_vec", "into_iter", "iter", "copied", "cloned", "to_owned", "into", "from"):
            return ends_with_nul(d[2][0], depth + 1)
        if meth == "chain" and len(d[2]) == 2:
            return ends_with_nul(d[2][1], depth + 1)
        if meth == "once" and len(d[2]) == 1:
            v = U.strip(d[2][0])
            return A.is_int(v) and v[1] == 0
        if meth in ("concat", "join") and len(d[2]) >= 1:
            return ends_with_nul(d[2][0], depth + 1)
    if d[0] == "agg" and d[1] == "array" and d[3]:
        last = d[3][-1]
        if A.is_int(U.strip(last)):
            return U.strip(last)[1] == 0
        return ends_with_nul(last, depth + 1)
    if d[0] == "ref":
        return False
    return False


def string_source(o, anyw_event):
    """'argv' | 'envp': which parameter the allocated bytes derive from"""
    r = repr(anyw_event[1]) + repr(anyw_event[2])
    a, e = "'argv'" in r, "'envp'" in r
    if a and not e:
        return "argv"
    if e and not a:
        return "envp"
    # the bytes went through Vec::from + push: fall back to the name format argument
    if "arg" in r and "env" not in r:
        return "argv"
    if "env" in r and "arg" not in r:
        return "envp"
    return "?"


def plain(ctx):
    ck, facts = ctx.check, ctx.facts
    b = facts.method(AXE, "init_stack")
    where = "%s:%d (init_stack)" % (b["span"][0], b["span"][1])
    pr = P.HandlerPrims(facts, ctx.roles)
    zn = facts.method(AXE, "mem_init_zero_named")["path"]

    def icpt(I, path, frame, t, name, args):
        if name == zn:
            p2 = path.copy()
            path.events.append(("stack_area", args[1], args[2]))
            return [(A.OK(A.UNIT), path), (A.ERR(("e",)), p2)]
        return pr.intercept(I, path, frame, t, name, args)
    I = A.Interp(facts, intercept=icpt)
    outs = list(I.run(b, [P.self_ref(True), A.W(("length",), 64)], A.Path()))
    oks = [o for o in outs if o.kind == "return" and not is_err(o)]
    bad = None
    for o in oks:
        evs = o.path.events
        rsp = [e for e in evs if e[0] == "reg_write" and U.reg_name(facts, e[2]) == "RSP"]
        st = [e for e in evs if e[0] == "store" and fieldnames(e[1])[-1:] == ["stack_top"]]
        sa = [e for e in evs if e[0] == "stack_area"]
        if len(rsp) != 1 or not st or not sa:
            bad = bad or "RSP writes=%d stack_top stores=%d areas=%d" % (len(rsp), len(st), len(sa))
            continue
        v = U.strip(rsp[0][3])
        # aligned by construction, however it is spelled (`x & !0xf`, `x - x % 16`, ...): the low four bits of the value are
        # zero for every x (bit provenance)
        low4 = A.bitvec(rsp[0][3], o.path)[:4]
        if not (v[0] == "bin" and v[1] == "BitAnd" and A.is_int(v[3]) and (v[3][1] & 0xF) == 0) and low4 != [0, 0, 0, 0]:
            bad = bad or "RSP := %s is not aligned by construction" % A.show(v)
        d = U.affine_norm(("bin", "Sub", st[-1][2], rsp[0][3], 64))
        if d[0] or d[1] != 8:
            bad = bad or "stack_top - RSP is not the RET sentinel offset 8"
        # returned start is the created area's start
        if U.strip(o.value[3][0]) != U.strip(sa[-1][1]):
            bad = bad or "returns %s, area starts at %s" % (A.show(o.value[3][0]), A.show(sa[-1][1]))
    if not oks:
        bad = bad or "no success path"
    if bad:
        ck.violation("C17.plain", "api=init_stack", bad, where=where)
    else:
        ck.ok("C17.plain", "api=init_stack")
