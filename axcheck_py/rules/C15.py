"""C15 Loading a well-formed static ELF reproduces its segments, entry and symbols (field plumbing).

C15.entry    RIP := e_entry on every successful load
C15.load     PT_LOAD: area at p_vaddr; equal-size variant holds segment_data(segment); otherwise a zero area of the
             page-rounded p_memsz receives segment_data(segment)[..p_filesz] at p_vaddr
C15.round    the zero area's length L(p_memsz) satisfies p_memsz <= L <= next page boundary, for every residue of p_memsz
             modulo the page size and representative page counts admitted by the path's own guards (a longer area
             reaches into the page of the next segment, a shorter one loses the bss tail)
C15.others   a program header that is not PT_LOAD never changes the permissions or contents of an area it did not create
             itself (its p_vaddr may coincide with a loaded segment's: PT_GNU_RELRO, PT_TLS, PT_NOTE ...)
C15.perm     mem_prot(p_vaddr, mask) with mask = R/W/X permutation of the segment's p_flags (per flag class)
C15.symbols  symbol_table[st_value] = strtab.get(st_name); undefined symbols are skipped
Declined: byte-for-byte equality of the image for all files; the p_vaddr == 0 skip; the rounding special case.
"""
from .. import absint as A
from .. import elfmodel as EM
from .. import hmodel as H
from .. import hutil as U
from .rules_common import is_err

PT_LOAD = 1


def seg_field(t, name):
    t = U.strip(t)
    return t == ("field", EM.SEG, name)


PAGE = 0x1000
_ROUND_CACHE = {}


def rounding(I, o, L):
    """evaluate the length term for every residue of p_memsz mod PAGE (page count 1) and for the boundary residues at
    page counts {0, 2, 0x3ffff, 0x40000}; values the path's own guards exclude are skipped"""
    leaf = ("field", EM.SEG, "p_memsz")
    guards = tuple(c for c in o.path.conds if leaf in H.leaves(c[0]) or U.strip(c[0]) == leaf)
    key = (L, guards)
    if key in _ROUND_CACHE:
        return _ROUND_CACHE[key][0], 0
    vals = [PAGE + r for r in range(PAGE)]
    for k in (0, 2, 0x3FFFF, 0x40000):
        vals += [k * PAGE + r for r in (0, 1, 0x800, 0xFFF)]
    bad = None
    n = 0
    for v in vals:
        P = A.Path()
        P.facts[leaf] = ("eq", v)
        P.facts[A.W(leaf, 64)] = ("eq", v)
        skip = False
        for c in guards:
            g = I.decide(P, c[0])
            if g is None:
                g = U.eval_term(c[0], {leaf: v, A.W(leaf, 64): v}, o.path)
            if g is None:
                continue
            if (c[1] == "==" and g != c[2]) or (c[1] == "!=" and g in c[2]):
                skip = True
                break
        if skip:
            continue
        got = I.decide(P, L)
        if got is None:
            got = U.eval_term(L, {leaf: v, A.W(leaf, 64): v}, o.path)
        if got is None:
            continue
        n += 1
        want = (v + PAGE - 1) // PAGE * PAGE
        if not (v <= got <= want):
            bad = bad or "p_memsz=%#x gives an area of %#x bytes, expected within [%#x, %#x]" % (v, got, v, want)
    _ROUND_CACHE[key] = (bad, n)
    return bad, n


def run(ctx):
    ck, facts = ctx.check, ctx.facts
    try:
        outs, I, body, ep = EM.run_loader(ctx)
    except KeyError as e:
        ck.violation("C15.entry", "api=from_binary", str(e))
        return
    where = "%s:%d (from_binary)" % (body["span"][0], body["span"][1])
    oks = [o for o in outs if o.kind == "return" and not is_err(o)]
    ck.cov["loader_paths"] = len(outs)
    ck.cov["loader_success_paths"] = len(oks)
    ck.floor("loader success paths", len(oks), 20)
    ebad = None
    for o in oks:
        w = [e for e in o.path.events if e[0] == "reg_write" and U.reg_name(facts, e[2]) == "RIP"]
        if len(w) != 1 or U.strip(w[0][3]) != ("field", ("field", EM.ELF, "ehdr"), "e_entry"):
            ebad = ebad or "RIP := %s" % (A.show(w[0][3]) if w else None)
    if ebad:
        ck.violation("C15.entry", "api=from_binary", ebad, where=where, what="instruction pointer is not the ELF entry point")
    else:
        ck.ok("C15.entry", "api=from_binary")
    # ---- PT_LOAD paths: any path (also widened iterations) where p_type == PT_LOAD was assumed
    lbad = pbad = rbad = None
    n_eq = n_zero = n_perm = n_round = 0
    for o in outs:
        if o.kind != "return":
            continue
        is_load = any(seg_field(c[0], "p_type") and c[1] == "==" and c[2] == PT_LOAD for c in o.path.conds)
        if not is_load:
            # no area may be created for non-LOAD segments
            continue
        chunks = [[]]
        cstarts = [0]
        for e in o.path.events:
            if e[0] == "next" and e[1] == "seg":
                chunks.append([])  # one chunk per program header visited on this path
                cstarts.append(e[3] if len(e) > 3 else 0)
            else:
                chunks[-1].append(e)
        cstarts.append(len(o.path.conds))
        for ci_, evs in enumerate(chunks):
            chunk_conds = o.path.conds[cstarts[ci_]:cstarts[ci_ + 1]]
            failed = is_err(o) and evs is chunks[-1]
            creates = [e for e in evs if e[0] in ("init_area", "init_zero")]
            writes = [e for e in evs if e[0] == "write_bytes"]
            prots = [e for e in evs if e[0] == "prot"]
            for e in creates:
                if not seg_field(e[1], "p_vaddr"):
                    lbad = lbad or "area created at %s, expected p_vaddr" % A.show(e[1])
            for e in writes:
                if not seg_field(e[1], "p_vaddr"):
                    lbad = lbad or "file bytes written at %s, expected p_vaddr" % A.show(e[1])
            if len(creates) > 1:
                lbad = lbad or "%d areas created for one segment" % len(creates)
            if creates and prots and not failed:
                # the image of the area as a byte-sequence expression: base + overlays at offset 0
                e = creates[0]
                if e[0] == "init_area":
                    base = seq_norm(e[2])
                else:
                    base = ("filled", A.INT(0, 8), e[2])
                overlays = [seq_norm(w[2]) for w in writes]
                for c in evs:
                    if c[0] == "copy" and strip_d(c[1])[0] == "slice" and seq_norm(strip_d(c[1])[1]) == base:
                        rg = strip_d(c[1])[2]
                        if rg[0] == "agg" and rg[1].endswith("RangeTo"):
                            overlays.append(seq_norm(c[2]))
                        else:
                            lbad = lbad or "file bytes copied to a range that does not start at the segment's address"
                FILE = ("segdata", EM.SEG)
                if base == FILE:
                    n_eq += 1
                    if overlays and any(x != FILE for x in overlays):
                        lbad = lbad or "segment bytes overwritten with %s" % A.show(overlays[0])[:60]
                    # the file bytes are the whole image only if nothing of p_memsz lies beyond p_filesz
                    # (an equality that holds on the path, spelled == taken or != not taken)
                    tied = any(c[0][0] == "bin" and ((c[0][1] == "Eq" and U.cond_truth(c) == 1) or (c[0][1] == "Ne" and U.cond_truth(c) == 0)) and
                               {x[2] for x in H.leaves(c[0]) if x[0] == "field" and x[1] == EM.SEG} == {"p_memsz", "p_filesz"}
                               for c in o.path.conds)
                    if not tied:
                        lbad = lbad or "the area holds only the file bytes although p_memsz may exceed p_filesz (no zero tail)"
                elif base[0] == "filled" and A.is_int(base[1]) and base[1][1] == 0:
                    n_zero += 1
                    names = {x[2] for x in H.leaves(base[2]) if x[0] == "field" and x[1] == EM.SEG}
                    if names != {"p_memsz"}:
                        lbad = lbad or "zero area sized from %s, expected p_memsz" % sorted(names)
                    else:
                        rb, nr = rounding(I, o, base[2])
                        n_round += nr
                        rbad = rbad or rb
                    if not overlays:
                        lbad = lbad or "zero variant never copies the file bytes"
                    for x in overlays:
                        if x != FILE:
                            lbad = lbad or "file bytes are %s, expected segment_data(segment)[..p_filesz]" % A.show(x)[:80]
                else:
                    lbad = lbad or "area contents are %s: neither the segment's file bytes nor zeroes" % A.show(base)[:60]
            # permissions (only on paths that got as far as mem_prot)
            for e in prots:
                n_perm += 1
                if not seg_field(e[1], "p_vaddr"):
                    pbad = pbad or "mem_prot on %s, expected p_vaddr" % A.show(e[1])
                # per class of p_flags (the eight R/W/X combinations, alone and with other flag bits set): the mask the
                # path hands to mem_prot, evaluated under the class, must be the R/W/X permutation; classes the path's own
                # tests on p_flags exclude are skipped. Works for branching code and for table lookups alike.
                fl = ("field", EM.SEG, "p_flags")
                # (every header on one path is the same symbolic header: decisions on its fields are remembered per term,
                # so the whole path's tests apply)
                pconds = [c for c in o.path.conds if H.mentions(c[0], fl)]
                ncls = 0
                for base in range(8):
                    for ex in (0, 0x8, 0xFFFFFFF8):
                        v = base | ex
                        env = {fl: v, A.W(fl, 32): v, A.W(fl, 64): v}
                        skip = False
                        for c in pconds:
                            g = U.eval_term(c[0], env, o.path)
                            if g is None:
                                continue
                            if (c[1] == "==" and g != c[2]) or (c[1] == "!=" and g in c[2]):
                                skip = True
                                break
                        if skip:
                            continue
                        m = I.decide(o.path, e[2])
                        if m is None:
                            m = U.eval_term(e[2], env, o.path)
                        want = ((base >> 2) & 1) | (base & 2) | ((base & 1) << 2)
                        if m is None:
                            pbad = pbad or "permission mask %s cannot be evaluated for p_flags = %#x" % (A.show(e[2])[:60], v)
                        elif m != want:
                            pbad = pbad or "p_flags = %#x -> mask %d, expected %d" % (v, m, want)
                        ncls += 1
                if ncls == 0:
                    pbad = pbad or "no p_flags class is consistent with this path"
            if creates and not failed and not prots:
                pbad = pbad or "a loaded segment never gets its permissions"
    # ---- non-loadable headers: per program header visited, the comparisons of its p_type decide which kind it is
    obad = None
    skbad = None
    n_other = 0
    for o in outs:
        if o.kind != "return":
            continue
        marks = [(i, e) for i, e in enumerate(o.path.events) if e[0] == "next" and e[1] == "seg" and e[2] == "some"]
        for j, (i, e) in enumerate(marks):
            c0 = e[3] if len(e) > 3 else 0
            i1 = marks[j + 1][0] if j + 1 < len(marks) else len(o.path.events)
            c1 = marks[j + 1][1][3] if j + 1 < len(marks) and len(marks[j + 1][1]) > 3 else len(o.path.conds)
            conds = o.path.conds[c0:c1]
            ptype = None
            for c in conds:
                if seg_field(c[0], "p_type") and c[1] == "==":
                    ptype = c[2]
            if ptype is None:
                # the header was left before its type was looked at: if nothing was mapped for it and the path goes on to the
                # next header (or finishes fine), the tests that let it go may only concern p_vaddr -- any other field would
                # also drop PT_LOAD segments having that property (seeded change S72 skipped headers with p_filesz == 0)
                evs0 = o.path.events[i:i1]
                mapped = any(x[0] in ("init_area", "init_zero") for x in evs0)
                last = j + 1 == len(marks)
                if not mapped and not (last and is_err(o)):
                    for c in conds:
                        flds = {x[2] for x in H.leaves(c[0]) if x[0] == "field" and x[1] == EM.SEG}
                        if flds - {"p_vaddr"}:
                            skbad = "a program header is passed over on a test of %s before its type is known: a PT_LOAD segment " \
                                    "with that property is never mapped" % sorted(flds - {"p_vaddr"})[0]
                continue
            if ptype == PT_LOAD:
                continue
            n_other += 1
            evs = o.path.events[i:i1]
            created = [U.strip(x[1]) for x in evs if x[0] in ("init_area", "init_zero")]
            for x in evs:
                if x[0] in ("prot", "write_bytes") and U.strip(x[1]) not in created:
                    obad = obad or "a program header of type %#x %s at its p_vaddr without having created that area" % (
                        ptype, "changes the permissions" if x[0] == "prot" else "overwrites bytes")
    lbad = lbad or skbad
    if n_eq == 0 or n_zero == 0:
        lbad = lbad or "PT_LOAD variants missing (equal=%d zero=%d)" % (n_eq, n_zero)
    if n_perm == 0:
        pbad = pbad or "no mem_prot on PT_LOAD paths"
    ck.floor("page-rounding evaluations", n_round, 4096)
    if rbad:
        ck.violation("C15.round", "segment=PT_LOAD", rbad, where=where, what="area length is not p_memsz rounded up to the page size")
    else:
        ck.ok("C15.round", "segment=PT_LOAD", n_round)
    ck.cov["non_load_headers_seen"] = n_other
    if obad:
        ck.violation("C15.others", "segment=other", obad, where=where,
                     what="a loaded segment's permissions or bytes no longer equal its own header's after another header is processed")
    else:
        ck.ok("C15.others", "segment=other", max(n_other, 1))
    for rule, bad in (("C15.load", lbad), ("C15.perm", pbad)):
        if bad:
            ck.violation(rule, "segment=PT_LOAD", bad, where=where, what="loaded image differs from the file's segment")
        else:
            ck.ok(rule, "segment=PT_LOAD", n_eq + n_zero if rule == "C15.load" else n_perm)
    # ---- symbols
    sbad = None
    nins = 0
    for o in outs:
        if o.kind != "return":
            continue
        evs = o.path.events
        file_seen = False
        for i, e in enumerate(evs):
            if e[0] == "coll" and e[1] == "insert" and e[2][-1:] == ("symbol_table",):
                key, val = e[3][0], e[3][1]
                from_file = "strname" in repr(val) and "st_name" in repr(val)
                if not from_file and file_seen:
                    # a name that does not come from the file is stored after the file's symbols: unless the slot was
                    # tested first it replaces whatever symbol the file defines at that address
                    tested = any(x[0] == "coll" and x[1] in ("contains_key", "get", "entry") and x[2][-1:] == ("symbol_table",)
                                 and x[3][:1] == (key,) for x in evs[:i])
                    if not tested:
                        sbad = sbad or "a name that is not read from the file is stored under %s after the file's symbols were " \
                                       "imported: it replaces the file's own symbol at that address" % A.show(key)[:40]
                file_seen = file_seen or from_file
                if U.strip(key) == ("field", ("field", EM.ELF, "ehdr"), "e_entry"):
                    continue  # the synthetic _start entry
                nins += 1
                if U.strip(key) != ("field", EM.SYM, "st_value"):
                    sbad = sbad or "symbol keyed by %s, expected st_value" % A.show(key)
                if "strname" not in repr(val) or "st_name" not in repr(val):
                    sbad = sbad or "symbol name is %s, expected strtab.get(st_name)" % A.show(val)[:60]
                # the closest preceding is_undefined on this path must be false
                und = [x for x in evs[:i] if x[0] == "undefined"]
                if und and und[-1][1] == 1:
                    sbad = sbad or "an undefined symbol is imported"
                if not und:
                    sbad = sbad or "symbol imported without testing is_undefined"
    if nins == 0:
        sbad = sbad or "no symbol import found"
    if sbad:
        ck.violation("C15.symbols", "api=from_binary", sbad, where=where)
    else:
        ck.ok("C15.symbols", "api=from_binary", nins)
    ck.sample({"rule": "C15", "paths": len(outs), "pt_load_equal": n_eq, "pt_load_zero": n_zero, "mem_prot": n_perm,
               "symbol_inserts": nins})


def seq_norm(v):
    """normal form of a byte-sequence value: copies (to_vec, deref) dropped; x[..len(x)] == x"""
    v = strip_d(v)
    if v[0] == "to_vec":
        return seq_norm(v[1])
    if v[0] == "slice":
        base, rg = seq_norm(v[1]), v[2]
        if rg[0] == "agg":
            kind = rg[1].rsplit("::", 1)[1]
            if kind == "RangeFull":
                return base
            if kind == "RangeTo" and EM.norm_len(rg[3][0]) == EM.norm_len(EM.seq_len(base)):
                return base
        return ("slice", base, rg)
    if v[0] == "filled":
        return ("filled", v[1], v[2])
    return v


def strip_d(t):
    while t[0] in ("deref", "w"):
        t = t[1]
    return t


def strip_all(t):
    while t[0] in ("deref", "w", "cast"):
        t = t[1]
    return t
